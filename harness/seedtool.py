"""Seeded-defect bookkeeping (never touches /repo's history; applies a patch to the working tree and undoes it).

  seedtool.py verify <src_dir> <name>        confirm in a scratch worktree: tests unchanged, demo fails with / passes without
                                             -> copies into /verif/seeded/<name>/
  seedtool.py detect <name> <PROP> [tier]    apply seeded/<name>/patch.diff to /repo, run ./check PROP, undo; record outcome
"""
import json
import os
import re
import shutil
import subprocess
import sys
import time
from pathlib import Path

VERIF = Path(__file__).resolve().parent.parent
REPO = Path("/repo")
PY = "/venv/bin/python"


def sh(cmd, cwd=None, timeout=3600, env=None):
    e = dict(os.environ)
    e.pop("AOTOOLS_VERIF", None)
    if env:
        e.update(env)
    p = subprocess.run(cmd, shell=True, cwd=cwd, stdout=subprocess.PIPE, stderr=subprocess.STDOUT, text=True,
                       timeout=timeout, env=e)
    return p.returncode, p.stdout


def tests(tree):
    rc, out = sh("%s -m pytest -q -p no:cacheprovider --timeout=900 -x --co -q test >/dev/null 2>&1; "
                 "%s -m pytest -q -p no:cacheprovider --timeout=900 test 2>&1 | tail -25" % (PY, PY), cwd=tree)
    m = re.search(r"(\d+) failed, (\d+) passed", out) or re.search(r"(\d+) passed", out)
    failed = sorted(set(re.findall(r"^FAILED (\S+)", out, re.M)))
    return out.strip().splitlines()[-1] if out.strip() else "", failed


def verify(src, name):
    src = Path(src)
    wt = Path("/tmp/sv-" + name)
    if wt.exists():
        sh("git -C /repo worktree remove --force %s" % wt)
    rc, out = sh("git -C /repo worktree add --detach %s HEAD" % wt)
    assert rc == 0, out
    try:
        rc0, out0 = sh("%s %s" % (PY, (src / "demo.py").resolve()), cwd=wt, timeout=600)
        base_line, base_failed = tests(wt)
        rc, out = sh("git apply %s" % (src / "patch.diff").resolve(), cwd=wt)
        if rc != 0:
            print("patch does not apply to HEAD:", out)
            return False
        rc1, out1 = sh("%s %s" % (PY, (src / "demo.py").resolve()), cwd=wt, timeout=600)
        line, failed = tests(wt)
        cnt = lambda l: re.findall(r"(\d+) (failed|passed|error|errors)", l)
        ok = rc0 == 0 and rc1 != 0 and failed == base_failed and cnt(line) == cnt(base_line)
        print("demo clean rc=%d, demo seeded rc=%d" % (rc0, rc1))
        print("tests clean : %s" % base_line)
        print("tests seeded: %s" % line)
        print("seeded demo says:", out1.strip().splitlines()[-1][:300] if out1.strip() else "")
        if not ok:
            print("NOT CONFIRMED (failed sets differ: %s vs %s)" % (base_failed, failed))
            return False
        dst = VERIF / "seeded" / name
        dst.mkdir(parents=True, exist_ok=True)
        shutil.copy(src / "patch.diff", dst / "patch.diff")
        shutil.copy(src / "demo.py", dst / "demo.py")
        meta = json.loads((src / "meta.json").read_text()) if (src / "meta.json").exists() else {}
        head = sh("git -C /repo rev-parse --short HEAD")[1].strip()
        meta["confirmed"] = dict(
            base_commit=head,
            ran=["git worktree add --detach /tmp/sv-%s HEAD" % name,
                 "demo.py on clean tree -> exit %d" % rc0,
                 "git apply patch.diff; demo.py -> exit %d" % rc1,
                 "pytest test (clean): %s" % base_line, "pytest test (seeded): %s" % line],
            demo_message=out1.strip().splitlines()[-1][:300] if out1.strip() else "")
        meta.setdefault("detected_by", {})
        (dst / "meta.json").write_text(json.dumps(meta, indent=1) + "\n")
        print("CONFIRMED ->", dst)
        return True
    finally:
        sh("git -C /repo worktree remove --force %s" % wt)
        shutil.rmtree(wt, ignore_errors=True)


def verify_benign(src, name):
    """A property-preserving change: tests pass with it, its own demo passes with and without it -> /verif/benign/<name>/."""
    src = Path(src)
    wt = Path("/tmp/sv-" + name)
    if wt.exists():
        sh("git -C /repo worktree remove --force %s" % wt)
    rc, out = sh("git -C /repo worktree add --detach %s HEAD" % wt)
    assert rc == 0, out
    try:
        rc0, out0 = sh("%s %s" % (PY, (src / "demo.py").resolve()), cwd=wt, timeout=900)
        rc, out = sh("git apply %s" % (src / "patch.diff").resolve(), cwd=wt)
        if rc != 0:
            print("patch does not apply to HEAD:", out)
            return False
        rc1, out1 = sh("%s %s" % (PY, (src / "demo.py").resolve()), cwd=wt, timeout=900)
        line, failed = tests(wt)
        print("demo clean rc=%d, demo changed rc=%d; tests changed: %s" % (rc0, rc1, line))
        if rc0 != 0 or rc1 != 0 or failed or "failed" in line or "error" in line:
            print("NOT ACCEPTED", (out1 or out0).strip().splitlines()[-1:][:1])
            return False
        dst = VERIF / "benign" / name
        dst.mkdir(parents=True, exist_ok=True)
        shutil.copy(src / "patch.diff", dst / "patch.diff")
        shutil.copy(src / "demo.py", dst / "demo.py")
        meta = json.loads((src / "meta.json").read_text()) if (src / "meta.json").exists() else {}
        meta["accepted"] = dict(base_commit=sh("git -C /repo rev-parse --short HEAD")[1].strip(),
                                ran=["demo.py on clean tree -> exit 0", "git apply patch.diff; demo.py -> exit 0", "pytest test (changed): %s" % line])
        meta.setdefault("checked_by", {})
        (dst / "meta.json").write_text(json.dumps(meta, indent=1) + "\n")
        print("ACCEPTED ->", dst)
        return True
    finally:
        sh("git -C /repo worktree remove --force %s" % wt)
        shutil.rmtree(wt, ignore_errors=True)


def detect(name, prop, tier="quick"):
    d = VERIF / "seeded" / name
    rc, out = sh("git -C /repo status --porcelain --untracked-files=no")
    assert out.strip() == "", "repo working tree not clean: " + out
    rc, out = sh("git -C /repo apply %s" % (d / "patch.diff"))
    assert rc == 0, out
    t0 = time.time()
    try:
        rc, out = sh("./check %s --tier %s" % (prop, tier), cwd=VERIF, timeout=7200, env={"AOTOOLS_VERIF": "1"})
    finally:
        sh("git -C /repo checkout -- .")
    lines = [l for l in out.splitlines() if l.startswith(("VIOLATION", "KNOWN-FINDING", "  key=", "MACHINERY", prop))]
    print("\n".join(lines[-12:]))
    print("exit", rc, "(%.0fs)" % (time.time() - t0))
    meta = json.loads((d / "meta.json").read_text())
    keys = [l.split("key=")[1].split(" detail=")[0] for l in lines if l.startswith("  key=")]
    meta.setdefault("detected_by" if root == "seeded" else "checked_by", {})["%s/%s" % (prop, tier)] = dict(exit=rc, keys=keys[:6])
    (d / "meta.json").write_text(json.dumps(meta, indent=1) + "\n")
    # the evidence file now describes a run on a modified tree: remove it so it is never committed by mistake
    ev = VERIF / "evidence" / (prop + ".json")
    if ev.exists():
        ev.unlink()
    return rc


def wdetect(name, prop, tier="quick", root="seeded"):
    """Like detect, but on a scratch worktree (AOTOOLS_REPO) so that several seeds can be examined at once; /repo untouched.
    root="benign": the same for a property-preserving change (benign/<name>/) - there the check has to stay quiet."""
    d = VERIF / root / name
    wt = "/tmp/wd-%s-%s-%s" % (root, name, prop)
    sh("git -C /repo worktree remove --force %s" % wt)
    rc, out = sh("git -C /repo worktree add --detach %s HEAD" % wt)
    assert rc == 0, out
    t0 = time.time()
    try:
        rc, out = sh("git -C %s apply %s" % (wt, d / "patch.diff"))
        if rc != 0:        # the seed was written against an earlier /repo HEAD (a later fix: commit touched its context)
            rc, out = sh("patch -p1 -F3 --no-backup-if-mismatch < %s" % (d / "patch.diff"), cwd=wt)
        assert rc == 0, out
        rc, out = sh("./check %s --tier %s" % (prop, tier), cwd=VERIF, timeout=7200,
                     env={"AOTOOLS_VERIF": "1", "AOTOOLS_REPO": wt, "AOVERIF_EVIDENCE_DIR": wt + "/.ev"})
    finally:
        sh("git -C /repo worktree remove --force %s" % wt)
        shutil.rmtree(wt, ignore_errors=True)
    lines = [l for l in out.splitlines() if l.startswith(("VIOLATION", "KNOWN-FINDING", "  key=", "MACHINERY", prop))]
    print("== %s\n" % name + "\n".join(lines[-8:]))
    print("exit", rc, "(%.0fs)" % (time.time() - t0))
    meta = json.loads((d / "meta.json").read_text())
    keys = [l.split("key=")[1].split(" detail=")[0] for l in lines if l.startswith("  key=")]
    meta.setdefault("detected_by" if root == "seeded" else "checked_by", {})["%s/%s" % (prop, tier)] = dict(exit=rc, keys=keys[:6])
    (d / "meta.json").write_text(json.dumps(meta, indent=1) + "\n")
    return rc


if __name__ == "__main__":
    if sys.argv[1] == "wdetect":
        sys.exit(0 if wdetect(*sys.argv[2:5]) == 1 else 3)
    if sys.argv[1] == "wquiet":          # benign change: exit 0 iff the check stays quiet
        sys.exit(0 if wdetect(sys.argv[2], sys.argv[3], sys.argv[4] if len(sys.argv) > 4 else "quick", root="benign") == 0 else 3)
    if sys.argv[1] == "verify-benign":
        sys.exit(0 if verify_benign(sys.argv[2], sys.argv[3]) else 1)
    if sys.argv[1] == "verify":
        sys.exit(0 if verify(sys.argv[2], sys.argv[3]) else 1)
    if sys.argv[1] == "detect":
        sys.exit(0 if detect(*sys.argv[2:5]) == 1 else 3)
