"""CLI:  check <ID> [--tier quick|thorough] | --setup | --replay <file> | --selftest [ID] | --list"""
import argparse
import importlib
import json
import os
import sys
import traceback
from pathlib import Path

sys.path.insert(0, str(Path(__file__).resolve().parent.parent))

from harness import core  # noqa: E402


def load(prop):
    return importlib.import_module("harness.checks." + prop.lower())


def all_props():
    d = Path(__file__).resolve().parent / "checks"
    return sorted(p.stem.upper() for p in d.glob("c[0-9][0-9].py"))


def setup():
    """Parse every specification, byte-check the harness, make sure aotools imports from /repo."""
    rc = 0
    for tla in sorted(core.SPEC.glob("*.tla")):
        ok, out = core.sany(tla.stem)
        print("SANY %-22s %s" % (tla.stem, "ok" if ok else "FAILED"))
        if not ok:
            print(out[-2000:])
            rc = 2
    for p in all_props():
        try:
            load(p)
            print("load %s ok" % p)
        except Exception:
            traceback.print_exc()
            rc = 2
    try:
        a = core.import_aotools()
        print("aotools from", a.__file__)
    except Exception:
        traceback.print_exc()
        rc = 2
    return rc


# modules each property is anchored in: their public functions / classes must be what the packages export under those names
T = "aotools.turbulence."
OWNERS = {
    "C01": [T + "slopecovariance"], "C02": [T + "slopecovariance"], "C03": [T + "slopecovariance"],
    "C04": [T + "infinitephasescreen", T + "turb"], "C05": [T + "infinitephasescreen"], "C06": [T + "phasescreen", T + "infinitephasescreen"],
    "C07": [T + "phasescreen"], "C10": ["aotools.opticalpropagation", "aotools.fouriertransform"], "C11": ["aotools.opticalpropagation", "aotools.fouriertransform"],
    "C12": ["aotools.functions.zernike", "aotools.functions.pupil"], "C14": ["aotools.functions.pupil", "aotools.wfs.wfslib"],
    "C15": ["aotools.image_processing.centroiders"], "C16": ["aotools.interpolation", "aotools.image_processing.psf", "aotools.functions.pupil"],
    "C17": [T + "atmos_conversions", "aotools.astronomy._astronomy"], "C18": [T + "profile_compression"],
    "C19": [T + "slopecovariance", T + "temporal_ps"],
    "C20": [T + "slopecovariance", T + "infinitephasescreen", T + "phasescreen", T + "turb", T + "atmos_conversions", T + "profile_compression", T + "temporal_ps",
            "aotools.fouriertransform", "aotools.interpolation", "aotools.functions.zernike", "aotools.functions.pupil", "aotools.functions._functions",
            "aotools.image_processing.centroiders", "aotools.image_processing.psf", "aotools.image_processing.contrast", "aotools.astronomy._astronomy",
            "aotools.wfs.wfslib"],
}


def exports_check(run, prop):
    from harness import namespace
    for key, detail in namespace.check(run, set(OWNERS.get(prop, []))):
        run.violation(key, detail, dict(kind="namespace-api", owners=OWNERS.get(prop, [])))


def main():
    ap = argparse.ArgumentParser()
    ap.add_argument("prop", nargs="?")
    ap.add_argument("--tier", default=os.environ.get("VERIF_TIER", "quick"), choices=["quick", "thorough"])
    ap.add_argument("--setup", action="store_true")
    ap.add_argument("--replay")
    ap.add_argument("--selftest", action="store_true")
    ap.add_argument("--list", action="store_true")
    a = ap.parse_args()
    seed = int(os.environ.get("VERIF_SEED", "20260926") or 0)
    if a.setup:
        return setup()
    if a.list:
        print("\n".join(all_props()))
        return 0
    if a.replay:
        rec = json.loads(Path(a.replay).read_text())
        mod = load(rec["property"])
        run = core.Run(rec["property"], rec.get("tier", "quick"), int(rec.get("seed", seed)))
        run.known = []  # a replay shows the raw verdict for this one case
        try:
            if rec["case"].get("kind") == "namespace-api":
                exports_check(run, rec["property"])
            else:
                mod.replay(run, rec["case"])
        except core.MachineryError as e:
            print("MACHINERY:", e)
            return 2
        for key, detail, case in run.violations:
            print("VIOLATION property=%s replay=%s" % (rec["property"], a.replay))
            print("  key=%s detail=%s" % (key, json.dumps(detail, default=str)[:1000]))
        if not run.violations:
            print("replay: case holds")
        return 1 if run.violations else 0
    if a.selftest:
        from harness import selftest
        return selftest.main()
    if not a.prop:
        ap.error("property id required")
    prop = a.prop.upper()
    mod = load(prop)
    run = core.Run(prop, a.tier, seed)
    try:
        if prop != "C20" and os.environ.get("VERIF_PRELUDE", "1") != "0":
            from harness import pollute
            run.aux["prelude_calls_of_other_entry_points"] = pollute.run()
        mod.run(run)
        if prop in OWNERS:
            exports_check(run, prop)
    except core.MachineryError as e:
        print("MACHINERY FAILURE in %s: %s" % (prop, e))
        return 2
    except Exception as ex:
        tb = traceback.extract_tb(ex.__traceback__)
        inside = [f for f in tb if str(f.filename).startswith(str(core.REPO.resolve()) + "/") or str(f.filename).startswith(str(core.REPO) + "/")]
        traceback.print_exc()
        if inside:
            # the library itself raised on an input of the check's scope (it does not on the unchanged tree): that is a
            # violation of the property for that input, not a failure of the machinery
            f = inside[-1]
            run.violation("library-raised:%s:%s" % (Path(f.filename).name, f.name),
                          dict(error=repr(ex)[:300], where="%s:%s in %s" % (f.filename, f.lineno, f.name)),
                          dict(kind="exception", traceback=traceback.format_exc()[-3000:]))
            return run.finish()
        print("MACHINERY FAILURE in %s (harness exception)" % prop)
        return 2
    return run.finish()


if __name__ == "__main__":
    sys.exit(main())
