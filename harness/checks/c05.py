"""C05 - the infinite screen evolves by exactly one row per step, for any history (spec/InfScreen.tla).

Mode A: TLC explores every history over {add_row, read, repr} up to the depth bound for every configuration and
prints each state; every printed history is executed on a real screen object and the projection
(cell identities of the exposed array, position of the instance generator) compared with the model's state.
Mode B: seeded random programs (5-40 operations) on real screens are recorded (one event per public call) and
validated by spec/InfScreenTrace.tla, which re-uses the model's actions and evaluates every invariant and
action property at every step."""
import copy
import json
import os
import shutil
import tempfile
import warnings

import numpy as np

from harness import core

PARAMS = [(0.5, 0.2, 20.0), (0.1, 0.15, 50.0)]


class Projector:
    """first-seen numbering of float bit patterns == the model's cell identities"""

    def __init__(self, obj, seed):
        work = self.work(obj)
        self.slen, self.nx = work.shape
        self.ids = {}
        for v in work.ravel():
            self.ids.setdefault(v.tobytes(), len(self.ids) + 1)
        # reference stream: the same seed, advanced the way the model's `pos` says
        ref = np.random.default_rng(seed)
        ref.normal(size=(self.slen, self.slen))
        ref.normal(size=(self.slen, self.slen))
        self.ref = ref
        self.ref_states = [json.dumps(ref.bit_generator.state, sort_keys=True, default=str)]
        self.pos0 = 2 * self.slen * self.slen

    @staticmethod
    def work(obj):
        if not hasattr(obj, "_scrn"):
            raise core.MachineryError("screen object has no _scrn working array (anchored state renamed?)")
        return np.asarray(obj._scrn)

    def clone(self):
        p = copy.copy(self)
        p.ids = dict(self.ids)
        return p

    def matrix(self, arr):
        arr = np.asarray(arr)
        out = []
        for row in arr:
            out.append([self.ids.setdefault(v.tobytes(), len(self.ids) + 1) for v in row])
        return out

    def draws(self, obj):
        """deviates drawn so far, inferred from the generator state (-1: not on the reference stream)"""
        st = json.dumps(obj._R.bit_generator.state, sort_keys=True, default=str)
        if st in self.ref_states:
            return self.pos0 + self.ref_states.index(st) * self.nx
        if st in self.__dict__.setdefault("off_stream", set()):
            return -1
        # extend the reference stream, but never beyond 1500 rows in total: an object that draws in another way (a child
        # generator, blocks) is simply not on it, and finding that out must stay cheap (it is drift, not a verdict)
        while len(self.ref_states) < 1500:
            self.ref.normal(0, 1, size=self.nx)
            self.ref_states.append(json.dumps(self.ref.bit_generator.state, sort_keys=True, default=str))
            if self.ref_states[-1] == st:
                return self.pos0 + (len(self.ref_states) - 1) * self.nx
        self.off_stream.add(st)
        return -1


def do_op(obj, op):
    if op == "add_row":
        return obj.add_row()
    if op == "read":
        return obj.scrn
    if op == "asarray":
        return np.asarray(obj.scrn).sum()
    if op == "repr":
        return repr(obj)
    if op == "str":
        return str(obj)
    raise ValueError(op)


def build(ips, variant, req, f, params, seed):
    ps, r0, L0 = params
    if variant == "vk":
        return ips.PhaseScreenVonKarman(req, ps, r0, L0, random_seed=seed)
    return ips.PhaseScreenKolmogorov(req, ps, r0, L0, random_seed=seed, stencil_length_factor=f)


def event(proj, obj, op, rng_before=None):
    work = Projector.work(obj)
    ex = np.asarray(obj.scrn)
    st = json.dumps(obj._R.bit_generator.state, sort_keys=True, default=str)
    wm = proj.matrix(work)          # number the working array first (row-major), as the model does
    return dict(op=op, work=wm, exposed=proj.matrix(ex), draws=proj.draws(obj),
                finite=bool(np.isfinite(work).all() and np.isfinite(ex).all()),
                rng_same=(rng_before is None or rng_before == st))


def _ips():
    core.import_aotools()
    from aotools.turbulence import infinitephasescreen
    return infinitephasescreen


def replay_hist(ips, bases, c):
    """run one model history on a copy of the base object; returns list of (key, detail)"""
    key = (c["variant"], c["req"], c["f"])
    base, proj0 = bases[key]
    obj = copy.deepcopy(base)
    proj = proj0.clone()
    for op in c["hist"]:
        before = json.dumps(obj._R.bit_generator.state, sort_keys=True, default=str)
        ex_before = np.array(obj.scrn, copy=True)
        do_op(obj, op)
        if op != "add_row":
            after = json.dumps(obj._R.bit_generator.state, sort_keys=True, default=str)
            if before != after:
                return [("infinite_screen:read-advances-stream", dict(op=op))]
            if not np.array_equal(ex_before, np.asarray(obj.scrn)):
                return [("infinite_screen:read-alters-screen", dict(op=op))]
        else:
            proj.matrix(Projector.work(obj)[:1])       # number the new working row in column order
    ex = np.asarray(obj.scrn)
    if ex.shape != (c["req"], c["req"]):
        return [("infinite_screen:exposed-shape", dict(shape=list(ex.shape), requested=c["req"], hist=c["hist"]))]
    if not np.isfinite(ex).all():
        return [("infinite_screen:non-finite", dict(hist=c["hist"]))]
    got = proj.matrix(ex)
    if got != c["exposed"]:
        return [("infinite_screen:shift-by-one-row", dict(hist=c["hist"], got=got, expected=c["exposed"]))]
    d = proj.draws(obj)
    if d != c["pos"]:
        # how many deviates an add_row consumes, and when, is the transcribed algorithm's business (Impl), not the property's
        return [("drift:infinite_screen:stream-position", dict(hist=c["hist"], got=d, expected=c["pos"]))]
    return []


def fresh_innovations(ips, variant, req, steps, seed):
    """long history on a small screen; innovation of step t = new row - A (stencil - ref) - ref, with A read from the object
    (attribution only: a wrong A cannot make two innovations coincide).  Returns the first exact repeat, if any."""
    obj = build(ips, variant, req, 1, PARAMS[0], seed)
    if not hasattr(obj, "A_mat") or not hasattr(obj, "stencil_coords"):
        return dict(variant=variant, req=req, steps=0, skipped="no A_mat / stencil_coords attributes")
    A = np.asarray(obj.A_mat, float)
    sc = np.asarray(obj.stencil_coords)
    refc = getattr(obj, "reference_coord", None) if variant == "fried" else None
    E = np.zeros((steps, A.shape[0]))
    for t in range(steps):
        w = Projector.work(obj)
        st = w[(sc[:, 0], sc[:, 1])]
        ref = w[refc] if refc is not None else 0.0
        obj.add_row()
        E[t] = Projector.work(obj)[0] - (A.dot(st - ref) + ref)
    scale = np.abs(E).max() or 1.0
    order = np.lexsort(E.T[::-1])
    Es = E[order]
    close = np.abs(Es[1:] - Es[:-1]).max(1) < 1e-9 * scale
    out = dict(variant=variant, req=req, steps=steps, innovation_scale=float(scale))
    if close.any():
        k = int(np.argmax(close))
        a, b = sorted((int(order[k]), int(order[k + 1])))
        out["repeat"] = dict(step=b, equals_step=a, lag=b - a)
    return out


def record_traces(ips, rng, n_traces, sizes, factors, n_long=4):
    traces = []
    skipped = 0
    while len(traces) < n_traces:
        long_one = len(traces) < n_long              # a few histories of several hundred steps on small screens
        variant = "vk" if rng.random() < 0.5 else "fried"
        req = int(rng.choice(sizes if not long_one else [2, 3, 4]))
        f = 1 if variant == "vk" else int(rng.choice(factors))
        params = PARAMS[int(rng.integers(0, len(PARAMS)))]
        seed = int(rng.integers(0, 2 ** 31 - 1))
        try:
            obj = build(ips, variant, req, f, params, seed)
        except Exception:  # construction may fail (LinAlgError) for a configuration: outside the property
            skipped += 1
            if skipped > 10 * n_traces + 100:
                raise core.MachineryError("cannot construct screens")
            continue
        proj = Projector(obj, seed)
        evs = [event(proj, obj, "new")]
        ops = ["add_row"] * 5 + ["read", "asarray", "repr", "str"]
        for _ in range(int(rng.integers(5, 41)) if not long_one else 300):
            op = ops[int(rng.integers(0, len(ops)))]
            before = json.dumps(obj._R.bit_generator.state, sort_keys=True, default=str)
            do_op(obj, op)
            evs.append(event(proj, obj, op, None if op == "add_row" else before))
        traces.append(dict(variant=variant, req=req, f=f, nx=proj.nx, slen=proj.slen, seed=seed, params=list(params), events=evs))
    return traces, skipped


def normalised_draws(t):
    pos = 2 * t["slen"] * t["slen"]
    evs = []
    for e in t["events"]:
        if e["op"] == "add_row":
            pos += t["nx"]
        evs.append(dict(e, draws=pos))
    return dict(t, events=evs)


def rerecord(ips, t):
    """execute the operations of a stored trace again on the current code (same class, parameters and seed)"""
    obj = build(ips, t["variant"], t["req"], t["f"], tuple(t.get("params", PARAMS[0])), t["seed"])
    proj = Projector(obj, t["seed"])
    evs = [event(proj, obj, "new")]
    for e in t["events"][1:]:
        before = json.dumps(obj._R.bit_generator.state, sort_keys=True, default=str)
        do_op(obj, e["op"])
        evs.append(event(proj, obj, e["op"], None if e["op"] == "add_row" else before))
    return dict(t, nx=proj.nx, slen=proj.slen, events=evs)


def validate_traces(run, traces, label, require=("TraceAddRow", "TraceRead", "TraceRepr")):
    tmp = tempfile.mkdtemp(prefix="aoverif-c05-")
    try:
        path = os.path.join(tmp, "traces.json")
        with open(path, "w") as fh:
            json.dump(traces, fh)
        r = run.tlc("InfScreenTrace", "InfScreenTrace.cfg", label=label, env={"TRACE_FILE": path}, workers=4, timeout=3000)
    finally:
        shutil.rmtree(tmp, ignore_errors=True)
    reached = {}
    for p in r.printed:
        if p.get("kind") == "progress":
            reached[p["tid"]] = max(reached.get(p["tid"], 0), p["l"])
    rejected = []
    for i, t in enumerate(traces, start=1):
        want = len(t["events"]) + 1
        if reached.get(i, 0) != want:
            rejected.append((i, reached.get(i, 1)))
    # vacuity is a machinery matter only when nothing was rejected (if every trace dies at its first event the rejections ARE the result)
    if not rejected:
        for a in require:
            if r.coverage.get(a, (0, 0))[1] == 0:
                raise core.MachineryError("vacuity: action %s of InfScreenTrace never taken in %s" % (a, label))
    return r, rejected


def run(run):
    ips = _ips()
    quick = run.tier == "quick"
    cfg = "InfScreen_quick.cfg" if quick else "InfScreen_thorough.cfg"
    r = run.tlc("InfScreen", cfg, require_actions=("AddRow", "Read", "Repr"), timeout=3000)
    if r.violated:
        raise core.MachineryError("InfScreen.tla violates its own property %s" % r.violated)
    run.bounds = dict(cfg=cfg, text=(core.SPEC / cfg).read_text(), params=PARAMS)
    warnings.simplefilter("ignore")
    # ---- mode A
    bases = {}
    unbuildable = set()
    n = 0
    for c in r.printed:
        key = (c["variant"], c["req"], c["f"])
        if key in unbuildable:
            continue
        if key not in bases:
            try:
                seed = 4242 + run.seed % 1000
                obj = build(ips, c["variant"], c["req"], c["f"], PARAMS[0], seed)
            except Exception as ex:  # noqa
                unbuildable.add(key)
                run.unrunnable.append(dict(config=list(key), error=repr(ex)[:120]))
                continue
            proj = Projector(obj, seed)
            if (proj.nx, proj.slen) != (c["nx"], c["slen"]):
                run.violation("infinite_screen:working-size", dict(config=list(key), got=[proj.slen, proj.nx],
                                                                   expected=[c["slen"], c["nx"]]), c)
                unbuildable.add(key)
                continue
            bases[key] = (obj, proj)
        for k2, detail in replay_hist(ips, bases, c):
            if k2.startswith("drift:"):
                run.drift(k2[6:], detail)
            else:
                run.violation(k2, detail, c)
        n += 1
        if n in (300, 9000):
            run.sample(c, limit=3)
    run.traces += n
    if not bases:
        raise core.MachineryError("no configuration could be constructed")
    # ---- mode B
    rng = np.random.default_rng(run.seed)
    traces, skipped = record_traces(ips, rng, 400 if quick else 4000, list(range(2, 10)), [1, 2, 3, 4])
    rt, rejected = validate_traces(run, traces, "InfScreenTrace/recorded")
    if rt.violated:
        bad = [t for t in traces][:1]
        run.violation("infinite_screen:trace-violates-" + rt.violated, dict(note="a recorded execution violates the model property"),
                      dict(kind="trace", trace=bad[0] if bad else None))
    if rejected:
        # is the rejection only about the stream position after construction / add_row (Impl detail)?  Validate the rejected
        # traces again with the model's own positions written in; reads keep their rng_same observation.
        sub = [normalised_draws(traces[tid - 1]) for tid, _ in rejected]
        _, rej2 = validate_traces(run, sub, "InfScreenTrace/rejected-with-model-stream-positions", require=())
        still = {rejected[i - 1][0] for i, _ in rej2}
        for tid, l in rejected:
            if tid not in still:
                run.drift("infinite_screen:stream-position-in-trace", dict(trace=tid, position=l, variant=traces[tid - 1]["variant"]))
        rejected = [(tid, l) for tid, l in rejected if tid in still]
    for tid, l in rejected[:5]:
        t = traces[tid - 1]
        ev = t["events"][l - 1] if l - 1 < len(t["events"]) else None
        run.violation("infinite_screen:trace-rejected:" + (ev["op"] if ev else "init"),
                      dict(trace=tid, position=l, variant=t["variant"], req=t["req"], f=t["f"],
                           event=dict(ev, work="...") if ev else None),
                      dict(kind="trace", trace=t))
    run.traces += len(traces) - len(rejected)
    run.sample(dict(trace_header={k: traces[0][k] for k in ("variant", "req", "f", "nx", "slen")},
                    first_events=[dict(e, work="(%d rows)" % len(e["work"])) for e in traces[0]["events"][:3]]), limit=4)
    # ---- stability clause (von Karman variant), auxiliary numerics on the one-step operator measured through add_row
    from harness.checks import c04
    stab = []
    # (the last three of each list: sizes at which n_columns nx or (n_columns + 1) nx is one more than a multiple of 128 / 256)
    for nn, ncol in ((4, 2), (6, 2), (5, 3), (43, 3), (129, 1), (171, 2)) if quick else ((4, 2), (6, 2), (5, 3), (8, 2), (12, 2), (9, 4), (43, 3), (129, 1), (171, 2), (65, 1), (107, 2), (77, 5)):
        # the second one: same geometry, another r0; the last two: very weak turbulence (pixel / r0 = 1e-5, 1e-6)
        for prm in ((0.25, 0.2, 30.0),) if nn > 20 else (PARAMS[0], (PARAMS[0][0], PARAMS[0][1] * 2.5, PARAMS[0][2]), (0.5, 5.0e4, 20.0), (0.01, 1.0e4, 10.0),
                    (1, 0.3, 20.0), (2, 0.5, 30.0),                                    # ... a pixel scale given as a Python int
                    (0.5, 0.2, 1.5), (1.0, 0.3, 2.0)):                                  # ... and screens wider than the outer scale
            rho, res = c04.vk_stability(ips, nn, ncol, prm)
            if rho is None:
                run.unrunnable.append(dict(stability=[nn, ncol], why="add_row does not draw its innovation inside the call"))
                continue
            stab.append(dict(n=nn, ncol=ncol, params=list(prm), spectral_radius=rho, stationarity_residual=res))
            if not (rho < 1 - 1e-9) or res > 1e-4:
                run.violation("infinite_screen:vk-recursion-not-stable-at-von-karman-covariance", stab[-1],
                              dict(kind="stability", n=nn, ncol=ncol))
    # ---- "stay there however many rows are added": the innovation of every step is NEW noise.  Over a long history the
    #      innovations e_t = row_t - (deterministic part) of a linear-Gaussian recursion are almost surely pairwise different;
    #      an exact repeat means deviates are being reused (a finite pool, a block that is never refilled)
    fresh = []
    for variant, req in (("vk", 3), ("fried", 2), ("vk", 2)):
        info = fresh_innovations(ips, variant, req, 2600 if quick else 40000, 97 + run.seed % 1000)
        fresh.append(info)
        if info.get("repeat"):
            run.violation("infinite_screen:innovation-repeats-earlier-step", info, dict(kind="fresh", variant=variant, req=req, steps=info["steps"]))
    run.aux["fresh_innovation_runs"] = fresh
    # ---- a screen the caller was handed stays what it was ("nothing else changes"): keep every returned array WITHOUT copying it,
    #      step on, and compare with the snapshot taken when it was handed out
    n_held = 0
    # (the last two: buffers of 2^18 elements and more)
    for variant, req, f in (("vk", 4, 1), ("fried", 4, 1), ("fried", 5, 2), ("vk", 7, 1), ("vk", 512, 1), ("fried", 130, 4)):
        try:
            obj = build(ips, variant, req, f, PARAMS[0], 31 + run.seed % 1000)
        except Exception:  # noqa
            continue
        held, snaps = [], []
        for k in range(7 if req > 7 else 320):          # small screens: frames held across several hundred further steps
            fr = obj.add_row() if k % 2 == 0 else obj.scrn
            if k % 2 == 1:
                obj.add_row()
            if k < 12 or k % 37 == 0:
                held.append(fr)
                snaps.append(np.array(fr, copy=True))
                n_held += 1
        stale = [i for i, (a_, b_) in enumerate(zip(held, snaps)) if not np.array_equal(np.asarray(a_), b_)]
        if stale:
            run.violation("infinite_screen:screen-handed-out-earlier-is-overwritten", dict(variant=variant, req=req, f=f, frames_changed=stale),
                          dict(kind="held", variant=variant, req=req, f=f))
    run.aux["held_frames_checked"] = n_held
    # ---- the same short history in a process whose floating-point error handling is strict (numpy.seterr(all="raise")), and screens
    #      smaller than their stencil depth: shape, finiteness, shift must hold there too (nothing may rely on a silenced 0*inf)
    n_env = 0
    for variant, req, kw in (("vk", 4, {}), ("fried", 4, dict(stencil_length_factor=2)), ("vk", 1, {}), ("vk", 2, dict(n_columns=4)), ("vk", 3, dict(n_columns=4)),
                             ("fried", 1, {}), ("vk", 1, dict(n_columns=3))):
        cls = ips.PhaseScreenVonKarman if variant == "vk" else ips.PhaseScreenKolmogorov
        for strict in (False, True):
            try:
                with np.errstate(all="raise" if strict else "ignore"):
                    obj = cls(req, 0.5, 0.2, 20.0, random_seed=9, **kw)
                    prev = np.array(obj.scrn, copy=True)
                    okh = prev.shape == (req, req)
                    for _ in range(4):
                        cur = np.array(obj.add_row(), copy=True)
                        okh = okh and cur.shape == (req, req) and bool(np.isfinite(cur).all()) and np.array_equal(cur[1:], prev[:-1])
                        prev = cur
                why = None if okh else "shape / finiteness / one-row shift"
            except Exception as ex:  # noqa
                why = repr(ex)[:160]
            n_env += 1
            if why:
                run.violation("infinite_screen:short-history-fails" + (":strict-floating-point-error-state" if strict else ":screen-smaller-than-stencil" if req < 4 else ""),
                              dict(variant=variant, req=req, why=why, **kw), dict(kind="env", variant=variant, req=req, kw=kw, strict=strict))
                break
    run.aux["environment_histories"] = n_env
    run.aux["vk_stability"] = stab
    run.aux.update(mode_a_histories=n, mode_b_traces=len(traces), mode_b_rejected=len(rejected),
                   mode_b_events=sum(len(t["events"]) for t in traces), constructions_skipped=skipped)
    run.assumptions += [
        "cell identities are observed through the working array attribute _scrn (the anchored state) and the public .scrn",
        "the stability / unique stationary covariance clause is a spectral statement outside TLC: the one-step operator of the von "
        "Karman recursion is measured through add_row and its spectral radius (< 1) and the stationarity of the theoretical "
        "covariance under it are evaluated numerically (auxiliary)",
    ]


def replay(run, case):
    ips = _ips()
    warnings.simplefilter("ignore")
    if case.get("kind") == "stability":
        from harness.checks import c04
        rho, res = c04.vk_stability(ips, case["n"], case["ncol"], PARAMS[0])
        if rho is not None and (not (rho < 1 - 1e-9) or res > 1e-4):
            run.violation("infinite_screen:vk-recursion-not-stable-at-von-karman-covariance", dict(rho=rho, res=res), case)
        return
    if case.get("kind") == "env":
        cls = ips.PhaseScreenVonKarman if case["variant"] == "vk" else ips.PhaseScreenKolmogorov
        try:
            with np.errstate(all="raise" if case["strict"] else "ignore"):
                obj = cls(case["req"], 0.5, 0.2, 20.0, random_seed=9, **case["kw"])
                for _ in range(4):
                    obj.add_row()
        except Exception as ex:  # noqa
            run.violation("infinite_screen:short-history-fails", dict(why=repr(ex)[:160]), case)
        return
    if case.get("kind") == "held":
        obj = build(ips, case["variant"], case["req"], case["f"], PARAMS[0], 31 + run.seed % 1000)
        held, snaps = [], []
        for k in range(7):
            fr = obj.add_row()
            held.append(fr)
            snaps.append(np.array(fr, copy=True))
        if any(not np.array_equal(np.asarray(a_), b_) for a_, b_ in zip(held, snaps)):
            run.violation("infinite_screen:screen-handed-out-earlier-is-overwritten", {}, case)
        return
    if case.get("kind") == "fresh":
        info = fresh_innovations(ips, case["variant"], case["req"], case["steps"], 97 + run.seed % 1000)
        if info.get("repeat"):
            run.violation("infinite_screen:innovation-repeats-earlier-step", info, case)
        return
    if case.get("kind") == "trace":
        _, rejected = validate_traces(run, [rerecord(ips, case["trace"])], "InfScreenTrace/replay", require=())
        for tid, l in rejected:
            run.violation("infinite_screen:trace-rejected", dict(position=l), case)
        return
    seed = 4242 + run.seed % 1000
    obj = build(ips, case["variant"], case["req"], case["f"], PARAMS[0], seed)
    bases = {(case["variant"], case["req"], case["f"]): (obj, Projector(obj, seed))}
    for k2, detail in replay_hist(ips, bases, case):
        if not k2.startswith("drift:"):
            run.violation(k2, detail, case)
