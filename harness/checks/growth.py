"""`./check growth` - behaviour outside the twenty listed properties (spec/Growth.tla), same discipline: TLC enumerates and decides
the model's invariants, every printed case is replayed into the real function.  Not part of MANIFEST.json (the property list is
fixed); evidence goes to evidence/growth.json for the record."""
import math
import warnings

import numpy as np

from harness import core


def run(run):
    ao = core.import_aotools()
    from aotools.functions import _functions as fn, zernike as zn
    from aotools.image_processing import contrast as co
    from aotools.turbulence import infinitephasescreen as ips
    r = run.tlc("Growth", "Growth.cfg", require_actions=("Choose", "Build"), timeout=1200)
    if r.violated:
        raise core.MachineryError("Growth.tla violates its own invariant %s" % r.violated)
    warnings.simplefilter("ignore")
    kinds = {}
    with np.errstate(all="ignore"):
        for c in r.printed:
            k = c["kind"]
            kinds[k] = kinds.get(k, 0) + 1
            run.traces += 1
            if kinds[k] == 5:
                run.sample(c, limit=4)
            if k == "contrast":
                img = np.array(c["img"], dtype=float)
                keep = img.copy()
                got = co.image_contrast(img)
                want = c["mich"][0] / c["mich"][1] if c["mich"][1] else float("nan")
                if not ((math.isnan(got) and math.isnan(want)) or abs(got - want) <= 1e-12):
                    run.violation("image_contrast:michelson", dict(got=got, expected=want), c)
                if c["rms2"][1]:
                    g2 = co.rms_contrast(img)
                    if abs(g2 * g2 - c["rms2"][0] / c["rms2"][1]) > 1e-12 or not np.array_equal(img, keep):
                        run.violation("rms_contrast:std-over-max", dict(got=g2, expected_sq=c["rms2"]), c)
            elif k == "gauss":
                cent = None if c["dflt"] else (c["yc2"] / 2.0, c["xc2"] / 2.0)
                got = np.asarray(fn.gaussian2d((c["ys"], c["xs"]), (float(c["yw"]), float(c["xw"])), amplitude=2.5, cent=cent), float)
                want = 2.5 * np.exp(-np.array([[a / b for a, b in row] for row in c["arg"]]) / 2.0)
                if got.shape != want.shape or not np.allclose(got, want, rtol=1e-13, atol=0):
                    run.violation("gaussian2d:pixel-values", dict(got=got.tolist(), expected=want.tolist()), c)
                if c["ys"] == c["xs"] and c["yw"] == c["xw"] and c["dflt"]:
                    g2 = np.asarray(fn.gaussian2d(c["ys"], float(c["yw"]), amplitude=2.5), float)        # scalar size / width
                    if not np.array_equal(g2, got):
                        run.violation("gaussian2d:scalar-arguments", {}, c)
            elif k == "zarray":
                N = 7
                J = c["J"] if c["J"] > 0 else list(c["list"])
                arr = np.asarray(zn.zernikeArray(J, N, norm=c["norm"]))
                ok = arr.shape[0] == len(c["arr"])
                for i, tok in enumerate(c["arr"]):
                    if not ok:
                        break
                    base = np.asarray(zn.zernike_noll(tok[1], N))
                    if c["norm"] == "noll":
                        ok = np.array_equal(arr[i], base)
                    else:
                        nz = np.abs(base) > 1e-12
                        ratio = arr[i][nz] / base[nz]
                        ok = ratio.size > 0 and np.allclose(ratio, ratio[0], rtol=1e-12) and ratio[0] > 0 and np.allclose(arr[i][~nz], 0)
                if not ok:
                    run.violation("zernikeArray:dataflow", dict(J=c["J"], list=c["list"], norm=c["norm"]), c)
            elif k == "alloc":
                if int(ips.find_allowed_size(c["nx"])) != c["size"]:
                    run.violation("find_allowed_size", dict(nx=c["nx"], got=int(ips.find_allowed_size(c["nx"])), expected=c["size"]), c)
    run.aux["cases_by_kind"] = kinds
    run.bounds = dict(cfg="Growth.cfg")
    run.assumptions.append("specification growth beyond the listed properties; not a claimed check")


def replay(run, case):
    sub = core.Run("growth", "quick", run.seed)
    sub.known = []
    globals()["run"](sub)
    run.violations += sub.violations
