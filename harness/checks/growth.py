"""`./check growth` - behaviour outside the twenty listed properties (spec/Growth.tla), same discipline: TLC enumerates and decides
the model's invariants, every printed case is replayed into the real function.  Not part of MANIFEST.json (the property list is
fixed); evidence goes to evidence/growth.json for the record."""
import math
import warnings

import numpy as np

from harness import core


def run(run):
    ao = core.import_aotools()
    from aotools.functions import _functions as fn, zernike as zn
    from aotools.image_processing import contrast as co
    from aotools.turbulence import infinitephasescreen as ips
    r = run.tlc("Growth", "Growth.cfg", require_actions=("Choose", "Build"), timeout=1200)
    if r.violated:
        raise core.MachineryError("Growth.tla violates its own invariant %s" % r.violated)
    warnings.simplefilter("ignore")
    kinds = {}
    with np.errstate(all="ignore"):
        for c in r.printed:
            k = c["kind"]
            kinds[k] = kinds.get(k, 0) + 1
            run.traces += 1
            if kinds[k] == 5:
                run.sample(c, limit=4)
            if k == "contrast":
                img = np.array(c["img"], dtype=float)
                keep = img.copy()
                got = co.image_contrast(img)
                want = c["mich"][0] / c["mich"][1] if c["mich"][1] else float("nan")
                if not ((math.isnan(got) and math.isnan(want)) or abs(got - want) <= 1e-12):
                    run.violation("image_contrast:michelson", dict(got=got, expected=want), c)
                if c["rms2"][1]:
                    g2 = co.rms_contrast(img)
                    if abs(g2 * g2 - c["rms2"][0] / c["rms2"][1]) > 1e-12 or not np.array_equal(img, keep):
                        run.violation("rms_contrast:std-over-max", dict(got=g2, expected_sq=c["rms2"]), c)
            elif k == "gauss":
                cent = None if c["dflt"] else (c["yc2"] / 2.0, c["xc2"] / 2.0)
                got = np.asarray(fn.gaussian2d((c["ys"], c["xs"]), (float(c["yw"]), float(c["xw"])), amplitude=2.5, cent=cent), float)
                want = 2.5 * np.exp(-np.array([[a / b for a, b in row] for row in c["arg"]]) / 2.0)
                if got.shape != want.shape or not np.allclose(got, want, rtol=1e-13, atol=0):
                    run.violation("gaussian2d:pixel-values", dict(got=got.tolist(), expected=want.tolist()), c)
                if c["ys"] == c["xs"] and c["yw"] == c["xw"] and c["dflt"]:
                    g2 = np.asarray(fn.gaussian2d(c["ys"], float(c["yw"]), amplitude=2.5), float)        # scalar size / width
                    if not np.array_equal(g2, got):
                        run.violation("gaussian2d:scalar-arguments", {}, c)
            elif k == "zarray":
                N = 7
                J = c["J"] if c["J"] > 0 else list(c["list"])
                arr = np.asarray(zn.zernikeArray(J, N, norm=c["norm"]))
                ok = arr.shape[0] == len(c["arr"])
                for i, tok in enumerate(c["arr"]):
                    if not ok:
                        break
                    base = np.asarray(zn.zernike_noll(tok[1], N))
                    if c["norm"] == "noll":
                        ok = np.array_equal(arr[i], base)
                    else:
                        nz = np.abs(base) > 1e-12
                        ratio = arr[i][nz] / base[nz]
                        ok = ratio.size > 0 and np.allclose(ratio, ratio[0], rtol=1e-12) and ratio[0] > 0 and np.allclose(arr[i][~nz], 0)
                if not ok:
                    run.violation("zernikeArray:dataflow", dict(J=c["J"], list=c["list"], norm=c["norm"]), c)
            elif k == "alloc":
                if int(ips.find_allowed_size(c["nx"])) != c["size"]:
                    run.violation("find_allowed_size", dict(nx=c["nx"], got=int(ips.find_allowed_size(c["nx"])), expected=c["size"]), c)
    # ---- structural pieces of the Karhunen-Loeve pipeline (spec/GrowthKL.tla)
    from aotools.functions import karhunenLoeve as kl
    r2 = run.tlc("GrowthKL", "GrowthKL.cfg", require_actions=("HelmertStep", "AziStep", "RebinStep", "RadiiStep"), timeout=1200)
    if r2.violated:
        raise core.MachineryError("GrowthKL.tla violates its own invariant %s" % r2.violated)
    with np.errstate(all="ignore"):
        for c in r2.printed:
            k = c["kind"]
            kinds[k] = kinds.get(k, 0) + 1
            run.traces += 1
            if kinds[k] == 3:
                run.sample(c, limit=8)
            if k == "helmert":
                nr = c["nr"]
                got = np.asarray(kl.piston_orth(nr), float)
                want = np.array(c["coef"], float) / np.sqrt(np.array(c["den"], float))[None, :]
                if got.shape != want.shape or not np.allclose(got, want, rtol=0, atol=1e-14) or not np.allclose(got.T.dot(got), np.eye(nr), rtol=0, atol=1e-13):
                    run.violation("piston_orth:helmert-matrix", dict(nr=nr, got=got.tolist()), c)
            elif k == "azi":
                nord, npp = c["nord"], c["npp"]
                got = np.asarray(kl.gkl_azimuthal(nord, npp), float)
                want = np.zeros((nord + 1, npp))
                for i, (kind, _) in enumerate(c["rows"]):
                    ang = 2 * np.pi * np.array(c["exps"][i], float) / npp
                    want[i] = 1.0 if kind == "one" else np.cos(ang) if kind == "cos" else np.sin(ang) if kind == "sin" else 0.0
                if got.shape != want.shape or not np.allclose(got, want, rtol=0, atol=1e-12):
                    run.violation("gkl_azimuthal:harmonic-table", dict(nord=nord, npp=npp, got=got.tolist()), c)
            elif k == "rebin":
                (o0, o1), (n0, n1) = c["old"], c["new"]
                a = np.arange(o0 * o1, dtype=float).reshape(o0, o1)
                got = np.asarray(kl.rebin(a, (n0, n1)))
                want = np.array([[a[i0, i1] for (i0, i1) in row] for row in c["idx"]])
                if got.shape != want.shape:
                    # the slice step is the float old/new: numpy.mgrid may produce one point more or fewer than `new`
                    run.drift("rebin:shape-from-float-step", dict(old=[o0, o1], new=[n0, n1], got=list(got.shape)))
                elif not np.array_equal(got, want):
                    run.violation("rebin:index-map", dict(old=[o0, o1], new=[n0, n1], got=got.tolist(), expected=want.tolist()), c)
            elif k == "radii":
                nr, ri = c["nr"], c["p"] / c["q"]
                g = np.asarray(kl.gkl_radii(ri, nr), float) ** 2
                wg = np.array([a_ / b_ for a_, b_ in c["gkl"]])
                ra = np.asarray(kl.radii(nr, 5, ri), float)
                wr = np.array([a_ / b_ for a_, b_ in c["rad"]])
                if g.shape != wg.shape or not np.allclose(g, wg, rtol=1e-13, atol=1e-15):
                    run.violation("gkl_radii:r-squared", dict(nr=nr, ri=ri, got=g.tolist(), expected=wg.tolist()), c)
                if ra.shape != (nr, 5) or not np.allclose(ra ** 2, wr[:, None] * np.ones((1, 5)), rtol=1e-13, atol=1e-15):
                    run.violation("radii:r-squared-replicated-over-azimuth", dict(nr=nr, ri=ri, got=ra.tolist()), c)
                ph = np.asarray(kl.polang(ra), float)
                if ph.shape != (nr, 5) or not np.allclose(ph, (np.arange(5) / 5 * 2 * np.pi)[None, :] * np.ones((nr, 1)), rtol=0, atol=1e-14):
                    run.violation("polang:azimuth-replicated-over-radius", dict(nr=nr, got=ph.tolist()), c)
    # ---- the discrete half of gkl_fcom (spec/KLSelect.tla): abstract eigenvalue ranks -> crafted kernels whose eigenvalues ARE those
    #      ranks (diagonal kernels for orders >= 1; P diag(mu, .) P^T with P = piston_orth for order 0), real gkl_fcom, compare labels
    r3 = run.tlc("KLSelect", "KLSelect.cfg", require_actions=("Place", "OrderStep", "Select", "DupStep", "Label"), timeout=2400)
    if r3.violated:
        raise core.MachineryError("KLSelect.tla violates its own invariant %s" % r3.violated)
    cases = r3.printed
    rng = np.random.default_rng(run.seed)
    if len(cases) > 6000:
        cases = [cases[i] for i in rng.permutation(len(cases))[:6000]]
    ri = 0.25
    with np.errstate(all="ignore"):
        for c in cases:
            nr, nfunc, cols = c["nr"], c["nfunc"], c["cols"]
            nt = len(cols)
            kinds["klselect"] = kinds.get("klselect", 0) + 1
            run.traces += 1
            if kinds["klselect"] == 7:
                run.sample(c, limit=12)
            kers = np.zeros((nr, nr, nt))
            P = np.asarray(kl.piston_orth(nr), float)
            mu = np.array([float(x) for x in cols[0][:nr - 1]] + [0.5])
            kers[:, :, 0] = P.dot(np.diag(mu)).dot(P.T)
            perm = {}
            for t in range(1, nt):
                pr = rng.permutation(nr)
                perm[t] = pr
                kers[:, :, t] = np.diag(np.array(cols[t], float)[pr])
            keep = kers.copy()
            try:
                evals, nord, npo, oord, rabas = kl.gkl_fcom(ri, kers, nfunc)
            except Exception as ex:  # noqa
                run.violation("gkl_fcom:raises", dict(error=repr(ex)[:160]), c)
                continue
            fk = (1.0 - ri ** 2) / nr
            bad = None
            if not np.allclose(np.asarray(evals, float) / fk, np.array(c["evals"], float), rtol=1e-9, atol=1e-9):
                bad = "gkl_fcom:selected-eigenvalues"
            elif [int(x) for x in oord] != c["oord"] or int(nord) != c["nord"] or [int(x) for x in npo] != c["npo"]:
                bad = "gkl_fcom:azimuthal-labels"
            elif not np.array_equal(kers, keep):
                bad = "gkl_fcom:kernels-argument-modified"
            else:
                rb = np.asarray(rabas, float)
                for i in range(nfunc):
                    t, k = c["tord"][i], c["pio"][i]
                    col = rb[:, i]
                    if t >= 1:
                        # the eigenvector of a diagonal kernel is +-e_j at the diagonal position that holds this eigenvalue, times sqrt(2 nr)
                        j0 = int(np.where(perm[t] == k)[0][0])
                        want = np.zeros(nr)
                        want[j0] = np.sqrt(2 * nr)
                        if not np.allclose(np.abs(col), want, rtol=0, atol=1e-9):
                            bad = "gkl_fcom:radial-function-of-wrong-eigenvalue"
                            break
                    elif abs(col.sum()) > 1e-9 * np.sqrt(nr) * nr:
                        bad = "gkl_fcom:zeroth-order-function-not-piston-free"
                        break
            if bad:
                run.violation(bad, dict(nr=nr, nfunc=nfunc, cols=cols, got=dict(evals=(np.asarray(evals) / fk).tolist(), oord=[int(x) for x in oord],
                                                                                 nord=int(nord), npo=[int(x) for x in npo])), c)
    # ---- the Cartesian side of the KL pipeline (spec/KLGeom.tla): aperture, ring and quadrant of every pixel; make_kl's dataflow
    r4 = run.tlc("KLGeom", "KLGeom.cfg", require_actions=("RowStep",), timeout=1200)
    if r4.violated:
        raise core.MachineryError("KLGeom.tla violates its own invariant %s" % r4.violated)
    aps = {}
    with np.errstate(all="ignore"):
        for c in r4.printed:
            kinds["klgeom"] = kinds.get("klgeom", 0) + 1
            run.traces += 1
            if kinds["klgeom"] == 9:
                run.sample(c, limit=6)
            ncp, mar, nr, ri, npp = c["ncp"], c["mar"], c["nr"], c["p"] / c["q"], 8
            try:
                g = kl.pcgeom(nr, npp, ncp, ri, mar)
            except Exception as ex:  # noqa
                run.violation("pcgeom:raises", dict(error=repr(ex)[:160], ncp=ncp, mar=mar, nr=nr, ri=ri), c)
                continue
            ap, tie = np.array(c["ap"], bool), np.array(c["tie"], bool)
            aps[(ncp, mar, c["p"], c["q"])] = (ap, tie)
            got_ap = np.asarray(g["ap"], bool)
            if got_ap.shape != ap.shape or np.any((got_ap != ap) & ~tie):
                run.violation("pcgeom:aperture-is-the-closed-annulus", dict(ncp=ncp, mar=mar, ri=ri, got=got_ap.astype(int).tolist()), c)
                continue
            cr, cp = np.asarray(g["cr"], float), np.asarray(g["cp"], float)
            near = np.abs(cr - np.round(cr)) < 1e-9
            judged = ~np.array(c["rtie"], bool) & ~near
            if np.any((np.floor(cr).astype(int) != np.array(c["ring"])) & judged):
                run.violation("pcgeom:equal-area-ring-of-a-pixel", dict(ncp=ncp, mar=mar, ri=ri, nr=nr, got=np.floor(cr).astype(int).tolist()), c)
            q = np.array(c["quad"])
            if np.any((np.floor(4.0 * cp / npp).astype(int) != q) & (q >= 0)):
                run.violation("pcgeom:quadrant-of-a-pixel", dict(ncp=ncp, mar=mar, got=np.floor(4.0 * cp / npp).astype(int).tolist()), c)
            if cr.min() < 1e-3 - 1e-12 or cr.max() > nr - 1.001 + 1e-12 or cp.min() < 1e-3 - 1e-12 or cp.max() > npp - 1.001 + 1e-12:
                run.violation("pcgeom:interpolation-coordinates-leave-the-polar-grid", dict(cr=[float(cr.min()), float(cr.max())], cp=[float(cp.min()), float(cp.max())]), c)
            # pol2car is bilinear interpolation at (cr, cp): it reproduces a radial ramp and an azimuthal ramp exactly
            ramp_r = np.arange(nr, dtype=float)[:, None] * np.ones((1, npp))
            ramp_a = np.ones((nr, 1)) * np.arange(npp, dtype=float)[None, :]
            keep = (ramp_r.copy(), cr.copy(), cp.copy(), got_ap.copy())
            if not np.allclose(kl.pol2car(g, ramp_r), cr, rtol=0, atol=1e-12) or not np.allclose(kl.pol2car(g, ramp_a), cp, rtol=0, atol=1e-12):
                run.violation("pol2car:bilinear-at-(cr,cp)", dict(ncp=ncp, mar=mar, nr=nr), c)
            mixed = ramp_r * 3.0 - ramp_a
            if not np.array_equal(kl.pol2car(g, mixed, mask=True), kl.pol2car(g, mixed) * got_ap):
                run.violation("pol2car:mask-is-the-aperture", dict(ncp=ncp, mar=mar), c)
            if not (np.array_equal(ramp_r, keep[0]) and np.array_equal(g["cr"], keep[1]) and np.array_equal(g["cp"], keep[2]) and np.array_equal(g["ap"], keep[3])):
                run.violation("pol2car:geometry-or-input-modified", dict(ncp=ncp, mar=mar), c)
            # the polar sample points in pixel coordinates: radius ff * r about the frame centre
            ff, hw = 0.5 * (ncp - 2 * mar), (ncp - 1) / 2.0
            rr = np.asarray(kl.radii(nr, npp, ri), float)
            if not np.allclose((np.asarray(g["px"]) - hw) ** 2 + (np.asarray(g["py"]) - hw) ** 2, (ff * rr) ** 2, rtol=1e-12, atol=1e-12):
                run.violation("pcgeom:polar-points-in-pixel-coordinates", dict(ncp=ncp, mar=mar), c)
            if g["ncp"] != ncp or g["ncmar"] != mar:
                run.violation("pcgeom:records-its-parameters", dict(ncp=g["ncp"], ncmar=g["ncmar"]), c)
            if kinds["klgeom"] % 40 == 1:
                g2 = kl.set_pctr(dict(nr=nr, np=npp, ri=ri), ncp=ncp, ncmar=mar)
                if any(not np.array_equal(np.asarray(g2[k_], float), np.asarray(g[k_], float), equal_nan=True) for k_ in g):
                    run.violation("set_pctr:is-pcgeom-of-the-basis-parameters", dict(ncp=ncp, mar=mar), c)
    # make_kl: frames = pol2car(geometry of (dim, margin 0), i-th polar function) times the aperture; pupil = aperture; variances = the basis'
    for (dim, p_, q_, nr_, nmax) in ((16, 1, 4, 8, 6), (13, 1, 2, 8, 5), (12, 3, 5, 5, 4)):
        ri = p_ / q_
        import contextlib, io
        with np.errstate(all="ignore"), contextlib.redirect_stdout(io.StringIO()):
            klm, var, pupil, base = kl.make_kl(nmax, dim, ri=ri, nr=nr_)
            klu, var_u, pupil_u, base_u = kl.make_kl(nmax, dim, ri=ri, nr=nr_, mask=False)
            pc1 = kl.set_pctr(base, ncp=dim, ncmar=0)
        run.traces += 1
        kinds["make_kl"] = kinds.get("make_kl", 0) + 1
        ap, tie = aps[(dim, 0, p_, q_)]
        case = dict(kind="make_kl", dim=dim, ri=[p_, q_], nr=nr_, nmax=nmax)
        if klm.shape != (nmax, dim, dim) or not np.all(np.isfinite(klm)):
            run.violation("make_kl:shape-or-finiteness", dict(shape=list(klm.shape)), case)
            continue
        if np.any((np.asarray(pupil, bool) != ap) & ~tie) or not np.array_equal(pupil, np.asarray(pc1["ap"], float)):
            run.violation("make_kl:pupil-is-the-aperture-of-the-frame", dict(got=np.asarray(pupil).astype(int).tolist()), case)
        if np.any(klm[:, ~np.asarray(pupil, bool)] != 0):
            run.violation("make_kl:modes-vanish-outside-the-pupil", {}, case)
        if not np.array_equal(klm, klu * pupil[None]):
            run.violation("make_kl:mask-only-multiplies-by-the-pupil", {}, case)
        for i in range(nmax):
            sf = np.asarray(kl.gkl_sfi(base, i), float)
            outer = np.outer(base["rabas"][:, i], base["azbas"][base["ord"][i], :])
            if sf.shape != outer.shape or not np.allclose(sf, outer, rtol=1e-13, atol=0):
                run.violation("gkl_sfi:radial-times-azimuthal", dict(i=i), case)
                break
            if not np.array_equal(klu[i], kl.pol2car(pc1, sf)):
                run.violation("make_kl:frame-i-is-function-i", dict(i=i), case)
                break
        if not np.array_equal(np.asarray(var), np.asarray(base["evals"])) or base["nfunc"] != nmax or base["nr"] != nr_ or base["np"] != int(2 * np.pi * nr_):
            run.violation("make_kl:variances-and-basis-record", dict(nfunc=base["nfunc"], nr=base["nr"], np=base["np"]), case)
    try:
        kl.make_kl(4, 12, ri=0.0, nr=5)
        run.violation("make_kl:full-aperture-must-be-refused", {}, dict(kind="make_kl", ri=0))
    except ValueError:
        pass
    from harness import protocol
    kinds["protocol"] = protocol.check(run, ips, rng, 3000)
    from aotools.turbulence import slopecovariance as sc_
    kinds["covprotocol"] = protocol.check_cov(run, sc_, rng, 1200)
    run.aux["cases_by_kind"] = kinds
    run.bounds = dict(cfg="Growth.cfg", kl_cfg="GrowthKL.cfg", klselect_cfg="KLSelect.cfg", klgeom_cfg="KLGeom.cfg", klselect_cases_replayed=len(cases), protocol_cfg="ObjProtocol.cfg",
                      protocol_histories_replayed=kinds["protocol"])
    run.assumptions.append("specification growth beyond the listed properties; not a claimed check")


def replay(run, case):
    sub = core.Run("growth", "quick", run.seed)
    sub.known = []
    globals()["run"](sub)
    run.violations += sub.violations
