"""C07 - FFT phase screens have exactly the discretised von Karman statistics (spec/FFTScreen.tla).

TLC derives the frequency grid, the removed zero frequency, the exponent table of the draw -> pixel linear map from the
shift / inverse-DFT / shift pipeline (shared with Fourier.tla) and the sub-harmonic phase tables, and checks DCRemoved,
Stationary, HermitianPairing and the sub-harmonic geometry.  Binding: the real ft_phase_screen / ft_sh_phase_screen are
probed with unit draws through a scripted numpy Generator (the documented `seed` parameter accepts one); every probe must
equal amplitude * root-of-unity pattern, with the amplitude (modified von Karman spectrum) evaluated independently."""
import warnings

import numpy as np

from harness import core

# (r0, delta, L0, l0): includes an inner scale that is large compared with the pixel, and repeated geometry with another r0
# ... the Kolmogorov limit (infinite outer scale) and an outer scale smaller than the screen (L0 <= N delta for every N in scope)
PARAMS = [(0.15, 0.1, 20.0, 0.01), (0.30, 0.1, 20.0, 0.01), (0.2, 0.1, 8.0, 0.3), (0.1, 0.05, 100.0, 0.02),
          (0.2, 0.1, float("inf"), 0.01), (0.2, 0.25, 0.4, 0.01),
          # pixel sizes for which 1/(N delta) and the grid of frequencies are not exactly representable
          (0.2, 0.3, 20.0, 0.01), (0.15, 0.07, 30.0, 0.01), (0.2, 0.7, 50.0, 0.05),
          # inner scale far below the pixel (l0 / delta = 5e-4, 2e-6): the cut-off factor is close to, but not, 1
          (0.2, 0.1, 20.0, 5e-5), (0.2, 0.5, 20.0, 1e-6)]


class ProtocolChanged(Exception):
    """the code asks for its deviates in another way than the transcribed algorithm: the scripted unit-draw probes do not apply
    (the covariance is then decided by regression_covariance alone)"""


class Scripted(np.random.Generator):
    def __init__(self, seed=0):
        super().__init__(np.random.PCG64(seed))
        self.queue = []
        self.calls = []

    def normal(self, loc=0.0, scale=1.0, size=None):
        self.calls.append(size)
        if self.queue:
            v = np.asarray(self.queue.pop(0), float)
            if size is not None and tuple(np.atleast_1d(size)) != v.shape:
                raise ProtocolChanged("scripted draw of shape %s requested as %s" % (v.shape, size))
            return loc + scale * v
        return super().normal(loc, scale, size)


class Recording(np.random.Generator):
    """a Generator that hands out ordinary deviates and remembers every one of them, in order"""

    def __init__(self, seed=0):
        super().__init__(np.random.PCG64(seed))
        self.log = []

    def normal(self, loc=0.0, scale=1.0, size=None):
        v = super().standard_normal(size)
        self.log.append(np.ravel(v).copy())
        return loc + scale * v

    def standard_normal(self, size=None, *a, **k):
        v = super().standard_normal(size)
        self.log.append(np.ravel(v).copy())
        return v


def regression_covariance(func, N, P, seed0):
    """exact ensemble covariance of func's screen WITHOUT assuming how it asks for its deviates: run it on recorded generators,
    regress the screens on the deviates (the screen must be a linear function of them), C = B^T B.
    Returns (C, None) | (None, "why it could not be measured") | (None, ("violation key", detail))"""
    r0, delta, L0, l0 = P
    X, Y = [], []
    n = None
    k = 0
    while n is None or len(X) < 2 * n + 4:
        g = Recording(seed0 + k)
        k += 1
        y = np.asarray(func(r0, N, delta, L0, l0, seed=g), float)
        x = np.concatenate(g.log) if g.log else np.zeros(0)
        if n is None:
            n = x.size
            if n == 0:
                return None, "no deviates drawn through Generator.normal / standard_normal"
        if x.size != n:
            return None, "the number of deviates varies between calls"
        if y.shape != (N, N):
            return None, ("%s:shape" % func.__name__, dict(N=N, shape=list(y.shape)))
        if not np.all(np.isfinite(y)):
            return None, ("%s:non-finite-screen" % func.__name__, dict(N=N, params=P))
        X.append(x)
        Y.append(y.ravel())
    X, Y = np.array(X), np.array(Y)
    B = np.linalg.lstsq(X, Y, rcond=None)[0]
    if np.abs(X.dot(B) - Y).max() > 1e-9 * max(np.abs(Y).max(), 1e-300):
        return None, ("%s:not-linear-in-draws" % func.__name__, dict(N=N, params=P, residual=float(np.abs(X.dot(B) - Y).max())))
    return B.T.dot(B), None


def model_maps(c, P):
    """the model's linear maps draws -> screen for the high-frequency part (2 N^2 draws) and the sub-harmonics (54 draws)"""
    N = c["N"]
    zN, z9 = np.zeros((N, N)), np.zeros((3, 3))
    Lhi = np.zeros((N * N, 2 * N * N))
    for k in range(N * N):
        e = zN.copy()
        e.flat[k] = 1
        Lhi[:, k] = expected_hi(c, P, e, zN).ravel()
        Lhi[:, N * N + k] = expected_hi(c, P, zN, e).ravel()
    Llo = np.zeros((N * N, 54))
    idx = 0
    for p in range(3):
        for part in (0, 1):
            for ij in range(9):
                e = z9.copy()
                e.flat[ij] = 1
                draws = [((e, z9) if part == 0 else (z9, e)) if pp == p else (z9, z9) for pp in range(3)]
                Llo[:, idx] = expected_lo(c, P, draws).ravel()
                idx += 1
    return Lhi, Llo


def check_covariance(ps, c, P, seed0):
    """the Def clause itself: exact ensemble covariance = the model's (inverse DFT sum of the sampled spectrum, zero frequency
    removed; plus, for the sub-harmonic variant, the three 3x3 sub-grids, mean removed), whatever the draw protocol"""
    N = c["N"]
    Lhi, Llo = model_maps(c, P)
    Chi, Clo = Lhi.dot(Lhi.T), Llo.dot(Llo.T)
    bad, notes = [], []
    for f, want, name in ((ps.ft_phase_screen, Chi, "ft_phase_screen"), (ps.ft_sh_phase_screen, Chi + Clo, "ft_sh_phase_screen")):
        C, why = regression_covariance(f, N, P, seed0)
        if C is None:
            if isinstance(why, tuple):
                bad.append(why)
            else:
                notes.append("%s: %s" % (name, why))
            continue
        tol = 1e-8 * np.abs(want).max()
        if np.abs(C - want).max() > tol:
            i, j = np.unravel_index(int(np.argmax(np.abs(C - want))), C.shape)
            part = ""
            if name == "ft_sh_phase_screen":
                part = ":sub-harmonic-part-missing" if np.abs(C - Chi).max() <= tol else ""
            bad.append(("%s:ensemble-covariance%s" % (name, part), dict(N=N, params=P, pixels=[int(i), int(j)], got=float(C[i, j]), expected=float(want[i, j]))))
    return bad, notes


def psd(f, r0, L0, l0):
    fm = 5.92 / l0 / (2 * np.pi)
    return 0.023 * r0 ** (-5. / 3) * np.exp(-(f / fm) ** 2) / ((f ** 2 + (1. / L0) ** 2) ** (11. / 6))


def amp_grid(c, P):
    r0, delta, L0, l0 = P
    N = c["N"]
    del_f = 1.0 / (N * delta)
    q = np.array(c["q"], float)
    s = np.sqrt(psd(np.sqrt(q) * del_f, r0, L0, l0)) * del_f
    s[tuple(c["dc"])] = 0.0
    return s


def expected_hi(c, P, a, b):
    """screen for draws (a, b) from the model's exponent table"""
    N = c["N"]
    E = np.array(c["E"], float)
    z = np.exp(-2j * np.pi / N)
    s = amp_grid(c, P)
    W = z ** E                                   # W[x, k]
    coef = (a + 1j * b) * s
    return np.real(W.dot(coef).dot(W.T))


def expected_lo(c, P, draws):
    """draws: list of 3 pairs (a33, b33)"""
    r0, delta, L0, l0 = P
    N = c["N"]
    lo = np.zeros((N, N), complex)
    for p in range(3):
        shp = c["sh"][p]
        del_f = 1.0 / (3 ** (p + 1) * N * delta)
        q9 = np.array(shp["q9"], float)
        s = np.sqrt(psd(np.sqrt(q9) * del_f, r0, L0, l0)) * del_f
        s[1, 1] = 0.0
        a, b = draws[p]
        coef = (np.asarray(a) + 1j * np.asarray(b)) * s
        ex = np.array(shp["ex"], float)          # [r, c, i, j]
        lo += (np.exp(2j * np.pi * ex / shp["order"]) * coef[None, None]).sum((2, 3))
    lo = lo.real
    return lo - lo.mean()


def check_size(ps, c, rng, quick):
    bad = []
    N = c["N"]
    z9 = np.zeros((3, 3))
    zN = np.zeros((N, N))
    ncmp = 0
    for P in (PARAMS if N <= 12 else PARAMS[:2] + PARAMS[-3:-2]):          # the big sizes (prime factor >= 13) with three parameter sets
        r0, delta, L0, l0 = P
        gen = Scripted(1)
        # ---- plain FFT screen: every unit draw
        scale = amp_grid(c, P).max() or 1.0
        for k1 in range(N):
            for k2 in range(N):
                for part in (0, 1):
                    e = zN.copy()
                    e[k1, k2] = 1.0
                    a, b = (e, zN) if part == 0 else (zN, e)
                    gen.queue = [a, b]
                    got = np.asarray(ps.ft_phase_screen(r0, N, delta, L0, l0, seed=gen))
                    want = expected_hi(c, P, a, b)
                    ncmp += 1
                    if got.shape != (N, N) or not np.allclose(got, want, rtol=0, atol=1e-11 * scale):
                        what = "dc-not-removed" if [k1, k2] == c["dc"] else "unit-draw-pattern"
                        return [("ft_phase_screen:%s" % what, dict(N=N, params=P, draw=[k1, k2], part="re" if part == 0 else "im",
                                                                    err=float(np.abs(got - want).max()) if got.shape == (N, N) else None))], ncmp
        # linear in composite draws
        a, b = rng.standard_normal((N, N)), rng.standard_normal((N, N))
        gen.queue = [a, b]
        got = np.asarray(ps.ft_phase_screen(r0, N, delta, L0, l0, seed=gen))
        want = expected_hi(c, P, a, b)
        if not np.allclose(got, want, rtol=0, atol=1e-10 * np.abs(want).max()):
            return [("ft_phase_screen:not-linear-in-draws", dict(N=N, params=P))], ncmp
        if abs(got.mean()) > 1e-10 * np.abs(got).max():
            bad.append(("ft_phase_screen:non-zero-spatial-mean", dict(N=N, params=P, mean=float(got.mean()))))
        # ---- sub-harmonic screen: hi draws zero, every unit low-frequency draw
        for p in range(3):
            for i in range(3):
                for j in range(3):
                    for part in (0, 1):
                        draws = [(z9, z9)] * 3
                        e = z9.copy()
                        e[i, j] = 1.0
                        draws = [((e, z9) if part == 0 else (z9, e)) if pp == p else (z9, z9) for pp in range(3)]
                        gen.queue = [zN, zN] + [m for d in draws for m in d]
                        gen.calls = []
                        got = np.asarray(ps.ft_sh_phase_screen(r0, N, delta, L0, l0, seed=gen))
                        want = expected_lo(c, P, draws)
                        ncmp += 1
                        sc = max(np.abs(want).max(), 1e-300)
                        if gen.queue:
                            raise ProtocolChanged("sub-harmonic deviates not requested: calls %s" % [str(s_) for s_ in gen.calls])
                        if got.shape != (N, N) or not np.allclose(got, want, rtol=0, atol=1e-10 * max(sc, 1e-6 * scale)):
                            what = "centre-not-removed" if (i, j) == (1, 1) else "unit-draw-pattern"
                            return [("ft_sh_phase_screen:%s" % what, dict(N=N, params=P, p=p + 1, element=[i, j],
                                                                           err=float(np.abs(got - want).max()) if got.shape == (N, N) else None))], ncmp
                        if abs(got.mean()) > 1e-12 * max(sc, 1e-300) * N * N:
                            return [("ft_sh_phase_screen:mean-not-removed", dict(N=N, params=P, p=p + 1, element=[i, j]))], ncmp
        # additive: total = high-frequency part + low-frequency part on disjoint draws (so it only ADDS power)
        a, b = rng.standard_normal((N, N)), rng.standard_normal((N, N))
        draws = [(rng.standard_normal((3, 3)), rng.standard_normal((3, 3))) for _ in range(3)]
        gen.queue = [a, b] + [m for d in draws for m in d]
        got = np.asarray(ps.ft_sh_phase_screen(r0, N, delta, L0, l0, seed=gen))
        want = expected_hi(c, P, a, b) + expected_lo(c, P, draws)
        if not np.allclose(got, want, rtol=0, atol=1e-10 * np.abs(want).max()):
            bad.append(("ft_sh_phase_screen:not-hi-plus-lo", dict(N=N, params=P, err=float(np.abs(got - want).max()))))
    # ---- a user-supplied inverse FFT (the FFT= parameter) must give the same screen as the default path (even N)
    if N >= 2:
        for fftobj in (np.fft.ifft2, lambda a: np.fft.ifft2(a)):
            for P in PARAMS[:2]:
                r0, delta, L0, l0 = P
                a0 = np.asarray(ps.ft_phase_screen(r0, N, delta, L0, l0, seed=11))
                a1 = np.asarray(ps.ft_phase_screen(r0, N, delta, L0, l0, FFT=fftobj, seed=11))
                b0 = np.asarray(ps.ft_sh_phase_screen(r0, N, delta, L0, l0, seed=11))
                b1 = np.asarray(ps.ft_sh_phase_screen(r0, N, delta, L0, l0, FFT=fftobj, seed=11))
                if not np.allclose(a1, a0, rtol=0, atol=1e-11 * np.abs(a0).max()) or not np.allclose(b1, b0, rtol=0, atol=1e-11 * np.abs(b0).max()):
                    bad.append(("ft_phase_screen:FFT-argument-changes-the-screen", dict(N=N, params=P)))
                    break
    # ---- r0 scaling for fixed draws, interleaved calls on the same geometry
    for seed in (0, 3):
        base = np.asarray(ps.ft_phase_screen(0.2, N, 0.1, 20.0, 0.01, seed=seed))
        for fac in (2.0, 0.5, 3.0):
            other = np.asarray(ps.ft_phase_screen(0.2 * fac, N, 0.1, 20.0, 0.01, seed=seed))
            again = np.asarray(ps.ft_phase_screen(0.2, N, 0.1, 20.0, 0.01, seed=seed))
            if not np.allclose(other, base * fac ** (-5. / 6), rtol=1e-12, atol=1e-14 * np.abs(base).max()) or not np.array_equal(again, base):
                bad.append(("ft_phase_screen:r0-scaling", dict(N=N, factor=fac, seed=seed)))
                break
        # parameters handed over as numpy scalars of lower precision are the numbers they hold
        for ty in (np.float32, np.float16):
            q = [float(ty(v)) for v in (0.2, 0.1, 20.0, 0.01)]
            want = np.asarray(ps.ft_phase_screen(q[0], N, q[1], q[2], q[3], seed=seed))
            for pos in range(4):
                args = list(q)
                args[pos] = ty(args[pos])
                got = np.asarray(ps.ft_phase_screen(args[0], N, args[1], args[2], args[3], seed=seed))
                if got.shape != want.shape or not np.allclose(got, want, rtol=0, atol=1e-11 * np.abs(want).max()):
                    bad.append(("ft_phase_screen:parameter-as-%s" % np.dtype(ty).name, dict(N=N, position=pos, err=float(np.abs(got - want).max() / np.abs(want).max()))))
                    break
        bsh = np.asarray(ps.ft_sh_phase_screen(0.2, N, 0.1, 20.0, 0.01, seed=seed))
        osh = np.asarray(ps.ft_sh_phase_screen(0.4, N, 0.1, 20.0, 0.01, seed=seed))
        if not np.allclose(osh, bsh * 2.0 ** (-5. / 6), rtol=1e-11, atol=1e-13 * np.abs(bsh).max()):
            bad.append(("ft_sh_phase_screen:r0-scaling", dict(N=N, seed=seed)))
    # seed=None: every call is a NEW draw of the ensemble (three screens, pairwise different; with the same linear map the
    # probability of a coincidence is zero)
    for fn_ in (ps.ft_phase_screen, ps.ft_sh_phase_screen):
        scr = [np.asarray(fn_(0.2, N, 0.1, 20.0, 0.01), float) for _ in range(3)]
        if any(np.array_equal(scr[i], scr[j]) for i in range(3) for j in range(i + 1, 3)):
            bad.append(("%s:unseeded-calls-repeat-the-same-draws" % fn_.__name__, dict(N=N)))
    return bad, ncmp


class ConstantGen(np.random.Generator):
    """every deviate it hands out is the same number: the screen is then the SUM of all columns of the linear map, whatever
    order, shapes or blocks the deviates are requested in (as long as every Fourier coefficient gets its own two deviates)"""

    def __init__(self, value):
        super().__init__(np.random.PCG64(0))
        self.value = value
        self.handed_out = 0

    def normal(self, loc=0.0, scale=1.0, size=None):
        n = int(np.prod(size)) if size is not None else 1
        self.handed_out += n
        return loc + scale * (np.full(size, self.value) if size is not None else self.value)

    def standard_normal(self, size=None, *a, **k):
        return self.normal(0.0, 1.0, size)


def check_constant_draws(ps, sizes):
    """protocol-independent and exact, for any size: all deviates equal to v gives v * (sum over all modes of s_k (cos - sin) pattern)"""
    bad = []
    n = 0
    for N in sizes:
        c = synth_case(N)
        for P in (PARAMS[0], PARAMS[2]):
            r0, delta, L0, l0 = P
            ones = np.ones((N, N))
            want1 = expected_hi(c, P, ones, ones)
            for v in (1.0, -0.5):
                got = np.asarray(ps.ft_phase_screen(r0, N, delta, L0, l0, seed=ConstantGen(v)), float)
                n += 1
                if got.shape != (N, N) or not np.allclose(got, v * want1, rtol=0, atol=1e-9 * np.abs(want1).max()):
                    bad.append(("ft_phase_screen:sum-of-all-modes(equal-deviates)", dict(N=N, params=P, value=v, shape=list(got.shape),
                                                                                        err=float(np.abs(got - v * want1).max() / np.abs(want1).max()) if got.shape == (N, N) else None)))
                    return bad, n
    return bad, n


class GatedGen(np.random.Generator):
    """a seeded generator that waits, at its k-th request for deviates, until another thread has finished a whole screen"""

    def __init__(self, seed, pause_at, gate, reached):
        super().__init__(np.random.PCG64(seed))
        self.k, self.pause_at, self.gate, self.reached = 0, pause_at, gate, reached

    def normal(self, loc=0.0, scale=1.0, size=None):
        self.k += 1
        if self.k == self.pause_at:
            self.reached.set()
            self.gate.wait(60)
        return super().normal(loc, scale, size)


def check_two_threads(ps):
    """two screens of the same size generated at the same time by two threads (a deterministic schedule: thread A stops between its
    high-frequency part and its sub-harmonics while thread B generates a complete screen): each is the screen of its own deviates"""
    import threading
    bad = []
    for fn, pause in ((ps.ft_sh_phase_screen, 3), (ps.ft_sh_phase_screen, 5), (ps.ft_phase_screen, 2)):
        N = 8
        alone = [np.asarray(fn(0.2, N, 0.1, 20.0, 0.01, seed=np.random.default_rng(s_)), float) for s_ in (21, 22)]
        gate, reached = threading.Event(), threading.Event()
        out = {}
        ta = threading.Thread(target=lambda: out.__setitem__("a", np.asarray(fn(0.2, N, 0.1, 20.0, 0.01, seed=GatedGen(21, pause, gate, reached)), float)))
        ta.start()
        reached.wait(60)
        out["b"] = np.asarray(fn(0.2, N, 0.1, 20.0, 0.01, seed=np.random.default_rng(22)), float)
        gate.set()
        ta.join(60)
        if "a" not in out or not np.array_equal(out["a"], alone[0]) or not np.array_equal(out["b"], alone[1]):
            bad.append(("%s:screens-generated-concurrently-influence-each-other" % fn.__name__, dict(N=N, paused_before_request=pause,
                        err_a=float(np.abs(out.get("a", alone[0] * np.nan) - alone[0]).max()), err_b=float(np.abs(out["b"] - alone[1]).max()))))
            break
    return bad


def check_huge(ps, N=4096):
    """one very large screen (16 M pixels): for fixed draws the amplitude scales exactly as r0^(-5/6) and the spatial mean is zero to
    double precision"""
    bad = []
    a = np.asarray(ps.ft_phase_screen(0.2, N, 0.01, 30.0, 0.01, seed=77), float)
    b = np.asarray(ps.ft_phase_screen(0.4, N, 0.01, 30.0, 0.01, seed=77), float)
    rms = float(a.std())
    if a.shape != (N, N) or not np.allclose(b, a * 2.0 ** (-5. / 6), rtol=0, atol=1e-11 * np.abs(a).max()):
        bad.append(("ft_phase_screen:r0-scaling:very-large-grid", dict(N=N, err=float(np.abs(b - a * 2.0 ** (-5. / 6)).max() / np.abs(a).max()) if a.shape == (N, N) else None)))
    elif abs(float(a.mean())) > 1e-13 * rms:
        bad.append(("ft_phase_screen:non-zero-spatial-mean:very-large-grid", dict(N=N, mean_over_rms=float(a.mean()) / rms)))
    return bad


def synth_case(N):
    """the model's tables for the plain screen from their closed form (checked against TLC's own tables for the sizes TLC printed)"""
    k = np.arange(N)
    f = k - N // 2
    return dict(N=N, freq=f.tolist(), q=(f[:, None] ** 2 + f[None, :] ** 2).tolist(), dc=[N // 2, N // 2],
                E=((-np.outer(f, f)) % N).tolist())


def check_big_sizes(ps, printed, sizes):
    """sizes far beyond TLC's (several hundred pixels): unit draws in the first, middle and LAST rows / columns of the coefficient array"""
    bad = []
    n = 0
    for c in printed:                                     # the closed form IS the model
        sc_ = synth_case(c["N"])
        if any(sc_[k_] != c[k_] for k_ in ("freq", "q", "dc", "E")):
            raise core.MachineryError("synth_case(%d) differs from FFTScreen.tla's tables" % c["N"])
    P = PARAMS[0]
    r0, delta, L0, l0 = P
    for N in sizes:
        c = synth_case(N)
        s_ = amp_grid(c, P)
        z = np.exp(2j * np.pi / N)
        f = np.array(c["freq"])
        gen = Scripted(1)
        for k1 in sorted({0, 1, N // 2 - 1, 255, 256, 257, N - 65, N - 2, N - 1} & set(range(N))):
            for k2 in (0, N // 3, N - 1):
                for part in (0, 1):
                    e = np.zeros((N, N))
                    e[k1, k2] = 1.0
                    a, b = (e, np.zeros((N, N))) if part == 0 else (np.zeros((N, N)), e)
                    gen.queue = [a, b]
                    try:
                        got = np.asarray(ps.ft_phase_screen(r0, N, delta, L0, l0, seed=gen), float)
                    except ProtocolChanged:
                        return bad, n, "draw protocol differs"
                    if gen.queue:
                        return bad, n, "draw protocol differs"
                    coef = (1.0 if part == 0 else 1j) * s_[k1, k2]
                    want = np.real(coef * np.outer(z ** (f * f[k1] % N), z ** (f * f[k2] % N)))
                    n += 1
                    if got.shape != (N, N) or not np.allclose(got, want, rtol=0, atol=1e-9 * max(s_.max(), 1e-300)):
                        bad.append(("ft_phase_screen:unit-draw-pattern:large-grid", dict(N=N, draw=[k1, k2], part="re" if part == 0 else "im",
                                                                                        err=float(np.abs(got - want).max() / s_.max()) if got.shape == (N, N) else None)))
                        return bad, n, None
    return bad, n, None


def int_seed_mode(ps, c, P, seed=5):
    """which deviates feed the sub-harmonics when the seed is an integer?  "sequential": the ones that follow the high-frequency
    screen's on one stream (independent of it);  "coupled": a second generator from the same seed, i.e. the first 54 deviates the
    high-frequency screen has already used (the library's behaviour before 2981c8d);  "unknown": neither."""
    r0, delta, L0, l0 = P
    N = c["N"]
    hi = np.asarray(ps.ft_phase_screen(r0, N, delta, L0, l0, seed=seed), float)
    lo = np.asarray(ps.ft_sh_phase_screen(r0, N, delta, L0, l0, seed=seed), float) - hi
    R = np.random.default_rng(seed)
    R.normal(size=(N, N)), R.normal(size=(N, N))
    seq = [(R.normal(size=(3, 3)), R.normal(size=(3, 3))) for _ in range(3)]
    R2 = np.random.default_rng(seed)
    cpl = [(R2.normal(size=(3, 3)), R2.normal(size=(3, 3))) for _ in range(3)]
    for name, d in (("sequential", seq), ("coupled", cpl)):
        want = expected_lo(c, P, d)
        if lo.shape == want.shape and np.allclose(lo, want, rtol=0, atol=1e-9 * max(np.abs(want).max(), np.abs(hi).max() * 1e-3)):
            return name
    return "unknown"


def coupled_ensemble(c, P):
    """When int_seed_mode is "coupled" the 54 low-frequency draws equal the first 54 high-frequency draws.
    Exact structure functions of that coupled ensemble from the model's linear maps: returns min(D_total - D_hi)/max(D_hi)."""
    N = c["N"]
    nd = 2 * N * N
    zN, z9 = np.zeros((N, N)), np.zeros((3, 3))
    Lhi = np.zeros((N * N, nd))
    for k in range(N * N):
        e = zN.copy()
        e.flat[k] = 1
        Lhi[:, k] = expected_hi(c, P, e, zN).ravel()
        Lhi[:, N * N + k] = expected_hi(c, P, zN, e).ravel()
    Llo = np.zeros((N * N, 54))
    idx = 0
    for p in range(3):
        for part in (0, 1):
            for ij in range(9):
                e = z9.copy()
                e.flat[ij] = 1
                draws = [((e, z9) if part == 0 else (z9, e)) if pp == p else (z9, z9) for pp in range(3)]
                Llo[:, idx] = expected_lo(c, P, draws).ravel()
                idx += 1
    M = Lhi.copy()
    M[:, :54] += Llo

    def D(L):
        C = L.dot(L.T)
        d = np.diag(C)
        return d[:, None] + d[None, :] - 2 * C
    Dhi = D(Lhi)
    return float((D(M) - Dhi).min() / Dhi.max())


def ensemble(c, P):
    """exact ensemble covariance of the plain screen from the model (aux report: variance constant, stationarity)"""
    N = c["N"]
    s2 = amp_grid(c, P) ** 2
    fr = np.array(c["freq"], float)
    d = np.arange(N)
    cosx = np.cos(2 * np.pi * np.outer(d, fr) / N)          # [dx, k]
    sinx = np.sin(2 * np.pi * np.outer(d, fr) / N)
    # Cov(dx1, dx2) = sum_k s2[k1,k2] cos(2 pi (f1 dx1 + f2 dx2)/N)
    return cosx.dot(s2).dot(cosx.T) - sinx.dot(s2).dot(sinx.T)


def run(run):
    core.import_aotools()
    from aotools.turbulence import phasescreen as ps
    quick = run.tier == "quick"
    cfg = "FFTScreen_quick.cfg" if quick else "FFTScreen_thorough.cfg"
    r = run.tlc("FFTScreen", cfg, require_actions=("FreqGrid", "RemoveDC", "Transform", "SubHarm"), timeout=3000)
    if r.violated:
        raise core.MachineryError("FFTScreen.tla violates its own invariant %s" % r.violated)
    run.bounds = dict(cfg=cfg, text=(core.SPEC / cfg).read_text(), params=PARAMS)
    rng = np.random.default_rng(run.seed)
    warnings.simplefilter("ignore")
    total = 0
    var0 = {}
    coupled = {}
    modes = {}
    ncov = unmeasured = 0
    for c in sorted(r.printed, key=lambda d: d["N"]):
        with np.errstate(all="ignore"):
            try:
                bad, ncmp = check_size(ps, c, rng, quick)
            except ProtocolChanged as ex:
                bad, ncmp = [], 0
                run.drift("draw-protocol-differs-from-transcription", dict(N=c["N"], why=str(ex)[:200]))
            if c["N"] <= (8 if quick else 12):
                for P in PARAMS:
                    b2, notes = check_covariance(ps, c, P, 1000 + run.seed % 1000)
                    bad += b2
                    ncov += 2
                    for nt in notes:
                        run.drift("ensemble-covariance-not-measurable", dict(N=c["N"], why=nt))
                        unmeasured += 1
        total += ncmp
        for key, detail in bad:
            run.violation(key, detail, dict(kind="size", N=c["N"]))
        cov = ensemble(c, PARAMS[0])
        var0[c["N"]] = float(cov[0, 0])
        if 6 <= c["N"] <= 10:
            for P in PARAMS:
                with np.errstate(all="ignore"):
                    mode = int_seed_mode(ps, c, P)
                modes[mode] = modes.get(mode, 0) + 1
                if mode == "unknown":
                    run.drift("ft_sh_phase_screen:integer-seed-draw-protocol-not-recognised", dict(N=c["N"], params=P))
                if mode != "coupled":
                    continue
                with np.errstate(all="ignore"):
                    rel = coupled_ensemble(c, P)
                coupled[str((c["N"],) + P)] = rel
                if rel < -1e-9:
                    run.violation("ft_sh_phase_screen:same-seed-coupling-lowers-structure-function", dict(N=c["N"], params=P, rel=rel),
                                  dict(kind="size", N=c["N"]))
    with np.errstate(all="ignore"):
        for key, detail in check_two_threads(ps) + check_huge(ps):
            run.violation(key, detail, dict(kind="threads-or-huge"))
    total += 4
    with np.errstate(all="ignore"):
        badk, nk = check_constant_draws(ps, (4, 8, 26, 34, 96, 300, 320) if quick else (4, 8, 12, 26, 34, 58, 96, 300, 320, 384, 640))
    for key, detail in badk:
        run.violation(key, detail, dict(kind="constant"))
    total += nk
    with np.errstate(all="ignore"):
        badb, nbig, note = check_big_sizes(ps, r.printed, (320,) if quick else (320, 384, 300))
    for key, detail in badb:
        run.violation(key, detail, dict(kind="big"))
    if note:
        run.drift("draw-protocol-differs-from-transcription", dict(where="large grids", why=note))
    total += nbig
    run.aux["large_grid_unit_draws"] = nbig
    run.traces += total + ncov
    if ncov and unmeasured == ncov:
        raise core.MachineryError("no ensemble covariance could be measured (deviates not drawn through the Generator?)")
    c0 = sorted(r.printed, key=lambda d: d["N"])[1 if len(r.printed) > 1 else 0]
    run.sample(dict(N=c0["N"], freq=c0["freq"], dc=c0["dc"], E=c0["E"], sh_orders=[s["order"] for s in c0["sh"]]))
    run.aux.update(unit_draw_probes=total, model_variance_per_size=var0, int_seed_coupled_min_dD_over_maxD=coupled, int_seed_draw_protocol=modes, regression_covariances=ncov, regression_unmeasurable=unmeasured,
                   trusted=["numpy exp/sqrt for the spectrum value (an atom in the model)"])
    run.assumptions += [
        "the two convergence clauses (structure function -> analytic as the grid is refined; sub-harmonics closer at large "
        "separations) are asymptotic numerics and are not decided",
        "'only adds power' is decided structurally: the returned screen is the high-frequency screen plus a mean-removed "
        "low-frequency screen on disjoint draws (independent when the seed is None or a Generator)",
    ]


def replay(run, case):
    core.import_aotools()
    from aotools.turbulence import phasescreen as ps
    warnings.simplefilter("ignore")
    if case.get("kind") == "threads-or-huge":
        with np.errstate(all="ignore"):
            for key, detail in check_two_threads(ps) + check_huge(ps):
                run.violation(key, detail, case)
        return
    if case.get("kind") == "constant":
        with np.errstate(all="ignore"):
            for key, detail in check_constant_draws(ps, (4, 8, 26, 34, 96, 300, 320))[0]:
                run.violation(key, detail, case)
        return
    if case.get("kind") == "big":
        r0 = core.run_tlc("FFTScreen", "FFTScreen_quick.cfg", coverage=False, timeout=600)
        with np.errstate(all="ignore"):
            for key, detail in check_big_sizes(ps, r0.printed, (320,))[0]:
                run.violation(key, detail, case)
        return
    r = core.run_tlc("FFTScreen", "FFTScreen_thorough.cfg", coverage=False, timeout=600)
    rng = np.random.default_rng(run.seed)
    for c in r.printed:
        if c["N"] == case["N"]:
            with np.errstate(all="ignore"):
                try:
                    bad, _ = check_size(ps, c, rng, True)
                except ProtocolChanged:
                    bad = []
                if c["N"] <= 12:
                    for P in PARAMS:
                        bad += check_covariance(ps, c, P, 1000 + run.seed % 1000)[0]
                for P in PARAMS:
                    if 6 <= c["N"] <= 10 and int_seed_mode(ps, c, P) == "coupled" and coupled_ensemble(c, P) < -1e-9:
                        bad.append(("ft_sh_phase_screen:same-seed-coupling-lowers-structure-function", dict(N=c["N"], params=P)))
            for key, detail in bad:
                run.violation(key, detail, case)
