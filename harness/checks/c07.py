"""C07 - FFT phase screens have exactly the discretised von Karman statistics (spec/FFTScreen.tla).

TLC derives the frequency grid, the removed zero frequency, the exponent table of the draw -> pixel linear map from the
shift / inverse-DFT / shift pipeline (shared with Fourier.tla) and the sub-harmonic phase tables, and checks DCRemoved,
Stationary, HermitianPairing and the sub-harmonic geometry.  Binding: the real ft_phase_screen / ft_sh_phase_screen are
probed with unit draws through a scripted numpy Generator (the documented `seed` parameter accepts one); every probe must
equal amplitude * root-of-unity pattern, with the amplitude (modified von Karman spectrum) evaluated independently."""
import warnings

import numpy as np

from harness import core, gens

# (r0, delta, L0, l0): includes an inner scale that is large compared with the pixel, and repeated geometry with another r0
# ... the Kolmogorov limit (infinite outer scale) and an outer scale smaller than the screen (L0 <= N delta for every N in scope)
PARAMS = [(0.15, 0.1, 20.0, 0.01), (0.30, 0.1, 20.0, 0.01), (0.2, 0.1, 8.0, 0.3), (0.1, 0.05, 100.0, 0.02),
          (0.2, 0.1, float("inf"), 0.01), (0.2, 0.25, 0.4, 0.01),
          # pixel sizes for which 1/(N delta) and the grid of frequencies are not exactly representable
          (0.2, 0.3, 20.0, 0.01), (0.15, 0.07, 30.0, 0.01), (0.2, 0.7, 50.0, 0.05),
          # inner scale far below the pixel (l0 / delta = 5e-4, 2e-6): the cut-off factor is close to, but not, 1
          (0.2, 0.1, 20.0, 5e-5), (0.2, 0.5, 20.0, 1e-6)]


class ProtocolChanged(Exception):
    """the code asks for its deviates in another way than the transcribed algorithm: the scripted unit-draw probes do not apply
    (the covariance is then decided by regression_covariance alone)"""


class Scripted(gens.HarnessGenerator):
    def __init__(self, seed=0):
        super().__init__(seed, queue=[], calls=[])

    queue = property(lambda self: self.sh.queue, lambda self, v: setattr(self.sh, "queue", v))
    calls = property(lambda self: self.sh.calls, lambda self, v: setattr(self.sh, "calls", v))

    def normal(self, loc=0.0, scale=1.0, size=None):
        self.sh.calls.append(size)
        if self.sh.queue:
            v = np.asarray(self.sh.queue.pop(0), float)
            if size is not None and tuple(np.atleast_1d(size)) != v.shape:
                raise ProtocolChanged("scripted draw of shape %s requested as %s" % (v.shape, size))
            return loc + scale * v
        return super().normal(loc, scale, size)

    def standard_normal(self, size=None, *a, **k):
        self.sh.calls.append(("standard_normal", size))
        if self.sh.queue:
            raise ProtocolChanged("deviates requested through standard_normal%s while scripted draws for normal() are pending" % (size,))
        return super().standard_normal(size, *a, **k)


class Indexed(gens.HarnessGenerator):
    """serves the entries of ONE prescribed vector x as the deviates, in whatever order, shapes and through whichever of
    normal / standard_normal the code asks for them: the k-th deviate the code consumes is x[k].  With x = e_k this measures
    column k of the code's linear map draws -> screen without assuming anything about its draw protocol."""

    def __init__(self, x):
        if gens.is_bitgen(x):                     # a child stream spawned by the library: shares the parent's vector and position
            super().__init__(x)
        else:
            super().__init__(0, x=np.asarray(x, float), pos=0)

    pos = property(lambda self: self.sh.pos)

    def _take(self, size):
        sh = self.sh
        shape = () if size is None else tuple(np.atleast_1d(size).astype(int))
        n = int(np.prod(shape)) if shape else 1
        if sh.pos + n > sh.x.size:
            raise ProtocolChanged("more deviates requested (%d) than in the counting call (%d)" % (sh.pos + n, sh.x.size))
        v = sh.x[sh.pos:sh.pos + n].reshape(shape) if shape else float(sh.x[sh.pos])
        sh.pos += n
        return v

    def normal(self, loc=0.0, scale=1.0, size=None):
        return loc + scale * self._take(size)

    def standard_normal(self, size=None, dtype=np.float64, out=None):
        v = self._take(size if out is None else out.shape)
        if out is not None:
            out[...] = v
            return out
        return np.asarray(v, dtype=dtype) if np.ndim(v) else v


def signed_permutation(L, Lmodel):
    """is every non-zero column of L plus or minus a column of Lmodel, each used at most once?"""
    if L.shape != Lmodel.shape:
        return False
    sc = max(np.abs(Lmodel).max(), 1e-300)
    G = L.T.dot(Lmodel)                               # G[k, m] = <code column k, model column m>
    used = set()
    for k in range(L.shape[1]):
        if np.abs(L[:, k]).max() <= 1e-12 * sc:
            continue
        for m in np.argsort(-np.abs(G[k]))[:4]:
            if int(m) not in used and (np.allclose(L[:, k], Lmodel[:, m], rtol=0, atol=1e-9 * sc) or np.allclose(L[:, k], -Lmodel[:, m], rtol=0, atol=1e-9 * sc)):
                used.add(int(m))
                break
        else:
            return False
    return True


def measured_map(func, N, P, rng):
    """the code's own linear map L (pixels x deviates), column by column; None, why  when it cannot be measured this way.
    Also decides linearity: a random deviate vector must give L x."""
    r0, delta, L0, l0 = P
    g = Recording(5)
    y0 = np.asarray(func(r0, N, delta, L0, l0, seed=g), float)
    n = int(sum(v.size for v in g.log))
    if n == 0:
        return None, "no deviates drawn through Generator.normal / standard_normal"
    if y0.shape != (N, N):
        return None, ("%s:shape" % func.__name__, dict(N=N, shape=list(y0.shape)))
    L = np.zeros((N * N, n))
    e = np.zeros(n)
    for k in range(n):
        e[k] = 1.0
        gen = Indexed(e)
        y = np.asarray(func(r0, N, delta, L0, l0, seed=gen), float)
        e[k] = 0.0
        if gen.pos != n:
            return None, "the number of deviates varies between calls"
        if not np.all(np.isfinite(y)):
            return None, ("%s:non-finite-screen" % func.__name__, dict(N=N, params=P, unit_deviate=k))
        L[:, k] = y.ravel()
    x = rng.standard_normal(n)
    y = np.asarray(func(r0, N, delta, L0, l0, seed=Indexed(x)), float).ravel()
    zero = np.asarray(func(r0, N, delta, L0, l0, seed=Indexed(np.zeros(n))), float).ravel()
    sc = max(np.abs(L).max(), 1e-300)
    if np.abs(zero).max() > 1e-12 * sc or np.abs(L.dot(x) - y).max() > 1e-10 * sc * np.sqrt(n):
        return None, ("%s:not-linear-in-draws" % func.__name__, dict(N=N, params=P, err=float(np.abs(L.dot(x) - y).max() / sc), at_zero=float(np.abs(zero).max() / sc)))
    return L, None


Recording = gens.Recording


def regression_covariance(func, N, P, seed0):
    """exact ensemble covariance of func's screen WITHOUT assuming how it asks for its deviates: run it on recorded generators,
    regress the screens on the deviates (the screen must be a linear function of them), C = B^T B.
    Returns (C, None) | (None, "why it could not be measured") | (None, ("violation key", detail))"""
    r0, delta, L0, l0 = P
    X, Y = [], []
    n = None
    k = 0
    while n is None or len(X) < 2 * n + 4:
        g = Recording(seed0 + k)
        k += 1
        y = np.asarray(func(r0, N, delta, L0, l0, seed=g), float)
        x = np.concatenate(g.log) if g.log else np.zeros(0)
        if n is None:
            n = x.size
            if n == 0:
                return None, "no deviates drawn through Generator.normal / standard_normal"
        if x.size != n:
            return None, "the number of deviates varies between calls"
        if y.shape != (N, N):
            return None, ("%s:shape" % func.__name__, dict(N=N, shape=list(y.shape)))
        if not np.all(np.isfinite(y)):
            return None, ("%s:non-finite-screen" % func.__name__, dict(N=N, params=P))
        X.append(x)
        Y.append(y.ravel())
    X, Y = np.array(X), np.array(Y)
    B = np.linalg.lstsq(X, Y, rcond=None)[0]
    if np.abs(X.dot(B) - Y).max() > 1e-9 * max(np.abs(Y).max(), 1e-300):
        return None, ("%s:not-linear-in-draws" % func.__name__, dict(N=N, params=P, residual=float(np.abs(X.dot(B) - Y).max())))
    return B.T.dot(B), None


def model_maps(c, P):
    """the model's linear maps draws -> screen for the high-frequency part (2 N^2 draws) and the sub-harmonics (54 draws)"""
    N = c["N"]
    zN, z9 = np.zeros((N, N)), np.zeros((3, 3))
    Lhi = np.zeros((N * N, 2 * N * N))
    for k in range(N * N):
        e = zN.copy()
        e.flat[k] = 1
        Lhi[:, k] = expected_hi(c, P, e, zN).ravel()
        Lhi[:, N * N + k] = expected_hi(c, P, zN, e).ravel()
    Llo = np.zeros((N * N, 54))
    idx = 0
    for p in range(3):
        for part in (0, 1):
            for ij in range(9):
                e = z9.copy()
                e.flat[ij] = 1
                draws = [((e, z9) if part == 0 else (z9, e)) if pp == p else (z9, z9) for pp in range(3)]
                Llo[:, idx] = expected_lo(c, P, draws).ravel()
                idx += 1
    return Lhi, Llo


def check_covariance(ps, c, P, seed0):
    """the Def clause itself: exact ensemble covariance = the model's (inverse DFT sum of the sampled spectrum, zero frequency
    removed; plus, for the sub-harmonic variant, the three 3x3 sub-grids, mean removed), whatever the draw protocol"""
    N = c["N"]
    Lhi, Llo = model_maps(c, P)
    Chi, Clo = Lhi.dot(Lhi.T), Llo.dot(Llo.T)
    bad, notes = [], []
    for f, want, name in ((ps.ft_phase_screen, Chi, "ft_phase_screen"), (ps.ft_sh_phase_screen, Chi + Clo, "ft_sh_phase_screen")):
        C, why = regression_covariance(f, N, P, seed0)
        if C is None:
            if isinstance(why, tuple):
                bad.append(why)
            else:
                notes.append("%s: %s" % (name, why))
            continue
        tol = 1e-8 * np.abs(want).max()
        if np.abs(C - want).max() > tol:
            i, j = np.unravel_index(int(np.argmax(np.abs(C - want))), C.shape)
            part = ""
            if name == "ft_sh_phase_screen":
                part = ":sub-harmonic-part-missing" if np.abs(C - Chi).max() <= tol else ""
            bad.append(("%s:ensemble-covariance%s" % (name, part), dict(N=N, params=P, pixels=[int(i), int(j)], got=float(C[i, j]), expected=float(want[i, j]))))
    return bad, notes


def psd(f, r0, L0, l0):
    fm = 5.92 / l0 / (2 * np.pi)
    return 0.023 * r0 ** (-5. / 3) * np.exp(-(f / fm) ** 2) / ((f ** 2 + (1. / L0) ** 2) ** (11. / 6))


def amp_grid(c, P):
    r0, delta, L0, l0 = P
    N = c["N"]
    del_f = 1.0 / (N * delta)
    q = np.array(c["q"], float)
    s = np.sqrt(psd(np.sqrt(q) * del_f, r0, L0, l0)) * del_f
    s[tuple(c["dc"])] = 0.0
    return s


def expected_hi(c, P, a, b):
    """screen for draws (a, b) from the model's exponent table"""
    N = c["N"]
    E = np.array(c["E"], float)
    z = np.exp(-2j * np.pi / N)
    s = amp_grid(c, P)
    W = z ** E                                   # W[x, k]
    coef = (a + 1j * b) * s
    return np.real(W.dot(coef).dot(W.T))


def expected_lo(c, P, draws):
    """draws: list of 3 pairs (a33, b33)"""
    r0, delta, L0, l0 = P
    N = c["N"]
    lo = np.zeros((N, N), complex)
    for p in range(3):
        shp = c["sh"][p]
        del_f = 1.0 / (3 ** (p + 1) * N * delta)
        q9 = np.array(shp["q9"], float)
        s = np.sqrt(psd(np.sqrt(q9) * del_f, r0, L0, l0)) * del_f
        s[1, 1] = 0.0
        a, b = draws[p]
        coef = (np.asarray(a) + 1j * np.asarray(b)) * s
        ex = np.array(shp["ex"], float)          # [r, c, i, j]
        lo += (np.exp(2j * np.pi * ex / shp["order"]) * coef[None, None]).sum((2, 3))
    lo = lo.real
    return lo - lo.mean()


def check_size(ps, c, rng, quick):
    bad, notes = [], []
    N = c["N"]
    ncmp = 0
    for P in (PARAMS if N <= 12 else PARAMS[:2] + PARAMS[-3:-2]):          # the big sizes (prime factor >= 13) with three parameter sets
        r0, delta, L0, l0 = P
        # ---- the code's own linear map, one unit deviate at a time, WITHOUT assuming its draw protocol (Indexed); the Def clause
        #      is about the covariance L L^T only: which deviate feeds which coefficient is the implementation's business
        Lhi, Llo = model_maps(c, P)
        Chi, Clo = Lhi.dot(Lhi.T), Llo.dot(Llo.T)
        for func, want, Lmodel, name in ((ps.ft_phase_screen, Chi, Lhi, "ft_phase_screen"),
                                         (ps.ft_sh_phase_screen, Chi + Clo, np.hstack([Lhi, Llo]), "ft_sh_phase_screen")):
            L, why = measured_map(func, N, P, rng)
            if L is None:
                if isinstance(why, tuple):
                    return [why], ncmp, notes
                notes.append("%s N=%d: %s" % (name, N, why))
                continue
            ncmp += L.shape[1]
            C = L.dot(L.T)
            tol = 1e-9 * max(np.abs(want).max(), 1e-300)
            if np.abs(C - want).max() > tol:
                D = C - want
                i, j = np.unravel_index(int(np.argmax(np.abs(D))), D.shape)
                if name == "ft_sh_phase_screen" and np.abs(C - Chi).max() <= tol:
                    what = "ensemble-covariance:sub-harmonic-part-missing"
                elif np.abs(D - D.mean()).max() <= 1e-6 * np.abs(D).max():
                    what = "dc-not-removed" if name == "ft_phase_screen" else "mean-not-removed"
                else:
                    what = "ensemble-covariance"
                return [("%s:%s" % (name, what), dict(N=N, params=P, pixels=[int(i), int(j)], got=float(C[i, j]), expected=float(want[i, j]),
                                                      deviates=int(L.shape[1])))], ncmp, notes
            if np.abs(L.sum(0)).max() > 1e-9 * max(np.abs(L).max(), 1e-300) * N * N:
                bad.append(("%s:non-zero-spatial-mean" % name, dict(N=N, params=P)))
            if L.shape != Lmodel.shape or not np.allclose(L, Lmodel, rtol=0, atol=1e-10 * max(np.abs(Lmodel).max(), 1e-300)):
                notes.append("%s N=%d: deviates feed the coefficients in another order than transcribed (covariance identical)" % (name, N))
                if name == "ft_phase_screen" and not signed_permutation(L, Lmodel):
                    notes.append("LATTICE: %s N=%d: a deviate does not feed exactly one coefficient of the full frequency lattice (Hermitian half-plane, mixed deviates ...): "
                                 "the single-column probes of large grids do not apply" % (name, N))
                if not np.allclose(L.sum(1), Lmodel.sum(1), rtol=0, atol=1e-9 * max(np.abs(Lmodel).max(), 1e-300) * np.sqrt(L.shape[1])):
                    notes.append("SUMRULE: %s N=%d: deviates enter with other signs / mixed: the equal-deviates probe of large grids does not apply" % (name, N))
    # ---- a user-supplied inverse FFT engine (the FFT= parameter): the statement's covariance holds for that path too.  (Not:
    #      "the same screen as the default path for a seed" - the two paths may use their deviates differently.)
    if 2 <= N <= 12:
        for P in PARAMS[:2]:
            Lhi, Llo = model_maps(c, P)
            for func, want, name in ((lambda *a_, **k_: ps.ft_phase_screen(*a_, FFT=np.fft.ifft2, **k_), Lhi.dot(Lhi.T), "ft_phase_screen"),
                                     (lambda *a_, **k_: ps.ft_sh_phase_screen(*a_, FFT=(lambda arr: np.fft.ifft2(arr)), **k_),
                                      Lhi.dot(Lhi.T) + Llo.dot(Llo.T), "ft_sh_phase_screen")):
                func.__name__ = name
                L, why = measured_map(func, N, P, rng)
                if L is None:
                    if isinstance(why, tuple):
                        bad.append((why[0] + ":with-FFT-argument", why[1]))
                    continue
                ncmp += L.shape[1]
                C = L.dot(L.T)
                if np.abs(C - want).max() > 1e-9 * max(np.abs(want).max(), 1e-300):
                    i, j = np.unravel_index(int(np.argmax(np.abs(C - want))), C.shape)
                    bad.append(("%s:FFT-argument-changes-the-screen" % name, dict(N=N, params=P, pixels=[int(i), int(j)], got=float(C[i, j]), expected=float(want[i, j]),
                                                                                note="ensemble covariance with a user-supplied FFT engine")))
                    break
    # ---- r0 scaling for fixed draws, interleaved calls on the same geometry
    for seed in (0, 3):
        base = np.asarray(ps.ft_phase_screen(0.2, N, 0.1, 20.0, 0.01, seed=seed))
        for fac in (2.0, 0.5, 3.0):
            other = np.asarray(ps.ft_phase_screen(0.2 * fac, N, 0.1, 20.0, 0.01, seed=seed))
            again = np.asarray(ps.ft_phase_screen(0.2, N, 0.1, 20.0, 0.01, seed=seed))
            if not np.allclose(other, base * fac ** (-5. / 6), rtol=1e-12, atol=1e-14 * np.abs(base).max()) or not np.array_equal(again, base):
                bad.append(("ft_phase_screen:r0-scaling", dict(N=N, factor=fac, seed=seed)))
                break
        # parameters handed over as numpy scalars of lower precision are the numbers they hold
        for ty in (np.float32, np.float16):
            q = [float(ty(v)) for v in (0.2, 0.1, 20.0, 0.01)]
            want = np.asarray(ps.ft_phase_screen(q[0], N, q[1], q[2], q[3], seed=seed))
            for pos in range(4):
                args = list(q)
                args[pos] = ty(args[pos])
                got = np.asarray(ps.ft_phase_screen(args[0], N, args[1], args[2], args[3], seed=seed))
                if got.shape != want.shape or not np.allclose(got, want, rtol=0, atol=1e-11 * np.abs(want).max()):
                    bad.append(("ft_phase_screen:parameter-as-%s" % np.dtype(ty).name, dict(N=N, position=pos, err=float(np.abs(got - want).max() / np.abs(want).max()))))
                    break
        bsh = np.asarray(ps.ft_sh_phase_screen(0.2, N, 0.1, 20.0, 0.01, seed=seed))
        osh = np.asarray(ps.ft_sh_phase_screen(0.4, N, 0.1, 20.0, 0.01, seed=seed))
        if not np.allclose(osh, bsh * 2.0 ** (-5. / 6), rtol=1e-11, atol=1e-13 * np.abs(bsh).max()):
            bad.append(("ft_sh_phase_screen:r0-scaling", dict(N=N, seed=seed)))
    # seed=None: every call is a NEW draw of the ensemble (three screens, pairwise different; with the same linear map the
    # probability of a coincidence is zero)
    for fn_ in (ps.ft_phase_screen, ps.ft_sh_phase_screen):
        scr = [np.asarray(fn_(0.2, N, 0.1, 20.0, 0.01), float) for _ in range(3)]
        if any(np.array_equal(scr[i], scr[j]) for i in range(3) for j in range(i + 1, 3)):
            bad.append(("%s:unseeded-calls-repeat-the-same-draws" % fn_.__name__, dict(N=N)))
    return bad, ncmp, notes


class ConstantGen(gens.HarnessGenerator):
    """every deviate it hands out is the same number: the screen is then the SUM of all columns of the linear map, whatever
    order, shapes or blocks the deviates are requested in (as long as every Fourier coefficient gets its own two deviates)"""

    def __init__(self, value):
        if gens.is_bitgen(value):
            super().__init__(value)
        else:
            super().__init__(0, value=value, handed_out=0)

    value = property(lambda self: self.sh.value)
    handed_out = property(lambda self: self.sh.handed_out)

    def normal(self, loc=0.0, scale=1.0, size=None):
        n = int(np.prod(size)) if size is not None else 1
        self.sh.handed_out += n
        return loc + scale * (np.full(size, self.sh.value) if size is not None else self.sh.value)

    def standard_normal(self, size=None, *a, **k):
        return self.normal(0.0, 1.0, size)


def check_constant_draws(ps, sizes):
    """protocol-independent and exact, for any size: all deviates equal to v gives v * (sum over all modes of s_k (cos - sin) pattern)"""
    bad = []
    n = 0
    for N in sizes:
        c = synth_case(N)
        for P in (PARAMS[0], PARAMS[2]):
            r0, delta, L0, l0 = P
            ones = np.ones((N, N))
            want1 = expected_hi(c, P, ones, ones)
            for v in (1.0, -0.5):
                got = np.asarray(ps.ft_phase_screen(r0, N, delta, L0, l0, seed=ConstantGen(v)), float)
                n += 1
                if got.shape != (N, N) or not np.allclose(got, v * want1, rtol=0, atol=1e-9 * np.abs(want1).max()):
                    bad.append(("ft_phase_screen:sum-of-all-modes(equal-deviates)", dict(N=N, params=P, value=v, shape=list(got.shape),
                                                                                        err=float(np.abs(got - v * want1).max() / np.abs(want1).max()) if got.shape == (N, N) else None)))
                    return bad, n
    return bad, n


class GatedGen(gens.HarnessGenerator):
    """a seeded generator that waits, at its k-th request for deviates, until another thread has finished a whole screen"""

    def __init__(self, seed, pause_at=None, gate=None, reached=None):
        if gens.is_bitgen(seed):
            super().__init__(seed)
        else:
            super().__init__(seed, k=0, pause_at=pause_at, gate=gate, reached=reached)

    def _tick(self):
        sh = self.sh
        sh.k += 1
        if sh.k == sh.pause_at:
            sh.reached.set()
            sh.gate.wait(60)

    def normal(self, loc=0.0, scale=1.0, size=None):
        self._tick()
        return super().normal(loc, scale, size)

    def standard_normal(self, size=None, *a, **k):
        self._tick()
        return super().standard_normal(size, *a, **k)


def check_two_threads(ps):
    """two screens of the same size generated at the same time by two threads (a deterministic schedule: thread A stops between its
    high-frequency part and its sub-harmonics while thread B generates a complete screen): each is the screen of its own deviates"""
    import threading
    bad = []
    for fn, pause in ((ps.ft_sh_phase_screen, 3), (ps.ft_sh_phase_screen, 5), (ps.ft_phase_screen, 2)):
        N = 8
        alone = [np.asarray(fn(0.2, N, 0.1, 20.0, 0.01, seed=np.random.default_rng(s_)), float) for s_ in (21, 22)]
        gate, reached = threading.Event(), threading.Event()
        out = {}
        ta = threading.Thread(target=lambda: out.__setitem__("a", np.asarray(fn(0.2, N, 0.1, 20.0, 0.01, seed=GatedGen(21, pause, gate, reached)), float)))
        ta.start()
        while ta.is_alive() and not reached.wait(0.02):      # a code that asks for its deviates in fewer requests never pauses: nothing to schedule
            pass
        out["b"] = np.asarray(fn(0.2, N, 0.1, 20.0, 0.01, seed=np.random.default_rng(22)), float)
        gate.set()
        ta.join(60)
        if "a" not in out or not np.array_equal(out["a"], alone[0]) or not np.array_equal(out["b"], alone[1]):
            bad.append(("%s:screens-generated-concurrently-influence-each-other" % fn.__name__, dict(N=N, paused_before_request=pause,
                        err_a=float(np.abs(out.get("a", alone[0] * np.nan) - alone[0]).max()), err_b=float(np.abs(out["b"] - alone[1]).max()))))
            break
    return bad


def check_subharmonic_isotropy(ps, sizes=(64, 70, 128)):
    """sizes beyond TLC's for the sub-harmonic part: the response to each of the last 54 deviates (the sub-harmonic ones while the
    transcribed draw layout 2 N^2 + 54 is observed) is measured; the covariance they add, sum_k col_k col_k^T, is invariant under
    swapping x and y (isotropic spectrum on symmetric 3 x 3 frequency grids, mean removed) - tested with tilts and random weights -
    has zero mean, and is the same whether the grid is 64, 70 or 128 pixels wide when sampled at the same physical points."""
    bad, n = [], 0
    r0, delta, L0, l0 = PARAMS[0]
    rs = np.random.default_rng(99)
    for N in sizes:
        g = Recording(5)
        ps.ft_sh_phase_screen(r0, N, delta, L0, l0, seed=g)
        total = int(sum(v.size for v in g.log))
        if total != 2 * N * N + 54:
            return bad, n, "sub-harmonic deviates are not the last 54 of 2 N^2 + 54"
        cols = []
        for k in range(total - 54, total):
            e = np.zeros(total)
            e[k] = 1.0
            try:
                cols.append(np.asarray(ps.ft_sh_phase_screen(r0, N, delta, L0, l0, seed=Indexed(e)), float))
            except ProtocolChanged as ex:
                return bad, n, str(ex)[:120]
            n += 1
        cols = np.array(cols)
        if cols.shape != (54, N, N) or not np.all(np.isfinite(cols)):
            bad.append(("ft_sh_phase_screen:sub-harmonic-response:large-grid", dict(N=N, shape=list(cols.shape))))
            return bad, n, None
        sc = max(np.abs(cols).max(), 1e-300)
        if np.abs(cols.mean((1, 2))).max() > 1e-10 * sc:
            bad.append(("ft_sh_phase_screen:mean-not-removed:large-grid", dict(N=N)))
            return bad, n, None
        yy, xx = np.indices((N, N)) - (N - 1) / 2.0
        tests = [xx, xx * xx - yy, xx * yy * yy + 0.3 * xx] + [rs.standard_normal((N, N)) for _ in range(4)]
        for t, w in enumerate(tests):
            a = float(((cols * w[None]).sum((1, 2)) ** 2).sum())
            b = float(((cols * w.T[None]).sum((1, 2)) ** 2).sum())
            if abs(a - b) > 1e-8 * max(a, b, 1e-300):
                bad.append(("ft_sh_phase_screen:sub-harmonic-power-not-isotropic:large-grid", dict(N=N, weight=t, along_rows=a, along_columns=b)))
                return bad, n, None
    return bad, n, None


def check_huge(ps, N=4096):
    """one very large screen (16 M pixels): for fixed draws the amplitude scales exactly as r0^(-5/6) and the spatial mean is zero to
    double precision"""
    bad = []
    a = np.asarray(ps.ft_phase_screen(0.2, N, 0.01, 30.0, 0.01, seed=77), float)
    b = np.asarray(ps.ft_phase_screen(0.4, N, 0.01, 30.0, 0.01, seed=77), float)
    rms = float(a.std())
    if a.shape != (N, N) or not np.allclose(b, a * 2.0 ** (-5. / 6), rtol=0, atol=1e-11 * np.abs(a).max()):
        bad.append(("ft_phase_screen:r0-scaling:very-large-grid", dict(N=N, err=float(np.abs(b - a * 2.0 ** (-5. / 6)).max() / np.abs(a).max()) if a.shape == (N, N) else None)))
    elif abs(float(a.mean())) > 1e-13 * rms:
        bad.append(("ft_phase_screen:non-zero-spatial-mean:very-large-grid", dict(N=N, mean_over_rms=float(a.mean()) / rms)))
    return bad


def synth_case(N):
    """the model's tables for the plain screen from their closed form (checked against TLC's own tables for the sizes TLC printed)"""
    k = np.arange(N)
    f = k - N // 2
    return dict(N=N, freq=f.tolist(), q=(f[:, None] ** 2 + f[None, :] ** 2).tolist(), dc=[N // 2, N // 2],
                E=((-np.outer(f, f)) % N).tolist())


def check_big_sizes(ps, printed, sizes):
    """sizes far beyond TLC's (several hundred pixels).  The full map is out of reach there, so single columns of it are measured
    (Indexed: the k-th deviate the code consumes is 1, all others 0 - no assumption about the draw protocol) and judged by what
    the Def says about ANY column when one deviate feeds one Fourier coefficient: it is a real plane wave, and its amplitude is
    the spectrum's value AT THE WAVE'S OWN FREQUENCY.  Which deviate feeds which frequency is not judged; a column that is not a
    single plane wave (deviates mixed before use) is an unrecognised protocol and only noted."""
    bad = []
    n = 0
    for c in printed:                                     # the closed form IS the model
        sc_ = synth_case(c["N"])
        if any(sc_[k_] != c[k_] for k_ in ("freq", "q", "dc", "E")):
            raise core.MachineryError("synth_case(%d) differs from FFTScreen.tla's tables" % c["N"])
    P = PARAMS[0]
    r0, delta, L0, l0 = P
    note = None
    for N in sizes:
        c = synth_case(N)
        s_ = amp_grid(c, P)                               # amplitude per centred frequency index [k1, k2]
        g = Recording(5)
        ps.ft_phase_screen(r0, N, delta, L0, l0, seed=g)
        total = int(sum(v.size for v in g.log))
        if total == 0:
            return bad, n, "no deviates drawn through Generator.normal / standard_normal"
        rows = sorted({0, 1, N // 2 - 1, 255, 256, 257, N - 65, N - 2, N - 1} & set(range(N)))
        ks = sorted({(blk * N * N + k1 * N + k2) % total for blk in (0, 1) for k1 in rows for k2 in (0, N // 3, N - 1)})
        zeros = 0
        for k in ks:
            e = np.zeros(total)
            e[k] = 1.0
            gen = Indexed(e)
            try:
                got = np.asarray(ps.ft_phase_screen(r0, N, delta, L0, l0, seed=gen), float)
            except ProtocolChanged as ex:
                return bad, n, str(ex)[:160]
            n += 1
            if got.shape != (N, N) or not np.all(np.isfinite(got)):
                bad.append(("ft_phase_screen:unit-deviate-response:large-grid", dict(N=N, deviate=int(k), shape=list(got.shape))))
                return bad, n, note
            F = np.fft.fftshift(np.fft.fft2(got)) / (N * N)           # F[k1, k2] at centred frequency indices (k - N//2)
            A = np.abs(F)
            peak = A.max()
            if peak == 0.0:
                # the zero frequency, and the imaginary parts at the (up to four) self-conjugate frequencies, legitimately give nothing
                zeros += 1
                if zeros > 5:
                    note = note or "more than five unit deviates give a zero screen"
                continue
            k1, k2 = np.unravel_index(int(np.argmax(A)), A.shape)
            m1, m2 = (N - k1) % N, (N - k2) % N                      # the conjugate frequency (for even N: index N - k, 0 stays 0)
            rest = A.copy()
            rest[k1, k2] = 0.0
            rest[m1, m2] = 0.0
            if rest.max() > 1e-9 * peak:
                note = note or "a unit deviate excites more than one frequency pair (deviates are mixed before use)"
                continue
            amp = 2.0 * peak if (k1, k2) != (m1, m2) else peak       # real plane wave: a cos(...) = a/2 at +f and a/2 at -f
            want = s_[k1, k2]
            if abs(amp - want) > 1e-9 * max(s_.max(), 1e-300):
                bad.append(("ft_phase_screen:unit-draw-pattern:large-grid", dict(N=N, deviate=int(k), frequency_index=[int(k1 - N // 2), int(k2 - N // 2)],
                                                                                amplitude=float(amp), spectrum_there=float(want))))
                return bad, n, note
    return bad, n, note


def int_seed_mode(ps, c, P, seed=5):
    """which deviates feed the sub-harmonics when the seed is an integer?  "sequential": the ones that follow the high-frequency
    screen's on one stream (independent of it);  "coupled": a second generator from the same seed, i.e. the first 54 deviates the
    high-frequency screen has already used (the library's behaviour before 2981c8d);  "unknown": neither."""
    r0, delta, L0, l0 = P
    N = c["N"]
    hi = np.asarray(ps.ft_phase_screen(r0, N, delta, L0, l0, seed=seed), float)
    lo = np.asarray(ps.ft_sh_phase_screen(r0, N, delta, L0, l0, seed=seed), float) - hi
    R = np.random.default_rng(seed)
    R.normal(size=(N, N)), R.normal(size=(N, N))
    seq = [(R.normal(size=(3, 3)), R.normal(size=(3, 3))) for _ in range(3)]
    R2 = np.random.default_rng(seed)
    cpl = [(R2.normal(size=(3, 3)), R2.normal(size=(3, 3))) for _ in range(3)]
    for name, d in (("sequential", seq), ("coupled", cpl)):
        want = expected_lo(c, P, d)
        if lo.shape == want.shape and np.allclose(lo, want, rtol=0, atol=1e-9 * max(np.abs(want).max(), np.abs(hi).max() * 1e-3)):
            return name
    return "unknown"


def coupled_ensemble(c, P):
    """When int_seed_mode is "coupled" the 54 low-frequency draws equal the first 54 high-frequency draws.
    Exact structure functions of that coupled ensemble from the model's linear maps: returns min(D_total - D_hi)/max(D_hi)."""
    N = c["N"]
    nd = 2 * N * N
    zN, z9 = np.zeros((N, N)), np.zeros((3, 3))
    Lhi = np.zeros((N * N, nd))
    for k in range(N * N):
        e = zN.copy()
        e.flat[k] = 1
        Lhi[:, k] = expected_hi(c, P, e, zN).ravel()
        Lhi[:, N * N + k] = expected_hi(c, P, zN, e).ravel()
    Llo = np.zeros((N * N, 54))
    idx = 0
    for p in range(3):
        for part in (0, 1):
            for ij in range(9):
                e = z9.copy()
                e.flat[ij] = 1
                draws = [((e, z9) if part == 0 else (z9, e)) if pp == p else (z9, z9) for pp in range(3)]
                Llo[:, idx] = expected_lo(c, P, draws).ravel()
                idx += 1
    M = Lhi.copy()
    M[:, :54] += Llo

    def D(L):
        C = L.dot(L.T)
        d = np.diag(C)
        return d[:, None] + d[None, :] - 2 * C
    Dhi = D(Lhi)
    return float((D(M) - Dhi).min() / Dhi.max())


def ensemble(c, P):
    """exact ensemble covariance of the plain screen from the model (aux report: variance constant, stationarity)"""
    N = c["N"]
    s2 = amp_grid(c, P) ** 2
    fr = np.array(c["freq"], float)
    d = np.arange(N)
    cosx = np.cos(2 * np.pi * np.outer(d, fr) / N)          # [dx, k]
    sinx = np.sin(2 * np.pi * np.outer(d, fr) / N)
    # Cov(dx1, dx2) = sum_k s2[k1,k2] cos(2 pi (f1 dx1 + f2 dx2)/N)
    return cosx.dot(s2).dot(cosx.T) - sinx.dot(s2).dot(sinx.T)


def run(run):
    core.import_aotools()
    from aotools.turbulence import phasescreen as ps
    quick = run.tier == "quick"
    cfg = "FFTScreen_quick.cfg" if quick else "FFTScreen_thorough.cfg"
    r = run.tlc("FFTScreen", cfg, require_actions=("FreqGrid", "RemoveDC", "Transform", "SubHarm"), timeout=3000)
    if r.violated:
        raise core.MachineryError("FFTScreen.tla violates its own invariant %s" % r.violated)
    run.bounds = dict(cfg=cfg, text=(core.SPEC / cfg).read_text(), params=PARAMS)
    rng = np.random.default_rng(run.seed)
    warnings.simplefilter("ignore")
    total = 0
    var0 = {}
    coupled = {}
    modes = {}
    ncov = unmeasured = 0
    sumrule_off = []
    lattice_off = []
    for c in sorted(r.printed, key=lambda d: d["N"]):
        with np.errstate(all="ignore"):
            try:
                bad, ncmp, notes = check_size(ps, c, rng, quick)
            except ProtocolChanged as ex:
                bad, ncmp, notes = [], 0, [str(ex)[:200]]
            sumrule_off += [nt for nt in notes if nt.startswith(("SUMRULE", "LATTICE"))]
            lattice_off += [nt for nt in notes if nt.startswith("LATTICE")]
            for nt in [nt for nt in notes if not nt.startswith(("SUMRULE", "LATTICE"))][:2]:
                run.drift("draw-protocol-differs-from-transcription", dict(N=c["N"], why=nt))
            if c["N"] <= (8 if quick else 12):
                for P in PARAMS:
                    b2, notes = check_covariance(ps, c, P, 1000 + run.seed % 1000)
                    bad += b2
                    ncov += 2
                    for nt in notes:
                        run.drift("ensemble-covariance-not-measurable", dict(N=c["N"], why=nt))
                        unmeasured += 1
        total += ncmp
        for key, detail in bad:
            run.violation(key, detail, dict(kind="size", N=c["N"]))
        cov = ensemble(c, PARAMS[0])
        var0[c["N"]] = float(cov[0, 0])
        if 6 <= c["N"] <= 10:
            for P in PARAMS:
                with np.errstate(all="ignore"):
                    mode = int_seed_mode(ps, c, P)
                modes[mode] = modes.get(mode, 0) + 1
                if mode == "unknown":
                    run.drift("ft_sh_phase_screen:integer-seed-draw-protocol-not-recognised", dict(N=c["N"], params=P))
                if mode != "coupled":
                    continue
                with np.errstate(all="ignore"):
                    rel = coupled_ensemble(c, P)
                coupled[str((c["N"],) + P)] = rel
                if rel < -1e-9:
                    run.violation("ft_sh_phase_screen:same-seed-coupling-lowers-structure-function", dict(N=c["N"], params=P, rel=rel),
                                  dict(kind="size", N=c["N"]))
    with np.errstate(all="ignore"):
        for key, detail in check_two_threads(ps) + check_huge(ps):
            run.violation(key, detail, dict(kind="threads-or-huge"))
    total += 4
    if sumrule_off:
        run.drift("equal-deviates-probe-not-applicable", dict(why=sumrule_off[0][:200]))
    with np.errstate(all="ignore"):
        badk, nk = ([], 0) if sumrule_off else check_constant_draws(ps, (4, 8, 26, 34, 96, 300, 320) if quick else (4, 8, 12, 26, 34, 58, 96, 300, 320, 384, 640))
    for key, detail in badk:
        run.violation(key, detail, dict(kind="constant"))
    total += nk
    with np.errstate(all="ignore"):
        bads, nsub, note_s = ([], 0, None) if (lattice_off or sumrule_off) else check_subharmonic_isotropy(ps, (64, 70) if quick else (64, 70, 128, 130))
    for key, detail in bads:
        run.violation(key, detail, dict(kind="subharmonic"))
    if note_s:
        run.drift("draw-protocol-differs-from-transcription", dict(where="sub-harmonic part of large grids", why=note_s))
    total += nsub
    with np.errstate(all="ignore"):
        badb, nbig, note = ([], 0, lattice_off[0][:200]) if lattice_off else check_big_sizes(ps, r.printed, (320,) if quick else (320, 384, 300))
    for key, detail in badb:
        run.violation(key, detail, dict(kind="big"))
    if note:
        run.drift("draw-protocol-differs-from-transcription", dict(where="large grids", why=note))
    total += nbig
    run.aux["large_grid_unit_draws"] = nbig
    run.traces += total + ncov
    if ncov and unmeasured == ncov:
        raise core.MachineryError("no ensemble covariance could be measured (deviates not drawn through the Generator?)")
    c0 = sorted(r.printed, key=lambda d: d["N"])[1 if len(r.printed) > 1 else 0]
    run.sample(dict(N=c0["N"], freq=c0["freq"], dc=c0["dc"], E=c0["E"], sh_orders=[s["order"] for s in c0["sh"]]))
    run.aux.update(unit_draw_probes=total, model_variance_per_size=var0, int_seed_coupled_min_dD_over_maxD=coupled, int_seed_draw_protocol=modes, regression_covariances=ncov, regression_unmeasurable=unmeasured,
                   trusted=["numpy exp/sqrt for the spectrum value (an atom in the model)"])
    run.assumptions += [
        "the two convergence clauses (structure function -> analytic as the grid is refined; sub-harmonics closer at large "
        "separations) are asymptotic numerics and are not decided",
        "'only adds power' is decided structurally: the returned screen is the high-frequency screen plus a mean-removed "
        "low-frequency screen on disjoint draws (independent when the seed is None or a Generator)",
    ]


def replay(run, case):
    core.import_aotools()
    from aotools.turbulence import phasescreen as ps
    warnings.simplefilter("ignore")
    if case.get("kind") == "threads-or-huge":
        with np.errstate(all="ignore"):
            for key, detail in check_two_threads(ps) + check_huge(ps):
                run.violation(key, detail, case)
        return
    if case.get("kind") == "subharmonic":
        with np.errstate(all="ignore"):
            for key, detail in check_subharmonic_isotropy(ps)[0]:
                run.violation(key, detail, case)
        return
    if case.get("kind") == "constant":
        with np.errstate(all="ignore"):
            for key, detail in check_constant_draws(ps, (4, 8, 26, 34, 96, 300, 320))[0]:
                run.violation(key, detail, case)
        return
    if case.get("kind") == "big":
        r0 = core.run_tlc("FFTScreen", "FFTScreen_quick.cfg", coverage=False, timeout=600)
        with np.errstate(all="ignore"):
            for key, detail in check_big_sizes(ps, r0.printed, (320,))[0]:
                run.violation(key, detail, case)
        return
    r = core.run_tlc("FFTScreen", "FFTScreen_thorough.cfg", coverage=False, timeout=600)
    rng = np.random.default_rng(run.seed)
    for c in r.printed:
        if c["N"] == case["N"]:
            with np.errstate(all="ignore"):
                try:
                    bad = check_size(ps, c, rng, True)[0]
                except ProtocolChanged:
                    bad = []
                if c["N"] <= 12:
                    for P in PARAMS:
                        bad += check_covariance(ps, c, P, 1000 + run.seed % 1000)[0]
                for P in PARAMS:
                    if 6 <= c["N"] <= 10 and int_seed_mode(ps, c, P) == "coupled" and coupled_ensemble(c, P) < -1e-9:
                        bad.append(("ft_sh_phase_screen:same-seed-coupling-lowers-structure-function", dict(N=c["N"], params=P)))
            for key, detail in bad:
                run.violation(key, detail, case)
