"""C01 - the slope covariance matrix equals the true covariance of the WFS slopes (spec/SlopeCov.tla).

TLC enumerates sensor geometries on an integer lattice (all 2x2 masks against representative masks, asymmetric 3x3 masks,
NGS/LGS mixes, guide-star offsets, one or two layers), derives every matrix entry from first principles as a bag of
structure-function atoms (Def), runs the transcribed projection / stencils / block placement / mirror (Impl) and checks
Impl = Def, symmetry and absence of bitwise-OR garbage.  Binding, per enumerated configuration:
 (1) probe run - the module-level structure function is replaced (harness side) by a pseudo-random function of the rounded
     squared separation and the layer, so the real matrix is a random linear form in the atoms: it must equal the same
     form evaluated on Def's integer coefficients (a randomised identity test of every coefficient of every entry);
 (2) physical run - with the real structure function every entry must equal sum coef * D_vk(sqrt(q)) from an independent
     evaluation of the von Karman law; the matrix must be symmetric bit for bit and positive semi-definite to float32."""
import json
import math
import warnings

import numpy as np
from scipy.special import gamma, kv

from harness import core

HU = 0.0625            # metres per half lattice unit: base sub-aperture diameter 8 hu = 0.5 m
D_SUB = 8 * HU
H1 = 5000.0            # altitude of the upper layer; LGS at 2*H1 so that the cone factor there is 1/2
WAVEL = [500e-9, 700e-9, 600e-9]
R0S = [0.15, 0.25]
L0S = [25.0, 40.0]


def g_rand(l, q):
    """deterministic pseudo-random value in [1, 2) per atom"""
    x = np.sin(np.asarray(l, float) * 12.9898 + np.asarray(q, float) * 78.233) * 43758.5453
    return 1.0 + (x - np.floor(x))


def make_probe(r0s):
    def probe(sep, r0, L0):
        sep = np.asarray(sep, float)
        l = 1 + int(np.argmin(np.abs(np.asarray(r0s) - r0)))
        q = np.rint((sep / HU) ** 2)
        return g_rand(l, q)
    return probe


def d_vk(r, r0, L0):
    r = np.asarray(r, float)
    x = 2 * np.pi * r / L0
    with np.errstate(all="ignore"):
        t = np.where(x > 0, 2 * np.pi ** (5. / 6) * (r / L0) ** (5. / 6) / gamma(5. / 6) * kv(5. / 6, np.where(x > 0, x, 1.0)), 1.0)
    return 0.17253 * (L0 / r0) ** (5. / 3) * (1 - t)


# further physical bindings of the same (scale-free) lattice: (metres per half lattice unit, outer scales).  The Def layer is a
# bag of atoms, so every binding must give sum coef * D_vk(sqrt(q) * hu): Kolmogorov-like regimes (L0 thousands of sub-aperture
# diameters) and outer scales comparable to one sub-aperture are where a spliced approximation of the structure function shows.
PHYS_FAMILIES = [dict(hu=0.025, l0s=[2000.0, 30.0]), dict(hu=0.0625, l0s=[1.0e5, 1.0e4]), dict(hu=0.125, l0s=[1.5, 4.0]),
                 dict(hu=0.0125, l0s=[300.0, 1.0e5])]


def build(sc, c, threads=1, r0s=None, wavel=None, hu=None, l0s=None, ngs_alt=0.0):
    HU = hu or globals()["HU"]
    L0S = l0s or globals()["L0S"]
    nw = c["nw"]
    masks = []
    for i, cells in enumerate(c["masks"]):
        m = np.zeros((c["n"][i], c["n"][i]))
        for r_, c_ in cells:
            m[r_, c_] = 1
        masks.append(m)
    dias = [d * HU for d in c["dia"]]
    tel = c["n"][0] * dias[0]
    nl = len(c["heights"])
    alts = np.array([h * H1 for h in c["heights"]], float)
    gs_alt = np.array([2 * H1 if lg else ngs_alt for lg in c["lgs"]])
    gs_pos = np.array([[o[0] * HU / H1 * 180 * 3600 / np.pi, o[1] * HU / H1 * 180 * 3600 / np.pi] for o in c["off"]])
    r0s = (r0s or R0S)[:nl] if len(c["heights"]) > 1 or c["heights"][0] == 0 else (r0s or R0S)[:nl]
    cm = sc.CovarianceMatrix(nw, masks, tel, np.array(dias), gs_alt, gs_pos, np.array((wavel or WAVEL)[:nw]),
                             nl, alts, np.array(r0s), np.array(L0S[:nl]), threads=threads)
    return cm


def layout(c):
    """row -> (wfs index, axis, subap) and the per-(wfs, layer) projected diameters"""
    rows = []
    for i, cells in enumerate(c["masks"]):
        for ax in "xy":
            for a in range(len(cells)):
                rows.append((i, ax, a))
    return rows


def expected(c, value_of_atom, r0s=None, wavel=None, hu=None):
    HU = hu or globals()["HU"]
    rows = layout(c)
    dim = c["dim"]
    wl = wavel or WAVEL
    E = np.zeros((dim, dim))
    for r in range(dim):
        for cc in range(r + 1):
            i, j = rows[r][0], rows[cc][0]
            tot = 0.0
            for (l, q, coef) in c["def"][r][cc]:
                dil = c["dia"][i] * HU * c["s2"][i][l - 1] / 2.0
                djl = c["dia"][j] * HU * c["s2"][j][l - 1] / 2.0
                tot += coef * value_of_atom(l, q) * wl[i] * wl[j] / (8 * np.pi ** 2 * dil * djl)
            E[r, cc] = E[cc, r] = tot
    return E, rows


def classify(c, rows, r, cc):
    (i, a1, _), (j, a2, _) = rows[r], rows[cc]
    geo = []
    if c["lgs"][i] != c["lgs"][j] or c["dia"][i] != c["dia"][j]:
        geo.append("unequal-projected-diameters")
    if c["off"][i] != c["off"][j]:
        geo.append("different-layer-translation")
    return "%s%s-block:%s" % (a1, a2, "same-wfs" if i == j else "wfs-pair") + (":" + "+".join(geo) if geo else "")


def physical_mismatch(sc, c, matrix_for=None):
    """None if the builder's matrix equals the Def's in physical units for the base binding and every PHYS_FAMILIES binding
    (independent von Karman values, 3e-5 of the largest entry); else (family, row, col, got, expected).
    matrix_for(hu, l0s) -> matrix lets the caller supply a history (reconfigured object) instead of a fresh build."""
    fams = [dict(hu=None, l0s=None)] + PHYS_FAMILIES
    for fam in fams:
        hu = fam["hu"] if fam["hu"] is not None else HU
        l0s = fam["l0s"] if fam["l0s"] is not None else L0S
        if matrix_for is not None:
            pf = np.asarray(matrix_for(fam["hu"], fam["l0s"]), float)
        else:
            pf = np.asarray(build(sc, c, hu=fam["hu"], l0s=fam["l0s"]).make_covariance_matrix(), float)
        ef, _ = expected(c, lambda l, q: float(d_vk(math.sqrt(q) * hu, R0S[l - 1], l0s[l - 1])), hu=fam["hu"])
        if pf.shape != ef.shape or not np.all(np.isfinite(pf)) or np.abs(pf - ef).max() > 3e-5 * np.abs(ef).max():
            if pf.shape != ef.shape:
                return (fam, 0, 0, None, None)
            r, cc = np.unravel_index(int(np.argmax(np.where(np.isfinite(pf), np.abs(pf - ef), np.inf))), pf.shape)
            return (fam, int(r), int(cc), float(pf[r, cc]), float(ef[r, cc]))
    return None


def check_config(sc, c, do_mp=False, do_scaling=False):
    bad = []
    info = {}
    orig = sc.structure_function_vk
    # ---- (1) probe run
    sc.structure_function_vk = make_probe(R0S)
    try:
        cm = build(sc, c)
        got = np.asarray(cm.make_covariance_matrix(), float)
        got_mp = np.asarray(build(sc, c, threads=2).make_covariance_matrix(), float) if do_mp else None
    finally:
        sc.structure_function_vk = orig
    exp, rows = expected(c, lambda l, q: float(g_rand(l, q)))
    dim = c["dim"]
    if got.shape != (dim, dim):
        return [("covariance:shape", dict(got=list(got.shape), expected=[dim, dim]))], info
    if not np.all(np.isfinite(got)):
        return [("covariance:non-finite-entries(bitwise-or-garbage)", dict(n_bad=int((~np.isfinite(got)).sum())))], info
    tol = 2e-5 * np.abs(exp).max()
    diff = np.abs(got - exp)
    if diff.max() > tol:
        # The probe reads the coefficients off by replacing the module-level structure function with tagged values - that the
        # builder evaluates its stencils through THAT name is the transcribed algorithm (Impl), not the property.  A mismatch is a
        # verdict only if the matrix is also wrong in physical units (independent von Karman values, five bindings of the lattice);
        # a builder that gets its structure / correlation values another way is merely not probeable.
        if physical_mismatch(sc, c) is None:
            info["drift"] = "coefficient probe not applicable (stencils not evaluated through slopecovariance.structure_function_vk); physical values right"
            got_mp = None
        else:
            r, cc = np.unravel_index(int(np.argmax(diff)), diff.shape)
            if cc > r:
                r, cc = cc, r
            bad.append(("covariance:entry-coefficients:" + classify(c, rows, r, cc),
                        dict(row=int(r), col=int(cc), got=float(got[r, cc]), expected=float(exp[r, cc]), n_wrong=int((diff > tol).sum()))))
    if not np.array_equal(got, got.T):
        bad.append(("covariance:not-symmetric", dict(max_asym=float(np.abs(got - got.T).max()))))
    if got_mp is not None and not np.array_equal(got_mp, got):
        bad.append(("covariance:multiprocess-path-differs", dict(max=float(np.abs(got_mp - got).max()))))
    if bad:
        return bad, info
    # ---- (2) physical run
    cm = build(sc, c)
    phys = np.asarray(cm.make_covariance_matrix(), float)
    expp, _ = expected(c, lambda l, q: float(d_vk(math.sqrt(q) * HU, R0S[l - 1], L0S[l - 1])))
    tolp = 3e-5 * np.abs(expp).max()
    if np.abs(phys - expp).max() > tolp:
        r, cc = np.unravel_index(int(np.argmax(np.abs(phys - expp))), phys.shape)
        bad.append(("covariance:von-karman-values", dict(row=int(r), col=int(cc), got=float(phys[r, cc]), expected=float(expp[r, cc]))))
    if not np.array_equal(phys, phys.T):
        bad.append(("covariance:not-symmetric", dict(max_asym=float(np.abs(phys - phys.T).max()))))
    w = np.linalg.eigvalsh((phys + phys.T) / 2)
    info["min_eig_rel"] = float(w.min() / w.max())
    if w.min() < -2e-5 * w.max():
        bad.append(("covariance:not-positive-semidefinite", dict(min_eig_rel=info["min_eig_rel"])))
    if do_scaling and not bad and c["nw"] >= 2:
        # deriving a reconstructor from the object does not change the matrix it holds / returns
        cm2 = build(sc, c)
        first = np.array(cm2.make_covariance_matrix(), copy=True)
        try:
            cm2.make_tomographic_reconstructor(0.01)
            held = np.asarray(cm2.covariance_matrix)
            if held.shape != first.shape or not np.array_equal(held, first) or not np.array_equal(np.asarray(cm2.make_covariance_matrix()), first):
                bad.append(("covariance:changed-by-deriving-a-reconstructor", dict(max_rel=float(np.abs(held - first).max() / np.abs(first).max())
                                                                                  if held.shape == first.shape else None)))
        except np.linalg.LinAlgError:
            pass
    if do_scaling and not bad:
        # the same lattice bound to other physical scales (see PHYS_FAMILIES)
        for fam in PHYS_FAMILIES:
            pf = np.asarray(build(sc, c, hu=fam["hu"], l0s=fam["l0s"]).make_covariance_matrix(), float)
            ef, _ = expected(c, lambda l, q: float(d_vk(math.sqrt(q) * fam["hu"], R0S[l - 1], fam["l0s"][l - 1])), hu=fam["hu"])
            if not np.all(np.isfinite(pf)) or np.abs(pf - ef).max() > 3e-5 * np.abs(ef).max():
                r, cc = np.unravel_index(int(np.argmax(np.where(np.isfinite(pf), np.abs(pf - ef), np.inf))), pf.shape)
                bad.append(("covariance:von-karman-values:physical-family", dict(family=fam, row=int(r), col=int(cc), got=float(pf[r, cc]),
                                                                                 expected=float(ef[r, cc]))))
                break
            wf = np.linalg.eigvalsh((pf + pf.T) / 2)
            if wf.min() < -2e-5 * wf.max():
                bad.append(("covariance:not-positive-semidefinite:physical-family", dict(family=fam, min_eig_rel=float(wf.min() / wf.max()))))
                break
        # a natural guide star described by its literal altitude (infinity) is the same star as the altitude-0 convention
        if not all(c["lgs"]):
            pinf = np.asarray(build(sc, c, ngs_alt=np.inf).make_covariance_matrix(), float)
            if not np.array_equal(pinf, phys):
                bad.append(("covariance:infinite-guide-star-altitude", dict(non_finite=int((~np.isfinite(pinf)).sum()),
                                                                           max_diff=float(np.nanmax(np.abs(pinf - phys))) if np.isfinite(pinf).any() else None)))
        # r0^(-5/3) and wavelength-product scaling (exact statements about the returned numbers)
        r0b = [r * 2 for r in R0S]
        p2 = np.asarray(build(sc, c, r0s=r0b).make_covariance_matrix(), float)
        if not np.allclose(p2, phys * 2 ** (-5. / 3), rtol=2e-5, atol=1e-6 * np.abs(phys).max()):
            bad.append(("covariance:r0-scaling", {}))
        wl2 = [WAVEL[0] * 3] + WAVEL[1:]
        p3 = np.asarray(build(sc, c, wavel=wl2).make_covariance_matrix(), float)
        fac = np.array([3.0 if rows[r][0] == 0 else 1.0 for r in range(dim)])
        if not np.allclose(p3, phys * np.outer(fac, fac), rtol=2e-5, atol=1e-6 * np.abs(phys).max()):
            bad.append(("covariance:wavelength-scaling", {}))
    return bad, info


def gs_positions_for(c):
    return np.array([[o[0] * HU / H1 * 180 * 3600 / np.pi, o[1] * HU / H1 * 180 * 3600 / np.pi] for o in c["off"]])


def check_reconfigured(sc, c_first, c_second):
    """one object: built for c_first, then its guide-star directions are changed to those of c_second (same sensors, masks and
    layers) and it is built again - the second matrix must be the one of c_second (probe run)"""
    orig = sc.structure_function_vk
    sc.structure_function_vk = make_probe(R0S)
    try:
        cm = build(sc, c_first)
        cm.make_covariance_matrix()
        cm.gs_positions = gs_positions_for(c_second)
        got = np.asarray(cm.make_covariance_matrix(), float)
    finally:
        sc.structure_function_vk = orig
    exp, rows = expected(c_second, lambda l, q: float(g_rand(l, q)))
    if got.shape != exp.shape or np.abs(got - exp).max() > 2e-5 * np.abs(exp).max():
        def reconfigured(hu, l0s):                     # the same history with the real structure function, in physical units
            cm2 = build(sc, c_first, hu=hu, l0s=l0s)
            cm2.make_covariance_matrix()
            cm2.gs_positions = gs_positions_for(c_second) * ((hu / HU) if hu is not None else 1.0)
            return cm2.make_covariance_matrix()
        if physical_mismatch(sc, c_second, matrix_for=reconfigured) is not None:
            return [("covariance:stale-geometry-after-reconfigure", dict(first_off=c_first["off"], second_off=c_second["off"]))]
    return []


def _sc():
    core.import_aotools()
    from aotools.turbulence import slopecovariance
    return slopecovariance


def layers_add_up(sc):
    """the matrix of a layered atmosphere is the sum of the matrices of its layers - also when layers share an altitude (a two-
    component ground layer with different outer scales), are listed top-down, or when there are five of them"""
    bad = []
    n = 4
    yy, xx = np.indices((n, n))
    ring = ((xx - 1.5) ** 2 + (yy - 1.5) ** 2 <= 4.1).astype(float)
    m3 = np.ones((3, 3))
    m3[0, 0] = 0

    def build_(alts, r0s, l0s):
        return np.asarray(sc.CovarianceMatrix(2, [ring, m3], 4.0, np.array([1.0, 4.0 / 3]), np.array([0.0, 90000.0]), np.array([[10.0, -6.0], [-8.0, 5.0]]),
                                              np.array([500e-9, 589e-9]), len(alts), np.array(alts, float), np.array(r0s, float), np.array(l0s, float)
                                              ).make_covariance_matrix(), float)
    for label, alts, r0s, l0s in (("two-layers-at-one-altitude", [0.0, 0.0, 8000.0], [0.2, 0.3, 0.25], [4.0, 40.0, 25.0]),
                                  ("equal-altitudes-high-up", [3000.0, 9000.0, 9000.0], [0.2, 0.3, 0.25], [30.0, 8.0, 60.0]),
                                  ("five-layers-top-down", [12000.0, 9000.0, 5000.0, 1000.0, 0.0], [0.5, 0.4, 0.3, 0.25, 0.15], [20.0, 25.0, 30.0, 35.0, 40.0])):
        whole = build_(alts, r0s, l0s)
        parts = sum(build_([a], [r], [l]) for a, r, l in zip(alts, r0s, l0s))
        if whole.shape != parts.shape or not np.all(np.isfinite(whole)) or np.abs(whole - parts).max() > 3e-6 * np.abs(parts).max() * len(alts):
            bad.append(("covariance:layers-do-not-add-up:" + label, dict(max_rel=float(np.abs(whole - parts).max() / np.abs(parts).max()) if whole.shape == parts.shape else None)))
    return bad


def big_array_structure_function(sc):
    """structure_function_vk on 2^20 + ... separations at once (what one block of a sensor with more than a thousand sub-apertures
    hands over) against the independent evaluation, element by element"""
    g = np.random.default_rng(8)
    sep = np.abs(g.normal(0, 6.0, size=(1100, 1000))) + 1e-4
    sep[::97, ::89] = 0.0
    got = np.asarray(sc.structure_function_vk(sep.copy(), 0.17, 23.0), float)
    want = d_vk(sep, 0.17, 23.0)
    bad = []
    if got.shape != want.shape or not np.allclose(got, want, rtol=1e-9, atol=1e-9 * np.abs(want).max()):
        bad.append(("structure_function_vk:large-array", dict(max_rel=float(np.nanmax(np.abs(got - want)) / np.abs(want).max()) if got.shape == want.shape else None)))
    small = np.asarray(sc.structure_function_vk(sep[:3, :5].copy(), 0.17, 23.0), float)
    if not np.array_equal(small, got[:3, :5]):
        bad.append(("structure_function_vk:value-depends-on-array-size", dict(max=float(np.abs(small - got[:3, :5]).max()))))
    return bad


def run(run):
    sc = _sc()
    quick = run.tier == "quick"
    cfg = "SlopeCov_quick.cfg" if quick else "SlopeCov_thorough.cfg"
    r = run.tlc("SlopeCov", cfg, require_actions=("Block", "Mirror"), timeout=3400)
    if r.violated:
        raise core.MachineryError("SlopeCov.tla: the transcribed algorithm violates %s" % r.violated)
    run.bounds = dict(cfg=cfg, text=(core.SPEC / cfg).read_text(), lattice_unit_m=HU, upper_layer_m=H1)
    warnings.simplefilter("ignore")
    n = 0
    mineig = 0.0
    last = {}
    n_reconf = 0
    with np.errstate(all="ignore"):
        for k, c in enumerate(r.printed):
            gkey = json.dumps([c["nw"], c["masks"], c["n"], c["dia"], c["lgs"], c["heights"]])
            if gkey in last and last[gkey]["off"] != c["off"] and k % 3 == 0:
                n_reconf += 1
                for key, detail in check_reconfigured(sc, last[gkey], c):
                    run.violation(key, detail, dict(kind="reconfigure", first=last[gkey], second=c))
            last[gkey] = c
            bad, info = check_config(sc, c, do_mp=(k % 40 == 0), do_scaling=(k % 25 == 0))
            n += 1
            mineig = min(mineig, info.get("min_eig_rel", 0.0))
            if info.get("drift") and not run.aux.get("probe_drift_noted"):
                run.aux["probe_drift_noted"] = True
                run.drift("coefficient-probe-not-applicable", dict(why=info["drift"]))
            if n in (5, 700):
                run.sample({kk: (v if kk != "def" else v[:3]) for kk, v in c.items()}, limit=3)
            for key, detail in bad:
                run.violation(key, detail, c)
    with np.errstate(all="ignore"):
        for key, detail in big_array_structure_function(sc):
            run.violation(key, detail, dict(kind="bigsf"))
        for key, detail in layers_add_up(sc):
            run.violation(key, detail, dict(kind="layers"))
    run.traces += n + 4
    run.aux.update(configurations=n, reconfigured_rebuilds=n_reconf, most_negative_eigenvalue_rel=mineig, trusted=["scipy.special.kv/gamma", "numpy.linalg.eigvalsh"])
    run.assumptions += [
        "positive semi-definiteness as an eigenvalue fact is an auxiliary float check; it is implied by Impl = Def (a Gram matrix)",
        "probe run: pseudo-random atom values make a wrong integer coefficient visible with overwhelming probability (tolerance 2e-5, float32 matrix)",
        "lattice scope: equal ground diameters, cone factors 1 and 1/2, offsets on the lattice, up to two layers (three sensors in thorough)",
    ]


def replay(run, case):
    sc = _sc()
    warnings.simplefilter("ignore")
    if case.get("kind") == "bigsf":
        with np.errstate(all="ignore"):
            for key, detail in big_array_structure_function(sc):
                run.violation(key, detail, case)
        return
    if case.get("kind") == "layers":
        with np.errstate(all="ignore"):
            for key, detail in layers_add_up(sc):
                run.violation(key, detail, case)
        return
    if case.get("kind") == "reconfigure":
        for key, detail in check_reconfigured(sc, case["first"], case["second"]):
            run.violation(key, detail, case)
        return
    with np.errstate(all="ignore"):
        bad, _ = check_config(sc, case, do_mp=True, do_scaling=True)
    for key, detail in bad:
        run.violation(key, detail, case)
