"""C10 - optical propagators are linear and conserve power (spec/Propagation.tla).

TLC builds every propagator as a pipeline of typed stages (exact rational chirp coefficients, scalar monomials, centred
DFTs) for every size, magnification and signed distance in scope, and decides the power ledger structurally: unit-modulus
stages, DFT stages scaled-unitary by the exact root-of-unity test, scalar and spacing monomials multiplying to one - which is
conservation for ALL inputs.  Binding: each pipeline is interpreted numerically and must reproduce the real propagator on
every unit impulse, interference inputs and a random field, for three physical parameter sets (one sampling finer than the
wavelength); the statement's own laws (linearity, sum|U|^2 d^2) are also evaluated directly on the real outputs."""
import warnings

import numpy as np

from harness import core
from harness import prop_interp as PI


def _tables():
    r = core.run_tlc("Fourier", "Fourier_quick.cfg", coverage=False, timeout=600)
    return {(c["fn"], c["N"]): c for c in r.printed}


def check_pipeline(op, c, tables, rng, keyprefix="", phys_list=None):
    bad = []
    N, prop = c["N"], c["prop"]
    ncmp = 0
    for phys in (phys_list or PI.PHYS):
        lam, d1, z0 = phys
        d_out = abs(PI.spacing(c["sp"], N, phys))
        outs = {}
        for kind, U in PI.inputs(N, rng, all_impulses=N <= 8):
            try:
                got = np.asarray(PI.real_call(op, prop, U.copy(), N, phys, c["m"], c["zm"]))
            except Exception as ex:  # noqa
                return [("%s%s:raises" % (keyprefix, prop), dict(N=N, m=c["m"], zm=c["zm"], phys=phys, error=repr(ex)[:160]))], ncmp
            want = PI.interpret(c["stages"], N, phys, U, tables)
            ncmp += 1
            scale = max(np.abs(want).max(), 1e-300)
            if got.shape != want.shape or not np.all(np.isfinite(got)):
                return [("%s%s:shape-or-nan" % (keyprefix, prop), dict(N=N, phys=phys))], ncmp
            p_in, p_out = (np.abs(U) ** 2).sum() * d1 ** 2, (np.abs(got) ** 2).sum() * d_out ** 2
            if abs(p_out - p_in) > 1e-9 * p_in:
                tag = ":magnification!=1" if c["m"] != [1, 1] else ""
                bad.append(("%s%s:power-not-conserved%s" % (keyprefix, prop, tag),
                            dict(N=N, m=c["m"], zm=c["zm"], phys=phys, input=kind, ratio=float(p_out / p_in))))
                return bad, ncmp
            if not np.allclose(got, want, rtol=0, atol=2e-9 * scale):
                bad.append(("%s%s:field-differs-from-pipeline" % (keyprefix, prop),
                            dict(N=N, m=c["m"], zm=c["zm"], phys=phys, input=kind, err=float(np.abs(got - want).max() / scale))))
                return bad, ncmp
            outs[kind] = (U, got)
        # linearity on the real outputs
        U1, g1 = outs["random"]
        U2, g2 = outs["two-impulse"]
        comb = np.asarray(PI.real_call(op, prop, (2 - 1j) * U1 + 0.5j * U2, N, phys, c["m"], c["zm"]))
        want = (2 - 1j) * g1 + 0.5j * g2
        if not np.allclose(comb, want, rtol=0, atol=1e-9 * max(np.abs(want).max(), 1e-300)):
            bad.append(("%s%s:not-linear" % (keyprefix, prop), dict(N=N, phys=phys)))
            return bad, ncmp
    return bad, ncmp


def direct_laws(op, rng, n_sets):
    """the statement's laws on parameter sets that are NOT on the model's lattice (random spacings, distances, wavelengths)"""
    bad = []
    done = 0
    for k in range(n_sets):
        N = int(rng.choice([4, 8, 16, 32, 26, 34, 38, 12, 20, 96, 160]))       # incl. even sizes with a prime factor >= 13, and sizes above 64 that are no multiple of 64
        lam = float(10 ** rng.uniform(-6.5, -2.5))
        d1 = float(lam * 10 ** rng.uniform(-0.5, 4)) if k % 3 else float(lam * rng.uniform(0.2, 0.7))      # every third: sub-wavelength
        z = float(N * d1 ** 2 / lam * 10 ** rng.uniform(-1, 1)) * (1 if rng.random() < 0.5 else -1)
        m = float(rng.choice([0.5, 0.8, 1.0, 1.25, 2.0]))
        U = rng.standard_normal((N, N)) + 1j * rng.standard_normal((N, N))
        V = rng.standard_normal((N, N)) + 0j
        p_in = (np.abs(U) ** 2).sum() * d1 ** 2
        calls = [("angularSpectrum", lambda W: op.angularSpectrum(W, lam, d1, m * d1, z), m * d1),
                 ("twoStepFresnel", lambda W: op.twoStepFresnel(W, lam, d1, m * d1, z), m * d1),
                 ("oneStepFresnel", lambda W: op.oneStepFresnel(W, lam, d1, z), abs(lam * z / (N * d1))),
                 ("lensAgainst", lambda W: op.lensAgainst(W, lam, d1, abs(z)), abs(lam * z / (N * d1)))]
        for name, f, dout in calls:
            out = np.asarray(f(U.copy()))
            done += 1
            p_out = (np.abs(out) ** 2).sum() * dout ** 2
            if not np.all(np.isfinite(out)) or abs(p_out - p_in) > 1e-8 * p_in:
                sub = ":sub-wavelength-sampling" if d1 < lam / np.sqrt(2) else ""
                bad.append(("%s:power-not-conserved%s" % (name, sub), dict(N=N, lam=lam, d1=d1, z=z, m=m, ratio=float(p_out / p_in))))
                return bad, done
            comb = np.asarray(f(U + 1j * V))
            if not np.allclose(comb, out + 1j * np.asarray(f(V.copy())), rtol=0, atol=1e-8 * np.abs(out).max()):
                bad.append(("%s:not-linear" % name, dict(N=N, lam=lam, d1=d1, z=z, m=m)))
                return bad, done
    # magnifications a hair away from 1 (a grid that is ALMOST the input grid is still another grid), and fields of very small /
    # very large overall amplitude (linear means homogeneous at every scale; nothing may be rounded away as "negligible")
    N, d1, lam, z = 8, 0.01, 1e-6, 500.0
    U = rng.standard_normal((N, N)) + 1j * rng.standard_normal((N, N))
    p_in = (np.abs(U) ** 2).sum() * d1 ** 2
    for m, d1, lam, z in [(m_, 0.01, 1e-6, 500.0) for m_ in (1 + 4e-6, 1 - 4e-6, 1 + 3e-7, 1 - 1e-4, 1 + 1e-3)] + \
            [(1.004, 2e-6, 633e-9, 2e-5), (0.997, 5e-6, 500e-9, -1e-4), (1.0005, 1e-6, 1.55e-6, 3e-6)]:          # ... and micron-scale grids
        p_in = (np.abs(U) ** 2).sum() * d1 ** 2
        for name, f in (("angularSpectrum", lambda W: op.angularSpectrum(W, lam, d1, m * d1, z)),
                        ("twoStepFresnel", lambda W: op.twoStepFresnel(W, lam, d1, m * d1, z))):
            out = np.asarray(f(U.copy()))
            done += 1
            p_out = (np.abs(out) ** 2).sum() * (m * d1) ** 2
            if not np.all(np.isfinite(out)) or abs(p_out - p_in) > 2e-8 * p_in:
                bad.append(("%s:power-not-conserved:magnification-close-to-1" % name, dict(m=m, ratio_minus_1=float(p_out / p_in - 1))))
                return bad, done
    N, d1, lam, z = 8, 0.01, 1e-6, 500.0
    p_in = (np.abs(U) ** 2).sum() * d1 ** 2
    for s_ in (1e-30, 1e-18, 3e-15, 1e-12, 1e-6, 1e3, 1e12, 1e25):
        for name, f, dout in (("angularSpectrum", lambda W: op.angularSpectrum(W, lam, d1, 1.5 * d1, z), 1.5 * d1),
                              ("twoStepFresnel", lambda W: op.twoStepFresnel(W, lam, d1, 1.5 * d1, z), 1.5 * d1),
                              ("oneStepFresnel", lambda W: op.oneStepFresnel(W, lam, d1, z), abs(lam * z / (N * d1))),
                              ("lensAgainst", lambda W: op.lensAgainst(W, lam, d1, z), abs(lam * z / (N * d1)))):
            ref = np.asarray(f(U.copy()))
            out = np.asarray(f(s_ * U))
            done += 1
            p_out = (np.abs(out) ** 2).sum() * dout ** 2
            if out.shape != ref.shape or not np.allclose(out / s_, ref, rtol=0, atol=1e-9 * np.abs(ref).max()) or abs(p_out - s_ ** 2 * p_in) > 1e-8 * s_ ** 2 * p_in:
                bad.append(("%s:not-homogeneous:amplitude-scale" % name, dict(scale=s_, err=float(np.abs(out / s_ - ref).max() / np.abs(ref).max()) if out.shape == ref.shape else None)))
                return bad, done
    # the caller's field is the caller's: unchanged by a propagation, and propagating it twice gives the same field
    N, d1, lam, z = 8, 0.01, 1e-6, 500.0
    for dt in (np.complex128, np.complex64, np.float64):
        U0 = (rng.standard_normal((N, N)) + (1j * rng.standard_normal((N, N)) if np.dtype(dt).kind == "c" else 0)).astype(dt)
        for name, f in (("angularSpectrum", lambda W: op.angularSpectrum(W, lam, d1, 1.5 * d1, z)), ("twoStepFresnel", lambda W: op.twoStepFresnel(W, lam, d1, 1.5 * d1, z)),
                        ("oneStepFresnel", lambda W: op.oneStepFresnel(W, lam, d1, z)), ("lensAgainst", lambda W: op.lensAgainst(W, lam, d1, z))):
            W = U0.copy()
            o1 = np.array(f(W), copy=True)
            o2 = np.asarray(f(W))
            done += 1
            if not np.array_equal(W, U0) or not np.array_equal(o1, o2):
                bad.append(("%s:input-field-modified" % name, dict(dtype=np.dtype(dt).name, input_changed=bool(not np.array_equal(W, U0)))))
                return bad, done
    # a grid size this process has not used yet, single precision FIRST, then double precision: the double-precision laws still hold to
    # double precision (no work array whose precision was fixed by an earlier caller)
    for N in (14, 22):
        Us = (rng.standard_normal((N, N)) + 1j * rng.standard_normal((N, N)))
        calls = [("lensAgainst", lambda W: op.lensAgainst(W, lam, d1, z), abs(lam * z / (N * d1))), ("angularSpectrum", lambda W: op.angularSpectrum(W, lam, d1, 1.5 * d1, z), 1.5 * d1),
                 ("twoStepFresnel", lambda W: op.twoStepFresnel(W, lam, d1, 1.5 * d1, z), 1.5 * d1), ("oneStepFresnel", lambda W: op.oneStepFresnel(W, lam, d1, z), abs(lam * z / (N * d1)))]
        for name, f, dout in calls:
            f(Us.astype(np.complex64))
            f(Us.real.astype(np.float32))
        p_in = (np.abs(Us) ** 2).sum() * d1 ** 2
        for name, f, dout in calls:
            out = np.asarray(f(Us.copy()))
            done += 1
            p_out = (np.abs(out) ** 2).sum() * dout ** 2
            lin = np.asarray(f((2 - 1j) * Us))
            if abs(p_out - p_in) > 1e-11 * p_in or not np.allclose(lin, (2 - 1j) * out, rtol=0, atol=1e-12 * np.abs(out).max()):
                bad.append(("%s:precision-depends-on-an-earlier-call" % name, dict(N=N, power_error=float(abs(p_out / p_in - 1)),
                                                                                  linearity_error=float(np.abs(lin - (2 - 1j) * out).max() / np.abs(out).max()))))
                return bad, done
    # one work buffer refilled IN PLACE between calls (the same array object, other contents): the result follows the contents
    N, d1, lam, z = 20, 0.01, 1e-6, 500.0
    V1 = rng.standard_normal((N, N)) + 1j * rng.standard_normal((N, N))
    V2 = rng.standard_normal((N, N)) + 1j * rng.standard_normal((N, N))
    for name, f in (("lensAgainst", lambda W: op.lensAgainst(W, lam, d1, z)), ("lensAgainst[other f]", lambda W: op.lensAgainst(W, 1.5 * lam, d1, 2 * z)),
                    ("angularSpectrum", lambda W: op.angularSpectrum(W, lam, d1, 1.5 * d1, z)), ("oneStepFresnel", lambda W: op.oneStepFresnel(W, lam, d1, z)),
                    ("twoStepFresnel", lambda W: op.twoStepFresnel(W, lam, d1, 1.5 * d1, z))):
        buf = V1.copy()
        f(buf)
        buf[...] = V2
        o2 = np.asarray(f(buf))
        buf *= 3.0
        o3 = np.asarray(f(buf))
        want2 = np.asarray(f(V2.copy()))
        done += 1
        if not np.allclose(o2, want2, rtol=0, atol=1e-12 * np.abs(want2).max()) or not np.allclose(o3, 3 * want2, rtol=0, atol=1e-11 * np.abs(want2).max()):
            bad.append(("%s:result-follows-the-array-object-not-its-contents" % name.split("[")[0], dict(err=float(np.abs(o2 - want2).max() / np.abs(want2).max()))))
            return bad, done
    # chains of steps with different magnifications (what one call returns is the next call's input, unchanged): power at every plane
    N = 18
    U0 = rng.standard_normal((N, N)) + 1j * rng.standard_normal((N, N))
    for mags in ((1.5, 1.0), (1.5, 1.0, 1.0), (0.5, 1.0, 2.0), (2.0, 1.0, 0.5, 1.0)):
        planes = {}
        for coef in (1.0, 2j):                        # the same chain for U0 and for 2i U0, every step fed with the previous step's output as it is
            W, d = coef * U0, d1
            p0 = (np.abs(W) ** 2).sum() * d ** 2
            for k_, m in enumerate(mags):
                zz = (-1) ** k_ * 300.0
                W = np.asarray(op.angularSpectrum(W, lam, d, m * d, zz))
                d = m * d
                done += 1
                pk = (np.abs(W) ** 2).sum() * d ** 2
                if abs(pk - p0) > 1e-9 * p0:
                    bad.append(("angularSpectrum:power-not-conserved:chain-of-steps", dict(magnifications=list(mags), step=k_ + 1, ratio=float(pk / p0))))
                    return bad, done
                planes.setdefault(k_, []).append(W.copy())
        for k_, (w1, w2) in planes.items():
            if not np.allclose(w2, 2j * w1, rtol=0, atol=1e-11 * np.abs(w1).max()):
                bad.append(("angularSpectrum:not-linear:chain-of-steps", dict(magnifications=list(mags), step=k_ + 1)))
                return bad, done
    # very short distances with magnification != 1 (lam |z| / d^2 from 1e-8 to 1e-3): still another grid, still the same power
    N = 8
    U = rng.standard_normal((N, N)) + 1j * rng.standard_normal((N, N))
    for lam_, d_ in ((500e-9, 0.1), (1e-6, 1e-2)):
        p_in = (np.abs(U) ** 2).sum() * d_ ** 2
        for frac in (1e-8, 1e-6, 3e-4, 1e-3):
            for m in (0.5, 2.0, 3.0):
                for sgn in (1, -1):
                    z_ = sgn * frac * d_ ** 2 / lam_
                    for name, f in (("angularSpectrum", lambda W: op.angularSpectrum(W, lam_, d_, m * d_, z_)), ("twoStepFresnel", lambda W: op.twoStepFresnel(W, lam_, d_, m * d_, z_))):
                        out = np.asarray(f(U.copy()))
                        done += 1
                        p_out = (np.abs(out) ** 2).sum() * (m * d_) ** 2
                        if not np.all(np.isfinite(out)) or abs(p_out - p_in) > 1e-8 * p_in:
                            bad.append(("%s:power-not-conserved:very-short-distance" % name, dict(lam=lam_, d1=d_, z=z_, m=m, ratio=float(p_out / p_in))))
                            return bad, done
    # the dark field: P(0) = 0 exactly (linearity at the zero vector), also as U - U and 0 * U
    N, d1, lam, z = 8, 0.01, 1e-6, 500.0
    U = rng.standard_normal((N, N)) + 1j * rng.standard_normal((N, N))
    for label, Z in (("zeros", np.zeros((N, N), complex)), ("U-U", U - U), ("0*U", 0 * U), ("real-zeros", np.zeros((N, N)))):
        for name, f in (("angularSpectrum", lambda W: op.angularSpectrum(W, lam, d1, 1.5 * d1, z)), ("angularSpectrum[m=1]", lambda W: op.angularSpectrum(W, lam, d1, d1, -z)),
                        ("twoStepFresnel", lambda W: op.twoStepFresnel(W, lam, d1, 1.5 * d1, z)), ("oneStepFresnel", lambda W: op.oneStepFresnel(W, lam, d1, z)),
                        ("lensAgainst", lambda W: op.lensAgainst(W, lam, d1, z))):
            out = np.asarray(f(Z.copy()))
            done += 1
            if out.shape != (N, N) or not np.all(out == 0):
                bad.append(("%s:not-linear:dark-field" % name.split("[")[0], dict(input=label, non_finite=int((~np.isfinite(out)).sum()))))
                return bad, done
    # real-valued and single-precision input fields
    N, d1, lam, z = 8, 0.01, 1e-6, 500.0
    Ur = rng.standard_normal((N, N))
    for name, f in (("angularSpectrum", lambda W: op.angularSpectrum(W, lam, d1, 1.5 * d1, z)), ("twoStepFresnel", lambda W: op.twoStepFresnel(W, lam, d1, 1.5 * d1, z)),
                    ("oneStepFresnel", lambda W: op.oneStepFresnel(W, lam, d1, z)), ("lensAgainst", lambda W: op.lensAgainst(W, lam, d1, z))):
        refc = np.asarray(f(Ur.astype(complex)))
        done += 1
        for nm, arr, tol_ in (("float64", Ur.copy(), 1e-12), ("int64", np.rint(Ur * 4).astype(np.int64), None), ("complex64", Ur.astype(np.complex64), 1e-5)):
            want = refc if nm != "int64" else np.asarray(f(np.rint(Ur * 4).astype(complex)))
            got = np.asarray(f(arr))
            if got.shape != want.shape or not np.allclose(got, want, rtol=0, atol=(tol_ or 1e-12) * np.abs(want).max()):
                bad.append(("%s:input-dtype-%s" % (name, nm), dict(err=float(np.abs(got - want).max()))))
                return bad, done
    # the same geometry at a sequence of nearby wavelengths / distances in one process (each call must stand on its own)
    N, d1 = 8, 0.01
    U = rng.standard_normal((N, N)) + 1j * rng.standard_normal((N, N))
    p_in = (np.abs(U) ** 2).sum() * d1 ** 2
    for lam in (600e-9, 750e-9, 900e-9, 1.25e-6, 1.45e-6, 600e-9):
        for z in (1000.0, 1000.0004, -1000.0):
            for name, f, dout in (("angularSpectrum", lambda W: op.angularSpectrum(W, lam, d1, 2 * d1, z), 2 * d1),
                                  ("twoStepFresnel", lambda W: op.twoStepFresnel(W, lam, d1, 2 * d1, z), 2 * d1),
                                  ("oneStepFresnel", lambda W: op.oneStepFresnel(W, lam, d1, z), abs(lam * z / (N * d1))),
                                  ("lensAgainst", lambda W: op.lensAgainst(W, lam, d1, abs(z)), abs(lam * z / (N * d1)))):
                out = np.asarray(f(U.copy()))
                done += 1
                p_out = (np.abs(out) ** 2).sum() * dout ** 2
                if abs(p_out - p_in) > 1e-8 * p_in:
                    bad.append(("%s:power-not-conserved:parameter-sequence" % name, dict(lam=lam, z=z, ratio=float(p_out / p_in))))
                    return bad, done
                if not np.allclose(np.asarray(f((1j) * U)), 1j * out, rtol=0, atol=1e-9 * np.abs(out).max()):
                    bad.append(("%s:not-linear:complex-coefficient" % name, dict(lam=lam, z=z)))
                    return bad, done
    return bad, done


def run(run):
    core.import_aotools()
    from aotools import opticalpropagation as op
    quick = run.tier == "quick"
    cfg = "Propagation_quick.cfg" if quick else "Propagation_thorough.cfg"
    r = run.tlc("Propagation", cfg, require_actions=("Build", "Step", "RoundTrip"), timeout=3400)
    if r.violated:
        raise core.MachineryError("Propagation.tla violates its own invariant %s" % r.violated)
    tables = _tables()
    run.bounds = dict(cfg=cfg, text=(core.SPEC / cfg).read_text(), physical_sets=PI.phys_sets(run.tier, np.random.default_rng(run.seed)))
    rng = np.random.default_rng(run.seed)
    warnings.simplefilter("ignore")
    pipes = [c for c in r.printed if c["kind"] == "pipeline"]
    phys_list = PI.phys_sets(run.tier, rng)
    total = 0
    with np.errstate(all="ignore"):
        for c in pipes:
            bad, n = check_pipeline(op, c, tables, rng, phys_list=phys_list)
            total += n
            for key, detail in bad:
                run.violation(key, detail, dict(c, kind="pipeline"))
        bad, nd = direct_laws(op, rng, 60 if quick else 600)
        for key, detail in bad:
            run.violation(key, detail, dict(kind="direct", detail=detail))
    run.traces += total + nd
    run.sample(pipes[7])
    run.aux.update(pipelines=len(pipes), field_comparisons=total, direct_law_evaluations=nd)
    run.assumptions += [
        "power conservation for all inputs is decided on the pipeline (operator level); the binding compares the real output "
        "with the interpreted pipeline on a basis plus interference and random inputs (2e-9 relative)",
        "even square grids only (the property's quantifier); magnifications 1/2, 1, 3/2, 2; distances -2..3 z0",
    ]


def replay(run, case):
    core.import_aotools()
    from aotools import opticalpropagation as op
    warnings.simplefilter("ignore")
    rng = np.random.default_rng(run.seed)
    with np.errstate(all="ignore"):
        if case.get("kind") == "pipeline":
            bad, _ = check_pipeline(op, case, _tables(), rng)
        else:
            bad, _ = direct_laws(op, rng, 600)
    for key, detail in bad:
        run.violation(key, detail, case)
