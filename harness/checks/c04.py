"""C04 - infinite-screen rows follow the conditional von Karman law (spec/InfGeom.tla + numerical binding).

TLC derives, for every configuration in scope, the coordinates of the new row and of the stencil, the integer matrix
Q of squared separations and the block structure, and checks the geometric invariants.  Binding: the real object's
coordinates / separations must be the model's; the effective A and B are MEASURED through the public behaviour
(add_row on a loaded working array with a scripted generator) and the two identities are evaluated in float64 against
an independent SciPy evaluation of the von Karman covariance on the model's Q."""
import math
import warnings

import numpy as np
from scipy.special import gamma, kv

from harness import core, gens

# consecutive entries 1-2 share geometry and L0 but not r0; entry 3 has a stencil longer than the outer scale
PARAMS = [(0.5, 0.2, 20.0), (0.5, 0.05, 20.0), (0.5, 0.2, 3.0), (0.1, 0.15, 50.0), (0.05, 0.1, 10.0), (0.005, 0.1, 200.0), (0.02, 0.15, 1000.0),
          (0.5, 5.0e4, 20.0), (0.01, 1.0e4, 10.0),
          (1, 0.3, 20.0), (2, 0.5, 30.0)]   # (pixel scale, r0, L0); the last two: very weak turbulence (pixel/r0 1e-5, 1e-6); then a pixel scale given as a Python int


class ScriptedGenerator(gens.HarnessGenerator):
    """a Generator whose normal() hands out scripted vectors when some are queued (random_seed accepts a Generator); child
    streams spawned from it share the script"""

    def __init__(self, seed):
        super().__init__(seed, script=[])

    @property
    def script(self):
        return self.sh.script

    @script.setter
    def script(self, v):
        self.sh.script = v

    def _scripted(self, size):
        """deviates from the pending scripted vector: all of it for a request of exactly its size, or the next n of it for a smaller
        request (a code that asks for its innovation in pieces - or for fewer deviates than the row has pixels - consumes it
        progressively; what it never asks for it never gets).  A request for MORE than is pending (deviates drawn ahead in
        blocks ...) is served with ordinary deviates and leaves the script untouched - the probe then reports NotScriptable."""
        sh = self.sh
        if not sh.script:
            return None
        n = 1 if size is None else int(np.prod(size))
        v = np.ravel(np.asarray(sh.script[0], float))
        off = getattr(sh, "offset", 0)
        if n > v.size - off or n == 0:
            return None
        out = v[off:off + n]
        sh.offset = off + n
        if sh.offset == v.size:
            sh.script.pop(0)
            sh.offset = 0
        return out.reshape(size) if isinstance(size, tuple) and len(size) > 1 else (out if size is not None else float(out[0]))

    def finish_item(self):
        """after the call under test: how much of the scripted vector was consumed - "all", "part" (the rest is dropped) or "none" """
        sh = self.sh
        if not sh.script:
            return "all"
        if getattr(sh, "offset", 0) > 0:
            sh.script.pop(0)
            sh.offset = 0
            sh.script.clear()
            return "part"
        sh.script.clear()
        return "none"

    def normal(self, loc=0.0, scale=1.0, size=None):
        v = self._scripted(size)
        if v is not None:
            return loc + scale * v
        return super().normal(loc, scale, size)

    def standard_normal(self, size=None, *a, **k):
        v = None if (a or k) else self._scripted(size)
        if v is not None:
            return v
        return super().standard_normal(size, *a, **k)


class NotScriptable(Exception):
    """add_row did not draw its innovation through Generator.normal during the call (e.g. deviates drawn ahead in blocks): the
    scripted probes cannot measure the recursion - a limit of this harness, never a verdict about the code"""


def cov_vk(r, r0, L0):
    """Assemat & Wilson eq. 5, evaluated independently in float64 (with the r -> 0 limit in closed form)"""
    r = np.asarray(r, float)
    x = 2 * np.pi * r / L0
    c0 = (L0 / r0) ** (5. / 3) * (2 ** (-5. / 6)) * gamma(11. / 6) / (np.pi ** (8. / 3)) * ((24. / 5) * gamma(6. / 5)) ** (5. / 6)
    with np.errstate(all="ignore"):
        core_ = np.where(x > 0, x ** (5. / 6) * kv(5. / 6, np.where(x > 0, x, 1.0)), 2 ** (-1. / 6) * gamma(5. / 6))
    return c0 * core_


def build(ips, c, params, gen):
    ps, r0, L0 = params
    if c["variant"] == "vk":
        return ips.PhaseScreenVonKarman(c["req"], ps, r0, L0, random_seed=gen, n_columns=c["ncol"])
    return ips.PhaseScreenKolmogorov(c["req"], ps, r0, L0, random_seed=gen, stencil_length_factor=c["f"])


def probe(obj, gen, S, b):
    """load the working array, script the innovation, add one row through the public method, return the full new row"""
    obj._scrn = np.array(S, dtype=float, copy=True)
    gen.script.append(b)
    out = obj.add_row()
    if gen.finish_item() == "none":
        raise NotScriptable()
    row = np.asarray(obj._scrn)[0].copy()
    return row, np.asarray(out)


def check_config(ips, c, params, rng, rebuilt_from=None):
    """returns (violations, info) ; info has residuals for the evidence file.
    rebuilt_from: the object is first built with THOSE parameters, steps a few rows, then gets r0 / L0 of `params` assigned and its
    public make_covmats / makeAMatrix / makeBMatrix are run again (the recursion must then be the one of `params`)."""
    try:
        return _check_config(ips, c, params, rng, rebuilt_from)
    except NotScriptable:
        return _check_attributes(ips, c, params, rng)


def _check_attributes(ips, c, params, rng):
    """fallback when the innovation cannot be scripted: the two identities on the matrices the object itself holds"""
    ps, r0, L0 = params
    try:
        obj = build(ips, c, params, ScriptedGenerator(int(rng.integers(0, 2 ** 31 - 1))))
        A, Bm = np.asarray(obj.A_mat, float), np.asarray(obj.B_mat, float)
    except Exception as ex:  # noqa
        return None, dict(unscriptable="add_row does not draw its innovation inside the call; no A_mat/B_mat to fall back on: " + repr(ex)[:60])
    nz = len(c["Z"])
    C = cov_vk(np.sqrt(np.array(c["Q"], float)) * ps, r0, L0)
    Czz, Cxx, Cxz = C[:nz, :nz], C[nz:, nz:], C[nz:, :nz]
    if A.shape != Cxz.shape or Bm.shape != Cxx.shape:
        return None, dict(unscriptable="A_mat/B_mat have unexpected shapes")
    cmax = np.abs(C).max()
    r1 = np.abs(A.dot(Czz) - Cxz).max() / cmax
    r2 = np.abs(A.dot(Czz).dot(A.T) + Bm.dot(Bm.T) - Cxx).max() / cmax
    innov = np.abs(Cxx - Cxz.dot(np.linalg.solve(Czz, Cxz.T))).max() / cmax
    normA = float(np.abs(A).sum(1).max())
    tolA, tolB = 5e-7 * (1 + normA), 5e-7 * (1 + normA) + 1e-3 * innov
    info = dict(res_A=float(r1), res_B=float(r2), innovation=float(innov), normA=normA, ratio_A=float(r1 / tolA), ratio_B=float(r2 / tolB),
                measured_via="A_mat/B_mat attributes (innovation not scriptable)")
    bad = []
    tag = c["variant"]
    if r1 > tolA:
        bad.append(("%s:A-identity" % tag, dict(residual_rel=float(r1), tolerance=tolA, params=params, via="attributes")))
    if r2 > tolB:
        bad.append(("%s:B-identity" % tag, dict(residual_rel=float(r2), tolerance=tolB, innovation_rel=float(innov), params=params, via="attributes")))
    return bad, info


def _check_config(ips, c, params, rng, rebuilt_from=None):
    bad, info = [], {}
    ps, r0, L0 = params
    gen = ScriptedGenerator(int(rng.integers(0, 2 ** 31 - 1)))
    try:
        obj = build(ips, c, rebuilt_from or params, gen)
        if rebuilt_from:
            for _ in range(3):
                obj.add_row()
            obj.r0, obj.L0 = r0, L0
            obj.make_covmats()
            obj.makeAMatrix()
            obj.makeBMatrix()
    except Exception as ex:  # noqa - construction refused (LinAlgError): outside the property
        return None, dict(unconstructible=repr(ex)[:80])
    nx, slen, nz = c["nx"], c["slen"], len(c["Z"])
    tag = c["variant"]
    # ---- (i) geometry is the model's
    Z = np.array(c["Z"])
    if np.asarray(obj.stencil_coords).shape != Z.shape or not np.array_equal(np.asarray(obj.stencil_coords), Z):
        return [("%s:stencil-coordinates" % tag, dict(got=np.asarray(obj.stencil_coords).tolist()[:12], expected=c["Z"][:12]))], info
    if not np.array_equal(np.asarray(obj.X_coords), np.array(c["X"], float)):
        return [("%s:new-row-coordinates" % tag, dict(got=np.asarray(obj.X_coords).tolist()))], info
    if obj.n_stencils != nz or np.asarray(obj._scrn).shape != (slen, nx):
        return [("%s:sizes" % tag, dict(n_stencils=obj.n_stencils, work=list(np.asarray(obj._scrn).shape)))], info
    Q = np.array(c["Q"], float)
    sep2 = np.rint((np.asarray(obj.seperations, float) / ps) ** 2)
    if sep2.shape != Q.shape or not np.array_equal(sep2, Q):
        return [("%s:separations" % tag, dict(note="pairwise pixel separations differ from the model's Q"))], info
    # ---- independent covariance on the model's geometry
    C = cov_vk(np.sqrt(Q) * ps, r0, L0)
    Czz, Cxx, Cxz = C[:nz, :nz], C[nz:, nz:], C[nz:, :nz]
    cmax = np.abs(C).max()
    # ---- (ii) measure the effective matrices through add_row, AFTER the object has already stepped once
    gen.script.clear()
    obj.add_row()
    zeros_b = np.zeros(nx)
    cells = [tuple(z) for z in c["Z"]]
    ref = (1, 1) if tag == "fried" else None
    M = np.zeros((nx, nz))
    for s, cell in enumerate(cells):
        S = np.zeros((slen, nx))
        S[cell] = 1.0
        M[:, s], out = probe(obj, gen, S, zeros_b)
        if out.shape != (c["req"], c["req"]):
            return [("%s:exposed-shape" % tag, dict(shape=list(out.shape)))], info
    # cells outside the stencil (and not the reference) must have no influence
    S = rng.standard_normal((slen, nx))
    for cell in cells:
        S[cell] = 0.0
    if ref:
        S[ref] = 0.0
    row, _ = probe(obj, gen, S, zeros_b)
    if np.abs(row).max() > 1e-9:
        bad.append(("%s:non-stencil-cells-influence-row" % tag, dict(max=float(np.abs(row).max()))))
    A = M.copy()
    if tag == "fried":
        if ref in cells:
            s0 = cells.index(ref)
            others = [s for s in range(nz) if s != s0]
            # response to the reference cell is A[:, s0] - A 1 + 1  =>  sum over the OTHER columns must be 1 - response
            lhs = M[:, s0] + M[:, others].sum(1)
            # cannot separate A[:, s0]; judge the reference handling through the constant-shift law below
            A = None
            del lhs
        else:
            S = np.zeros((slen, nx))
            S[ref] = 1.0
            rrow, _ = probe(obj, gen, S, zeros_b)
            want = 1.0 - M.sum(1)
            if np.abs(rrow - want).max() > 1e-9:
                bad.append(("fried:reference-pixel-handling", dict(got=rrow.tolist()[:6], expected=want.tolist()[:6])))
        # adding a constant to the whole screen adds exactly that constant to the new row
        S = rng.standard_normal((slen, nx))
        b = rng.standard_normal(nx)
        r1, _ = probe(obj, gen, S, b)
        r2, _ = probe(obj, gen, S + 3.25, b)
        if np.abs((r2 - r1) - 3.25).max() > 1e-9:
            bad.append(("fried:constant-shift", dict(max_dev=float(np.abs((r2 - r1) - 3.25).max()))))
    Bm = np.zeros((nx, nx))
    for k in range(nx):
        e = np.zeros(nx)
        e[k] = 1.0
        Bm[:, k], _ = probe(obj, gen, np.zeros((slen, nx)), e)
    # affine: a random (S, b) must be the superposition
    S = rng.standard_normal((slen, nx))
    b = rng.standard_normal(nx)
    row, _ = probe(obj, gen, S, b)
    if A is not None:
        zv = S[tuple(Z.T)]
        pred = (A.dot(zv - S[ref]) + S[ref] if tag == "fried" else A.dot(zv)) + Bm.dot(b)
        if np.abs(row - pred).max() > 1e-8 * max(1.0, np.abs(row).max()):
            bad.append(("%s:row-not-affine-in-stencil-and-noise" % tag, dict(max_dev=float(np.abs(row - pred).max()))))
    # ---- (iii) the two identities
    if A is not None:
        r1 = np.abs(A.dot(Czz) - Cxz).max() / cmax
        r2 = np.abs(A.dot(Czz).dot(A.T) + Bm.dot(Bm.T) - Cxx).max() / cmax
        innov = np.abs(Cxx - Cxz.dot(np.linalg.solve(Czz, Cxz.T))).max() / cmax
        # residuals observed on the repaired tree are <= 1.2e-8 of max|C| in the worst-conditioned configuration in scope
        normA = float(np.abs(A).sum(1).max())
        tolA = 5e-7 * (1 + normA)
        tolB = 5e-7 * (1 + normA) + 1e-3 * innov
        info.update(res_A=float(r1), res_B=float(r2), innovation=float(innov), normA=normA,
                    ratio_A=float(r1 / tolA), ratio_B=float(r2 / tolB))
        if r1 > tolA:
            bad.append(("%s:A-identity" % tag, dict(residual_rel=float(r1), tolerance=tolA, params=params)))
        if r2 > tolB:
            bad.append(("%s:B-identity" % tag, dict(residual_rel=float(r2), tolerance=tolB, innovation_rel=float(innov), params=params)))
        if hasattr(obj, "A_mat") and np.abs(np.asarray(obj.A_mat) - A).max() > 1e-8 * max(1.0, np.abs(A).max()) and tag == "vk":
            info["A_mat_attribute_differs_from_measured"] = True
    return bad, info


def vk_stability(ips, n, ncol, params, seed=5):
    """aux (C05 clause): spectral radius of the one-step operator of the von Karman recursion measured through add_row,
    and the stationarity residual of the theoretical covariance under one step."""
    ps, r0, L0 = params
    gen = ScriptedGenerator(seed)
    obj = ips.PhaseScreenVonKarman(n, ps, r0, L0, random_seed=gen, n_columns=ncol)
    nz = ncol * n
    T = np.zeros((nz, nz))
    Gm = np.zeros((nz, n))
    for s in range(nz):
        S = np.zeros((n, n))
        S[s // n, s % n] = 1.0
        obj._scrn = S.copy()
        gen.script.append(np.zeros(n))
        obj.add_row()
        if gen.finish_item() != "all":
            return None, None            # not scriptable (see NotScriptable): the caller lists it as unrunnable
        T[:, s] = np.asarray(obj._scrn)[:ncol].ravel()
    for k in range(n):
        e = np.zeros(n)
        e[k] = 1.0
        obj._scrn = np.zeros((n, n))
        gen.script.append(e)
        obj.add_row()
        gen.finish_item()
        Gm[:, k] = np.asarray(obj._scrn)[:ncol].ravel()
    rho = float(np.abs(np.linalg.eigvals(T)).max())
    rr, cc = np.divmod(np.arange(nz), n)
    d = np.sqrt((rr[:, None] - rr[None, :]) ** 2 + (cc[:, None] - cc[None, :]) ** 2) * ps
    P = cov_vk(d, r0, L0)
    res = float(np.abs(T.dot(P).dot(T.T) + Gm.dot(Gm.T) - P).max() / np.abs(P).max())
    return rho, res


def _ips():
    core.import_aotools()
    from aotools.turbulence import infinitephasescreen
    return infinitephasescreen


def run(run):
    ips = _ips()
    quick = run.tier == "quick"
    cfg = "InfGeom_quick.cfg" if quick else "InfGeom_thorough.cfg"
    r = run.tlc("InfGeom", cfg, require_actions=("SetXCoords", "SetStencil", "CalcSeparations"), timeout=3000)
    if r.violated:
        raise core.MachineryError("InfGeom.tla violates its own invariant %s" % r.violated)
    run.bounds = dict(cfg=cfg, text=(core.SPEC / cfg).read_text(), params=PARAMS)
    rng = np.random.default_rng(run.seed)
    warnings.simplefilter("ignore")
    worst = dict(res_A=0.0, res_B=0.0)
    built = 0
    for c in sorted(r.printed, key=lambda d: (d["variant"], d["req"], d["ncol"], d["f"])):
        for params in (PARAMS if (quick and c["nx"] <= 9) or not quick else PARAMS[:4] + PARAMS[5:]):
            with np.errstate(all="ignore"):
                bad, info = check_config(ips, c, params, rng)
            if bad is None:
                run.unrunnable.append(dict(variant=c["variant"], req=c["req"], ncol=c["ncol"], f=c["f"], params=params, why=info))
                continue
            built += 1
            run.traces += 1
            for k in ("res_A", "res_B", "ratio_A", "ratio_B", "normA"):
                worst[k] = max(worst.get(k, 0.0), info.get(k, 0.0))
            lite = {k: v for k, v in c.items() if k != "Q"}
            if built in (3, 40):
                run.sample(dict(lite, params=params, measured=info), limit=3)
            for key, detail in bad:
                run.violation(key, detail, dict(lite, params=list(params), Q=c["Q"]))
    if built == 0:
        raise core.MachineryError("no configuration could be constructed and probed")
    # ---- one object re-parameterised in place (same geometry and pixel scale, other r0 / L0) and rebuilt through its public methods
    n_rebuilt = 0
    for c in sorted(r.printed, key=lambda d: (d["variant"], d["req"], d["ncol"], d["f"]))[::3]:
        if c["nx"] > 9:
            continue
        for first, second in (((0.5, 0.2, 20.0), (0.5, 0.1, 35.0)), ((0.1, 0.15, 50.0), (0.1, 0.3, 12.0))):
            with np.errstate(all="ignore"):
                bad, info = check_config(ips, c, second, rng, rebuilt_from=first)
            if bad is None:
                continue
            n_rebuilt += 1
            for key, detail in bad:
                run.violation(key + ":after-parameters-changed-and-rebuilt", detail, dict({k: v for k, v in c.items() if k != "Q"}, params=list(second), Q=c["Q"],
                                                                                        rebuilt_from=list(first)))
    run.traces += n_rebuilt
    run.aux["objects_rebuilt_with_other_parameters"] = n_rebuilt
    # ---- the conditional law is about Z = the rows generated so far: after every step the stored rows are the previous ones moved
    #      down by one (nothing stale, nothing lost), for both variants and for stencils longer than the exposed screen
    n_hist = 0
    for variant, req, extra in (("vk", 4, dict(n_columns=2)), ("vk", 5, dict(n_columns=3)), ("fried", 4, dict(stencil_length_factor=1)),
                                ("fried", 5, dict(stencil_length_factor=2)), ("fried", 3, dict(stencil_length_factor=4))):
        cls = ips.PhaseScreenVonKarman if variant == "vk" else ips.PhaseScreenKolmogorov
        try:
            obj = cls(req, 0.5, 0.2, 20.0, random_seed=5, **extra)
        except Exception:  # noqa
            continue
        prev = np.array(obj._scrn, copy=True)
        for step in range(6 if (variant, req) != ("vk", 4) and (variant, req) != ("fried", 3) else 1300):      # two of them: more than a thousand steps
            obj.add_row()
            cur = np.array(obj._scrn, copy=True)
            n_hist += 1
            if cur.shape != prev.shape or not np.array_equal(cur[1:], prev[:-1]):
                stale = [int(r_) for r_ in range(1, min(len(cur), len(prev))) if not np.array_equal(cur[r_], prev[r_ - 1])]
                run.violation("%s:stored-rows-are-not-the-extruded-history" % variant, dict(req=req, step=step + 1, rows_wrong=stale, **extra),
                              dict(kind="history", variant=variant, req=req, extra=extra))
                break
            prev = cur
    run.traces += n_hist
    # ---- a screen whose separation matrix has more than a million entries (512 pixels, one stencil row): the same two identities, on
    #      the matrices the object holds, against the covariance evaluated independently at the true pixel separations
    for nbig, ncol, prm in ((512, 1, (0.05, 0.2, 50.0)),) if quick else ((512, 1, (0.05, 0.2, 50.0)), (400, 2, (0.1, 0.15, 30.0))):
        try:
            big = ips.PhaseScreenVonKarman(nbig, prm[0], prm[1], prm[2], random_seed=2, n_columns=ncol)
        except Exception as ex:  # noqa - these configurations DO construct on a correct covariance (positive definite to 1e-8 of its scale)
            run.violation("vk:construction-refused:more-than-a-million-separations", dict(nx=nbig, n_columns=ncol, params=list(prm), error=repr(ex)[:160]),
                          dict(kind="large", n=nbig, ncol=ncol, prm=list(prm)))
            continue
        Zc = np.asarray(big.stencil_coords, float)
        Xc = np.asarray(big.X_coords, float)
        pts = np.vstack([Zc, Xc]) * prm[0]
        d = np.sqrt(((pts[:, None, :] - pts[None, :, :]) ** 2).sum(-1))
        C = cov_vk(d, prm[1], prm[2])
        nz = len(Zc)
        A, Bm = np.asarray(big.A_mat, float), np.asarray(big.B_mat, float)
        Czz, Cxx, Cxz = C[:nz, :nz], C[nz:, nz:], C[nz:, :nz]
        innov = np.abs(Cxx - Cxz.dot(np.linalg.solve(Czz, Cxz.T))).max()
        rA = np.abs(A.dot(Czz) - Cxz).max()
        rB = np.abs(A.dot(Czz).dot(A.T) + Bm.dot(Bm.T) - Cxx).max()
        run.traces += 1
        run.aux.setdefault("large_screens", []).append(dict(nx=nbig, n_columns=ncol, res_A_over_innovation=float(rA / innov), res_B_over_innovation=float(rB / innov)))
        if rA > 1e-5 * innov or rB > 1e-5 * innov:
            run.violation("vk:%s-identity:more-than-a-million-separations" % ("A" if rA > 1e-5 * innov else "B"),
                          dict(nx=nbig, n_columns=ncol, res_A_over_innovation=float(rA / innov), res_B_over_innovation=float(rB / innov)), dict(kind="large", n=nbig, ncol=ncol, prm=list(prm)))
    # ---- sizes at which a count the set-up works on (nx, n_columns nx, (n_columns + 1) nx) is one more than a multiple of 64 / 128 / 256 /
    #      512 (where a loop over blocks forgets its remainder), quick: the "+1" sizes, thorough: also exact multiples and "-1"
    n_blk = 0
    for ncol in (1, 2, 3):
        for nxb in range(2, 201):
            hits = [(B_, d_) for t_ in (nxb, ncol * nxb, (ncol + 1) * nxb) for B_ in (64, 128, 256, 512) for d_ in (-1, 0, 1) if t_ >= B_ - 1 and (t_ - d_) % B_ == 0]
            if not hits or (quick and not any(d_ == 1 for _, d_ in hits)):
                continue
            prm = (0.25, 0.2, 30.0)
            try:
                ob = ips.PhaseScreenVonKarman(nxb, prm[0], prm[1], prm[2], random_seed=4, n_columns=ncol)
            except Exception as ex:  # noqa
                run.unrunnable.append(dict(block_boundary=[nxb, ncol], error=repr(ex)[:80]))
                continue
            pts = np.vstack([np.asarray(ob.stencil_coords, float), np.asarray(ob.X_coords, float)]) * prm[0]
            C = cov_vk(np.sqrt(((pts[:, None, :] - pts[None, :, :]) ** 2).sum(-1)), prm[1], prm[2])
            nz = len(ob.stencil_coords)
            A, Bm = np.asarray(ob.A_mat, float), np.asarray(ob.B_mat, float)
            Czz, Cxx, Cxz = C[:nz, :nz], C[nz:, nz:], C[nz:, :nz]
            innov = np.abs(Cxx - Cxz.dot(np.linalg.solve(Czz, Cxz.T))).max()
            rA, rB = np.abs(A.dot(Czz) - Cxz).max(), np.abs(A.dot(Czz).dot(A.T) + Bm.dot(Bm.T) - Cxx).max()
            n_blk += 1
            if rA > 1e-4 * innov or rB > 1e-4 * innov:
                run.violation("vk:%s-identity:size-at-a-block-boundary" % ("A" if rA > 1e-4 * innov else "B"),
                              dict(nx=nxb, n_columns=ncol, res_A_over_innovation=float(rA / innov), res_B_over_innovation=float(rB / innov)), dict(kind="large", n=nxb, ncol=ncol, prm=list(prm)))
                break
    run.traces += n_blk
    run.aux["block_boundary_sizes"] = n_blk
    # ---- "new row = A Z + B b with b INDEPENDENT of the phase already there": the first innovation is not made of the deviates the
    #      initial screen was built from
    from harness.checks import c06 as _c06
    for key, detail in _c06.initial_screen_and_rows_use_different_deviates(core.import_aotools()):
        run.violation("vk:innovation-not-independent-of-existing-phase:" + key.split(":", 1)[1], detail, dict(kind="reuse"))
    # ---- the set-up protocol (spec/ObjProtocol.tla): whatever order the public set-up methods and parameter assignments come in, every
    #      matrix is the one of the parameter version the model says it was computed from (so the law the rows follow is known)
    from harness import protocol
    run.aux["protocol_histories"] = protocol.check(run, ips, rng, 600 if quick else 6000)
    stab = []
    for n, ncol in ((4, 2), (6, 2), (8, 2), (5, 3)) if quick else ((4, 2), (6, 2), (8, 2), (5, 3), (12, 2), (16, 2), (9, 4)):
        rho, res = vk_stability(ips, n, ncol, PARAMS[0])
        if rho is None:
            run.unrunnable.append(dict(stability=[n, ncol], why="add_row does not draw its innovation inside the call"))
            continue
        stab.append(dict(n=n, ncol=ncol, spectral_radius=rho, stationarity_residual=res))
        if not (rho < 1 - 1e-9) or res > 1e-4:
            run.violation("vk:recursion-not-stable-at-von-karman-covariance", stab[-1], dict(kind="stability", n=n, ncol=ncol))
    run.aux.update(objects_probed=built, worst_identity_residuals=worst, vk_stability=stab,
                   trusted=["scipy.special.kv/gamma", "numpy.linalg (LAPACK)"])
    run.assumptions += [
        "the two matrix identities are evaluated in float64 (tolerance 5e-7 (1+|A|_inf) of max|C|, plus 1e-3 of "
        "the innovation variance for the second) - a numerical assertion inside the conformance layer; TLC decides the geometry they are evaluated on",
        "configurations whose construction raises (LinAlgError) are outside the property and are listed as unrunnable",
        "working array contents are loaded through the private attribute _scrn (the public API offers no way to choose them)",
    ]


def replay(run, case):
    ips = _ips()
    warnings.simplefilter("ignore")
    if case.get("kind") == "history":
        cls = ips.PhaseScreenVonKarman if case["variant"] == "vk" else ips.PhaseScreenKolmogorov
        obj = cls(case["req"], 0.5, 0.2, 20.0, random_seed=5, **case["extra"])
        prev = np.array(obj._scrn, copy=True)
        for step in range(6):
            obj.add_row()
            cur = np.array(obj._scrn, copy=True)
            if cur.shape != prev.shape or not np.array_equal(cur[1:], prev[:-1]):
                run.violation("%s:stored-rows-are-not-the-extruded-history" % case["variant"], dict(step=step + 1), case)
                break
            prev = cur
        return
    if case.get("kind") == "stability":
        rho, res = vk_stability(ips, case["n"], case["ncol"], PARAMS[0])
        if rho is not None and (not (rho < 1 - 1e-9) or res > 1e-4):
            run.violation("vk:recursion-not-stable-at-von-karman-covariance", dict(rho=rho, res=res), case)
        return
    rng = np.random.default_rng(run.seed)
    with np.errstate(all="ignore"):
        bad, info = check_config(ips, case, tuple(case["params"]), rng, rebuilt_from=tuple(case["rebuilt_from"]) if case.get("rebuilt_from") else None)
    for key, detail in bad or []:
        run.violation(key, detail, case)
