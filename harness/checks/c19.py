"""C19 - empirical estimators implement their definitions (spec/Estimators.tla)."""
import math
import warnings

import numpy as np

from harness import core

H = math.sqrt(2.0) / 2.0


def _poison(n):
    """make it likely that the next numpy.empty(n) returns non-zero memory (an uninitialised lag 0 is then visible)"""
    for _ in range(4):
        junk = [np.full(n, np.nan) for _ in range(8)]
        del junk


def check_sf(sc, c):
    bad = []
    ph = np.array(c["ph"], dtype=float)
    nb = None if c["nb4"] == c["C"] else c["nb4"] / 4.0
    exp = np.array([(s / n) if n else np.nan for s, n in c["sf"]])
    for rep in range(3):
        _poison(c["xm"])
        got = np.asarray(sc.calculate_structure_function(ph.copy(), nbOfPoint=nb, step=c["step"]), float)
        if got.shape != exp.shape:
            return [("structure_function:length", dict(got=list(got.shape), expected=list(exp.shape)))]
        if not (got[0] == 0):
            return [("structure_function:lag0", dict(got=repr(got[0])))]
        na, nb_ = np.isnan(got), np.isnan(exp)
        if (na != nb_).any() or not np.allclose(got[~na], exp[~nb_], rtol=1e-12, atol=1e-12):
            return [("structure_function:lag-value", dict(got=got.tolist(), expected=exp.tolist()))]
    # integer-typed phase (quantised data) has the same structure function
    gi = np.asarray(sc.calculate_structure_function(np.array(c["ph"], dtype=np.int64), nbOfPoint=nb, step=c["step"]), float)
    ok_ = ~np.isnan(exp)
    if gi.shape != exp.shape or not np.allclose(gi[ok_], exp[ok_], rtol=1e-12, atol=1e-12):
        return [("structure_function:integer-input", dict(got=gi.tolist(), expected=exp.tolist()))]
    g3 = np.asarray(sc.calculate_structure_function(3 * ph, nbOfPoint=nb, step=c["step"]), float)
    ok = ~np.isnan(exp)
    if not np.allclose(g3[ok], 9 * exp[ok], rtol=1e-12, atol=1e-12):
        bad.append(("structure_function:quadratic", dict(got=g3.tolist())))
    # memory layout is not part of the input: Fortran order, a transposed view of the transposed copy, a strided view
    big = np.zeros((ph.shape[0], 2 * ph.shape[1]))
    big[:, ::2] = ph
    for label, arr in (("fortran-order", np.asfortranarray(ph)), ("transposed-view", np.ascontiguousarray(ph.T).T), ("strided-view", big[:, ::2])):
        gl = np.asarray(sc.calculate_structure_function(arr, nbOfPoint=nb, step=c["step"]), float)
        if gl.shape != exp.shape or not np.allclose(gl[ok], exp[ok], rtol=1e-12, atol=1e-12):
            bad.append(("structure_function:lag-value:" + label, dict(got=gl.tolist(), expected=exp.tolist())))
            break
    # only differences enter the definition: a constant (piston) of any size added to the phase changes nothing
    for piston in (2.0 ** 17, 2.0 ** 25, 2.0 ** 27 * 3, -2.0 ** 30):
        gp = np.asarray(sc.calculate_structure_function(ph + piston, nbOfPoint=nb, step=c["step"]), float)
        if gp.shape != exp.shape or not np.allclose(gp[ok], exp[ok], rtol=1e-12, atol=1e-12):
            bad.append(("structure_function:piston-invariance", dict(piston=piston, got=gp.tolist(), expected=exp.tolist())))
            break
    if c["a"] != 99:
        law = np.array([c["a"] ** 2 * (j * c["step"]) ** 2 for j in range(c["xm"])], float)
        if not np.allclose(got[ok], law[ok], rtol=1e-12, atol=1e-12):
            bad.append(("structure_function:ramp-law", dict(got=got.tolist(), expected=law.tolist())))
    return bad


def check_tps(tp, c):
    bad = []
    x = np.array(c["x"], dtype=float)
    n, S = c["n"], c["S"]
    exp = np.array([(a + b * H) / 8.0 / S for a, b in c["tps8"]])
    per = np.array([[(a + b * H) / 8.0 for a, b in row] for row in c["pow8"]])          # (n/2, S)
    exp_err = per.std(-1) / np.sqrt(S)
    mean, err = tp.calc_slope_temporalps(x.copy())
    mean, err = np.asarray(mean, float), np.asarray(err, float)
    scale = max(1.0, np.abs(exp).max())
    if mean.shape != exp.shape or err.shape != exp.shape:
        return [("temporalps:shape", dict(got=list(mean.shape), expected=list(exp.shape)))]
    if not np.allclose(mean, exp, rtol=0, atol=1e-9 * scale):
        m3 = np.asarray(tp.calc_slope_temporalps(3 * x)[0], float)
        key = "temporalps:not-quadratic" if not np.allclose(m3, 9 * mean, rtol=1e-9, atol=1e-9) else "temporalps:value"
        return [(key, dict(got=mean.tolist(), expected=exp.tolist()))]
    if not np.allclose(err, exp_err, rtol=0, atol=1e-9 * scale):
        bad.append(("temporalps:error-bar", dict(got=err.tolist(), expected=exp_err.tolist())))
    m3 = np.asarray(tp.calc_slope_temporalps(3 * x)[0], float)
    if not np.allclose(m3, 9 * mean, rtol=1e-9, atol=1e-9):
        bad.append(("temporalps:not-quadratic", dict(base=mean.tolist(), scaled=m3.tolist())))
    if c["k0"] >= 0:
        if int(np.argmax(mean)) != c["k0"] or mean[c["k0"]] <= 0:
            bad.append(("temporalps:sinusoid-peak", dict(got=mean.tolist(), bin=c["k0"])))
    # Parseval on the real output, when DC and Nyquist vanish: the half spectrum holds half of n * sum x^2
    if S == 1:
        full = np.abs(np.fft.fft(x[:, 0])) ** 2
        if full[0] < 1e-12 and full[n // 2] < 1e-12:
            if abs(2 * mean.sum() - n * (x ** 2).sum()) > 1e-9 * scale * n:
                bad.append(("temporalps:parseval", dict(lhs=float(2 * mean.sum()), rhs=float(n * (x ** 2).sum()))))
    # leading batch axes
    mb, eb = tp.calc_slope_temporalps(np.array([x, 2 * x]))
    mb = np.asarray(mb, float)
    if mb.shape != (2,) + exp.shape or not np.allclose(mb[0], mean, rtol=0, atol=1e-9 * scale) \
            or not np.allclose(mb[1], 4 * mean, rtol=0, atol=4e-9 * scale):
        bad.append(("temporalps:batch-axis", dict(got=mb.tolist())))
    # leading axes of length one stay: (1, frames, subaps) -> (1, n/2); (2, 1, frames, subaps) -> (2, 1, n/2)
    for lead in ((1,), (2, 1), (1, 1)):
        cube1 = np.broadcast_to(x, lead + x.shape).copy()
        m1, e1 = tp.calc_slope_temporalps(cube1)
        m1, e1 = np.asarray(m1, float), np.asarray(e1, float)
        if m1.shape != lead + mean.shape or e1.shape != m1.shape or not np.allclose(m1, np.broadcast_to(mean, lead + mean.shape), rtol=0, atol=1e-9 * scale):
            bad.append(("temporalps:batch-axis:leading-axis-of-length-one", dict(lead=list(lead), shape=list(m1.shape), expected_shape=list(lead + mean.shape))))
            break
    # two leading axes (sensor, slope direction), equal and unequal extents: entry [a, b] is the spectrum of slope_data[a, b]
    for A, B in ((2, 3), (2, 2)):
        fac = 1.0 + np.arange(A * B).reshape(A, B)
        cube = fac[:, :, None, None] * x[None, None]
        mc = np.asarray(tp.calc_slope_temporalps(cube)[0], float)
        want = (fac ** 2)[:, :, None] * mean[None, None]
        if mc.shape != want.shape or not np.allclose(mc, want, rtol=0, atol=1e-9 * scale * fac.max() ** 2):
            bad.append(("temporalps:batch-axis:two-leading-axes", dict(shape=list(mc.shape), expected_shape=list(want.shape))))
            break
    return bad


def check_sf_dtype_order(sc):
    """shapes this process has not used, single precision FIRST, then the exact ramp law in double precision"""
    bad = []
    for shape in ((5, 13), (6, 17), (9, 9)):
        ramp = np.arange(shape[0], dtype=float)[:, None] * 0.7 + 0.0 * np.arange(shape[1])[None, :]
        sc.calculate_structure_function(np.random.default_rng(1).standard_normal(shape).astype(np.float32))
        sc.calculate_structure_function(ramp.astype(np.float32))
        got = np.asarray(sc.calculate_structure_function(ramp.copy()), float)
        law = np.array([(0.7 * j) ** 2 for j in range(len(got))])
        okv = ~np.isnan(got)
        if not np.allclose(got[okv], law[okv], rtol=1e-12, atol=1e-12):
            bad.append(("structure_function:ramp-law:precision-depends-on-an-earlier-call", dict(shape=list(shape), err=float(np.nanmax(np.abs(got - law) / np.maximum(law, 1e-300))))))
            break
    return bad


def check_sf_wide(sc):
    """screens wider than 1024 columns (widths that are not multiples of 1024, 256, 64), a ramp whose slope differs per column: the
    definition is the mean over ALL columns"""
    bad = []
    for rows, cols in ((5, 1100), (4, 1500), (6, 300), (3, 2500)):
        a = 0.5 + (np.arange(cols) % 7) + 3.0 * (np.arange(cols) >= (cols // 1024) * 1024 if cols > 1024 else np.arange(cols) >= (cols // 256) * 256)
        ph = np.arange(rows, dtype=float)[:, None] * a[None, :]
        got = np.asarray(sc.calculate_structure_function(ph.copy()), float)
        nl = len(got)
        law = np.array([np.mean(a ** 2) * j ** 2 if j < rows else np.nan for j in range(nl)])
        okv = ~np.isnan(law) & ~np.isnan(got)
        if not np.allclose(got[okv], law[okv], rtol=1e-12, atol=1e-12) or (np.isnan(got) != np.isnan(law))[:rows].any():
            bad.append(("structure_function:lag-value:wide-screen", dict(shape=[rows, cols], got=got[:rows].tolist(), expected=law[:rows].tolist())))
            break
    return bad


def check_sf_steps(sc):
    """explicit lag steps far beyond the model's (1 .. 130, on a screen a few steps tall): the ramp law a^2 (j step)^2 in every slot"""
    bad = []
    rows, cols = 700, 700            # (the code bounds the number of lags by the number of COLUMNS over the step)
    ph = np.arange(rows, dtype=float)[:, None] * 0.5 + np.zeros((1, cols))
    for step in list(range(1, 131)):
        nb = min(5, (rows - 1) // step)
        if nb < 2:
            continue
        got = np.asarray(sc.calculate_structure_function(ph.copy(), nbOfPoint=nb * step, step=step), float)
        law = np.array([(0.5 * j * step) ** 2 for j in range(len(got))])
        okv = ~np.isnan(got)
        if len(got) < 2 or not (got[0] == 0) or not np.allclose(got[okv], law[okv], rtol=1e-12, atol=1e-12) or np.isnan(got[:nb]).any():
            bad.append(("structure_function:ramp-law:large-step", dict(step=step, got=got[:6].tolist(), expected=law[:6].tolist())))
            break
    return bad


def check_general_n(tp, rng):
    """frame counts outside the model's exact ones (2, 4, 8): the definition evaluated as a literal DFT in float64 (auxiliary)"""
    bad = []
    n_cases = 0
    for n in (3, 5, 6, 7, 9, 12, 13, 17, 26, 39, 97, 104):
        S = 3
        x = rng.standard_normal((n, S))
        k = np.arange(n // 2)[:, None]
        t = np.arange(n)[None, :]
        W = np.exp(-2j * np.pi * k * t / n)                       # literal DFT, first n/2 bins
        want = (np.abs(W.dot(x)) ** 2).mean(-1)
        got = np.asarray(tp.calc_slope_temporalps(x.copy())[0], float)
        n_cases += 1
        if got.shape != want.shape or not np.allclose(got, want, rtol=1e-9, atol=1e-9):
            bad.append(("temporalps:value:n_frames=%d" % n, dict(n=n, got=np.ravel(got).tolist()[:6], expected=want.tolist()[:6], got_shape=list(np.shape(got)))))
            break
        # a sinusoid exactly on bin k0 peaks there and is labelled with its own frequency
        if n >= 6:
            k0 = max(1, n // 3 if n // 3 < n // 2 else 1)
            sig = np.cos(2 * np.pi * k0 * np.arange(n) / n)[:, None] * np.ones((1, 2))
            sp = np.asarray(tp.calc_slope_temporalps(sig)[0], float)
            ax = np.asarray(tp.get_tps_time_axis(50.0, n), float)
            if int(np.argmax(sp)) != k0 or abs(ax[k0] - k0 * 50.0 / n) > 1e-9:
                bad.append(("temporalps:sinusoid-peak:n_frames=%d" % n, dict(n=n, peak=int(np.argmax(sp)), expected=k0)))
                break
    # many sub-apertures with very different power (the mean over sub-apertures is the plain mean, whatever their number)
    for S in (257, 300, 648, 1000):
        n = 16
        x = rng.standard_normal((n, S)) * (1.0 + 9.0 * (np.arange(S) >= 256))[None, :]
        k = np.arange(n // 2)[:, None]
        W = np.exp(-2j * np.pi * k * np.arange(n)[None, :] / n)
        P = np.abs(W.dot(x)) ** 2
        want, want_err = P.mean(-1), P.std(-1) / np.sqrt(S)
        got, err = (np.asarray(v, float) for v in tp.calc_slope_temporalps(x.copy()))
        n_cases += 1
        if got.shape != want.shape or not np.allclose(got, want, rtol=1e-9, atol=0) or not np.allclose(err, want_err, rtol=1e-9, atol=0):
            bad.append(("temporalps:value:many-sub-apertures", dict(n_subaps=S, rel=float(np.abs(got / want - 1).max()) if got.shape == want.shape else None)))
            break
    return bad, n_cases


def check_axis(tp):
    bad = []
    n_cases = 0
    for n in list(range(1, 301)) + [1000, 4096]:
        for rate in (1.0, 100, 7.5, 0.25, 50, 250, 500, 1e6, 1e-3, 333.3):
            got = np.asarray(tp.get_tps_time_axis(rate, n), float)
            exp = np.arange(int(n / 2)) * rate / n
            n_cases += 1
            if got.shape != exp.shape or not np.allclose(got, exp, rtol=1e-12, atol=0):
                bad.append(("tps_time_axis:k*rate/n", dict(n=n, rate=rate, got=got.tolist()[:8])))
                return bad, n_cases
            # the caller owns what it was given: editing it (zero frequency replaced for a log plot, rad/s) and asking again
            res = tp.get_tps_time_axis(rate, n)
            if isinstance(res, np.ndarray) and res.flags.writeable and res.size:
                res[0] = 1e-3
                res *= 2 * np.pi
                again = np.asarray(tp.get_tps_time_axis(rate, n), float)
                if again.shape != exp.shape or not np.allclose(again, exp, rtol=1e-12, atol=0):
                    bad.append(("tps_time_axis:k*rate/n:after-caller-edited-an-earlier-result", dict(n=n, rate=rate, got=again.tolist()[:8])))
                    return bad, n_cases
    return bad, n_cases


def _mods():
    core.import_aotools()
    from aotools.turbulence import slopecovariance, temporal_ps
    return slopecovariance, temporal_ps


def run(run):
    sc, tp = _mods()
    cfg = "Estimators_quick.cfg" if run.tier == "quick" else "Estimators_thorough.cfg"
    r = run.tlc("Estimators", cfg, require_actions=("SFAlloc", "SFLoop", "TPSFft", "TPSHalf", "TPSAbs2", "TPSMean"),
                timeout=3000)
    if r.violated:
        raise core.MachineryError("Estimators.tla violates its own invariant %s" % r.violated)
    run.bounds = dict(cfg=cfg, text=(core.SPEC / cfg).read_text())
    kinds = {}
    with warnings.catch_warnings():
        warnings.simplefilter("ignore")
        with np.errstate(all="ignore"):
            for c in r.printed:
                bad = check_sf(sc, c) if c["kind"] == "sf" else check_tps(tp, c)
                kinds[c["kind"]] = kinds.get(c["kind"], 0) + 1
                run.traces += 1
                if kinds[c["kind"]] in (50, 5000):
                    run.sample(c, limit=4)
                for key, detail in bad:
                    run.violation(key, detail, c)
            for key, detail in check_sf_dtype_order(sc):
                run.violation(key, detail, dict(kind="dtype-order"))
            for key, detail in check_sf_wide(sc):
                run.violation(key, detail, dict(kind="wide"))
            for key, detail in check_sf_steps(sc):
                run.violation(key, detail, dict(kind="steps"))
            badg, n_gen = check_general_n(tp, np.random.default_rng(run.seed))
            for key, detail in badg:
                run.violation(key, detail, dict(kind="general-n"))
            run.aux["literal_dft_frame_counts"] = n_gen
            bad, n_axis = check_axis(tp)
            for key, detail in bad:
                run.violation(key, detail, dict(kind="axis"))
    run.aux["cases_by_kind"] = kinds
    run.aux["freq_axis_cases"] = n_axis
    run.assumptions += [
        "the clause 'applied to generated screens it follows the analytic structure function' is statistical and not decided",
        "the number of lags for non-square input (the code bounds it by shape[1]) is not part of the statement and not judged",
    ]


def replay(run, case):
    sc, tp = _mods()
    with warnings.catch_warnings():
        warnings.simplefilter("ignore")
        with np.errstate(all="ignore"):
            if case["kind"] == "sf":
                bad = check_sf(sc, case)
            elif case["kind"] == "tps":
                bad = check_tps(tp, case)
            elif case["kind"] == "steps":
                bad = check_sf_steps(sc)
            elif case["kind"] == "wide":
                bad = check_sf_wide(sc)
            elif case["kind"] == "dtype-order":
                bad = check_sf_dtype_order(sc)
            elif case["kind"] == "general-n":
                bad, _ = check_general_n(tp, np.random.default_rng(run.seed))
            else:
                bad, _ = check_axis(tp)
    for key, detail in bad:
        run.violation(key, detail, case)
