"""C12 - Zernike indexing, modes, normalisations and gradient matrices (spec/Zernike.tla).

TLC walks the Noll index state machine against the arithmetic of zernIndex, derives the integer radial
coefficients and Cartesian mode polynomials, and proves (exactly, on polynomials) that the transcribed gamma
rules are the x/y gradients.  Replay: index table, radial function at dyadic radii, every mode at every pixel of
every grid size against sqrt(c_j) P_j(x, y), gamma matrices against the model's sign / gamma^2."""
import math
import warnings
from fractions import Fraction

import numpy as np

from harness import core


def _poly_eval(poly, x, y):
    return sum(c * x ** a * y ** b for a, b, c in poly)


def _other_circle_users(N):
    """what else draws circles on an N x N grid (corner origin, off-centre): must leave no trace in the Zernike modes"""
    from aotools.functions import pupil
    from aotools.image_processing import psf
    pupil.circle(N / 3.0, N, (0.5, 1.0), origin="corner")
    pupil.circle(1.0, N, (N / 2.0 + 0.25, 1.5), origin="corner")
    if N >= 4:
        img = np.outer(np.hanning(N + 2)[1:-1], np.hanning(N + 2)[1:-1]) + 0.01
        if N % 2 == 0:                             # (encircled_energy works on even frames only)
            psf.encircled_energy(img, fraction=0.5, center=[N / 2.0 - 0.5, N / 2.0])
        psf.azimuthal_average(img)


def check_modes(z, modes, sizes):
    bad = []
    n_cmp = 0
    for N in sizes:
        _other_circle_users(N)
        coords = [Fraction(2 * i + 1 - N, N) for i in range(N)]
        inside = np.array([[cx * cx + cy * cy <= 1 for cx in coords] for cy in coords])
        for md in modes:
            j, (n, m) = md["j"], md["nm"]
            cj = (n + 1) if m == 0 else 2 * (n + 1)
            exp = np.array([[math.sqrt(cj) * float(_poly_eval(md["poly"], cx, cy)) for cx in coords] for cy in coords])
            exp = np.where(inside, exp, 0.0)
            scale = max(1.0, np.abs(exp).max())
            got = np.asarray(z.zernike_noll(j, N), float)
            got2 = np.asarray(z.zernike_nm(n, m, N), float)
            n_cmp += 1
            if got.shape != (N, N) or not np.allclose(got, exp, rtol=0, atol=1e-9 * scale):
                key = "zernike_noll:outside-pupil" if got.shape == (N, N) and np.any(got[~inside] != 0) else "zernike_noll:mode-values"
                bad.append((key, dict(j=j, N=N, err=float(np.abs(got - exp).max()) if got.shape == (N, N) else None)))
                return bad, n_cmp
            if not np.allclose(got2, exp, rtol=0, atol=1e-9 * scale):
                bad.append(("zernike_nm:mode-values", dict(n=n, m=m, N=N)))
                return bad, n_cmp
            # rotation: cos(m t + rot) = cos rot cos mt - sin rot sin mt ; sin(m t + rot) = cos rot sin mt + sin rot cos mt
            if N in (5, 8) and j <= 15:
                for rot in (0.3, math.pi / 2):
                    gr = np.asarray(z.zernike_nm(n, m, N, rot), float)
                    if m == 0:
                        want = exp
                    else:
                        other = np.asarray(z.zernike_nm(n, -m, N), float)
                        want = math.cos(rot) * exp + (-math.sin(rot) if m > 0 else math.sin(rot)) * other
                    if not np.allclose(gr, want, rtol=0, atol=1e-9 * scale):
                        bad.append(("zernike_nm:rotation", dict(n=n, m=m, N=N, rot=rot)))
                        return bad, n_cmp
    return bad, n_cmp


def check_arrays(z, aot, nmodes, sizes):
    bad = []
    from aotools.functions import pupil
    for N in sizes:
        _other_circle_users(N)
        full = np.asarray(z.zernikeArray(nmodes, N))
        if full.shape != (nmodes, N, N):
            return [("zernikeArray:shape", dict(N=N, shape=list(full.shape)))]
        for j in range(1, nmodes + 1):
            if not np.array_equal(full[j - 1], z.zernike_noll(j, N)):
                return [("zernikeArray:count-order", dict(N=N, j=j))]
        lst = [nmodes, 1, 4, 7, 2, 11][:max(2, min(6, nmodes))]
        lst = [j for j in lst if j <= nmodes]
        sub = np.asarray(z.zernikeArray(lst, N))
        for i, j in enumerate(lst):
            if not np.array_equal(sub[i], full[j - 1]):
                return [("zernikeArray:list-vs-count", dict(N=N, j=j, position=i))]
        for j in range(1, min(nmodes, 12) + 1):           # an index list may have a single element (list, tuple, array)
            for one in ([j], (j,), np.array([j])):
                g1 = np.asarray(z.zernikeArray(one, N))
                if g1.shape != (1, N, N) or not np.array_equal(g1[0], full[j - 1]):
                    return [("zernikeArray:list-vs-count:single-element-list", dict(N=N, j=j, shape=list(g1.shape)))]
        for norm in ("p2v", "rms"):
            arr = np.asarray(z.zernikeArray(nmodes, N, norm=norm))
            sub = np.asarray(z.zernikeArray(lst, N, norm=norm))
            for i, j in enumerate(lst):
                if not np.allclose(sub[i], arr[j - 1], rtol=0, atol=1e-12, equal_nan=True):
                    return [("zernikeArray:list-vs-count:" + norm, dict(N=N, j=j))]
            area = pupil.circle(N / 2., N).sum()
            for j in range(1, nmodes + 1):
                a = arr[j - 1]
                if not np.all(np.isfinite(a)):
                    continue     # a mode that vanishes on this coarse grid cannot be normalised; not judged
                if norm == "p2v" and abs((a.max() - a.min()) - 1) > 1e-9:
                    return [("zernikeArray:p2v", dict(N=N, j=j, p2v=float(a.max() - a.min())))]
                if norm == "rms" and abs(math.sqrt((a ** 2).sum() / area) - 1) > 1e-9:
                    return [("zernikeArray:rms", dict(N=N, j=j))]
        rng = np.random.default_rng(N)
        coef = rng.integers(-3, 4, size=min(nmodes, 10)).astype(float)
        ph = np.asarray(z.phaseFromZernikes(list(coef), N))
        want = sum(c * full[k] for k, c in enumerate(coef))
        if ph.shape != (N, N) or not np.allclose(ph, want, rtol=0, atol=1e-10):
            return [("phaseFromZernikes:linear-combination", dict(N=N))]
        # call order must not matter: a normalised array asked for FIRST must not change what a later Noll request returns
        for first, cnt in (("p2v", max(2, nmodes - 1)), ("rms", max(2, nmodes - 2))):
            z.zernikeArray(cnt, N, norm=first)
            again = np.asarray(z.zernikeArray(cnt, N))
            if not np.array_equal(again, full[:cnt]):
                return [("zernikeArray:depends-on-earlier-calls", dict(N=N, count=cnt, first=first))]
            z.zernikeArray([3, 2], N, norm=first)
            if not np.array_equal(np.asarray(z.zernikeArray([3, 2], N)), full[[2, 1]]):
                return [("zernikeArray:depends-on-earlier-calls", dict(N=N, list=[3, 2], first=first))]
        # normalisation and rotation arguments must reach the modes (a phase is that linear combination for every norm / rot)
        for norm in ("noll", "p2v", "rms"):
            for rot in (0.0, 0.4):
                Zs = np.asarray(z.zernikeArray(len(coef), N, norm=norm, rot=rot))
                if norm == "noll":
                    for j in range(1, len(coef) + 1):
                        if not np.array_equal(Zs[j - 1], z.zernike_noll(j, N, rot)):
                            return [("zernikeArray:rotation-argument", dict(N=N, j=j, rot=rot))]
                if not np.all(np.isfinite(Zs)):
                    continue
                ph = np.asarray(z.phaseFromZernikes(list(coef), N, norm=norm, rot=rot))
                want = sum(c * Zs[k] for k, c in enumerate(coef))
                if ph.shape != (N, N) or not np.allclose(ph, want, rtol=0, atol=1e-10):
                    return [("phaseFromZernikes:linear-combination:norm=%s,rot=%s" % (norm, "0" if rot == 0 else "nonzero"), dict(N=N))]
        for k in range(min(nmodes, 6)):
            unit = [0.0] * (k + 1)
            unit[k] = 1.0
            if not np.allclose(z.phaseFromZernikes(unit, N), full[k], rtol=0, atol=1e-12):
                return [("phaseFromZernikes:unit-vector", dict(N=N, j=k + 1))]
        if hasattr(aot, "zernikeArray") and not np.array_equal(np.asarray(aot.zernikeArray(3, N)), full[:3]):
            return [("zernikeArray:package-export", dict(N=N))]
    return bad


def radial_exact(n, m):
    """coefficients of R_n^|m| from the definition, exact integers: [(power, coefficient)]"""
    m = abs(m)
    out = []
    for k in range((n - m) // 2 + 1):
        c = Fraction((-1) ** k * math.factorial(n - k), math.factorial(k) * math.factorial((n + m) // 2 - k) * math.factorial((n - m) // 2 - k))
        out.append((n - 2 * k, c))
    return out


def check_high_orders(z):
    """radial orders beyond TLC's 32-bit integers (n = 21 .. 40: 21! no longer fits 64 bits either): the radial function and the
    modes against the definition evaluated in exact rational arithmetic; tolerance proportional to the cancellation the float
    evaluation has to go through (sum |coef| r^k)"""
    bad = []
    n_cmp = 0
    radii = [Fraction(0), Fraction(1, 4), Fraction(1, 2), Fraction(3, 4), Fraction(7, 8), Fraction(1)]
    rr = np.array([float(r) for r in radii])
    for n in (12, 20, 21, 22, 25, 30, 40):
        for m in sorted({n % 2, n % 2 + 2, n - 4, n}):
            if m < 0 or m > n or (n - m) % 2:
                continue
            co = radial_exact(n, m)
            exp = np.array([float(sum(c * r ** p for p, c in co)) for r in radii])
            mag = np.array([float(sum(abs(c) * r ** p for p, c in co)) for r in radii])
            got = np.asarray(z.zernikeRadialFunc(n, m, rr), float)
            n_cmp += 1
            if got.shape != rr.shape or np.any(np.abs(got - exp) > 1e-13 * (n + 1) * mag + 1e-12):
                bad.append(("zernikeRadialFunc:high-radial-order", dict(n=n, m=m, got=got.tolist(), expected=exp.tolist())))
                return bad, n_cmp
    N = 12
    coords = [Fraction(2 * i + 1 - N, N) for i in range(N)]
    for j in (79, 231, 232, 240, 254, 300, 497):
        n, m = [int(v) for v in z.zernIndex(j)]
        co = radial_exact(n, m)
        cj = (n + 1) if m == 0 else 2 * (n + 1)
        exp = np.zeros((N, N))
        mag = np.zeros((N, N))
        for a, cy in enumerate(coords):
            for b, cx in enumerate(coords):
                r2 = cx * cx + cy * cy
                if r2 > 1:
                    continue
                r = math.sqrt(float(r2))
                th = math.atan2(float(cy), float(cx))
                ang = 1.0 if m == 0 else (math.cos(abs(m) * th) if j % 2 == 0 else math.sin(abs(m) * th))     # Noll: even j cosine
                exp[a, b] = math.sqrt(cj) * ang * sum(float(c) * r ** p for p, c in co)
                mag[a, b] = math.sqrt(cj) * sum(abs(float(c)) * r ** p for p, c in co)
        got = np.asarray(z.zernike_noll(j, N), float)
        n_cmp += 1
        if got.shape != (N, N) or np.any(np.abs(got - exp) > 1e-11 * (n + 1) * mag + 1e-9):
            bad.append(("zernike_noll:high-radial-order", dict(j=j, n=n, m=m, err=float(np.abs(got - exp).max()) if got.shape == (N, N) else None,
                                                               bound=float(math.sqrt(2 * (n + 1))), max_abs=float(np.abs(got).max()))))
            return bad, n_cmp
    return bad, n_cmp


def check_size_sweep(z):
    """every grid size from 2 to 260 (the medium sizes no table covers): shape, the pupil, and three low modes against their closed
    forms at the exact pixel centres;  float sizes that are an integer up to rounding"""
    bad = []
    for N in range(2, 261):
        c = (np.arange(N) - N / 2.0 + 0.5) / (N / 2.0)
        X, Y = np.meshgrid(c, c)
        R2 = X * X + Y * Y
        inside = R2 <= 1.0
        for j, f in ((1, lambda: np.ones((N, N))), (2, lambda: 2 * X), (4, lambda: np.sqrt(3.0) * (2 * R2 - 1))):
            try:
                got = np.asarray(z.zernike_noll(j, N), float)
            except Exception as ex:  # noqa
                return [("zernike_noll:raises:grid-size-%d" % N, dict(N=N, j=j, error=repr(ex)[:120]))]
            want = np.where(inside, f(), 0.0)
            if got.shape != (N, N) or not np.allclose(got, want, rtol=0, atol=1e-9):
                return [("zernike_noll:mode-values:grid-size-sweep", dict(N=N, j=j, shape=list(got.shape)))]
    for Nf in (0.29 * 100, 0.57 * 100, 15.6, 24.0, 17.4, 33.00000000000001):
        want_n = int(np.round(Nf))
        za = np.asarray(z.zernikeArray(3, Nf))            # (the count form rounds a float size; the index-list form takes integer sizes only)
        if za.shape != (3, want_n, want_n) or not np.array_equal(za, np.asarray(z.zernikeArray([1, 2, 3], want_n))):
            bad.append(("zernikeArray:float-size", dict(size=repr(Nf), shape=list(za.shape), expected=[3, want_n, want_n])))
            break
    return bad


def check_coefficient_scales(z):
    """phaseFromZernikes is linear in the coefficient vector at every magnitude (metres, nanometres, mixed)"""
    N = 9
    base = np.array([0.0, 1.5, -2.0, 0.75, 0.0, 1.25, -0.5])
    ref = np.asarray(z.phaseFromZernikes(list(base), N), float)
    full = np.asarray(z.zernikeArray(len(base), N), float)
    for s in (1e-6, 1e-9, 3e-10, 1e-14, 1e-30, 1e12):
        got = np.asarray(z.phaseFromZernikes(list(base * s), N), float)
        if got.shape != ref.shape or not np.allclose(got / s, ref, rtol=0, atol=1e-10 * np.abs(ref).max()):
            return [("phaseFromZernikes:linear-combination:coefficient-magnitude", dict(scale=s, err=float(np.abs(got / s - ref).max()) if got.shape == ref.shape else None))]
    # long coefficient vectors (hundreds of modes)
    for nm in (101, 230, 301):
        cl = np.sin(1.0 + np.arange(nm)) + 0.25
        gotl = np.asarray(z.phaseFromZernikes(list(cl), 8), float)
        wantl = np.tensordot(cl, np.asarray(z.zernikeArray(nm, 8), float), axes=1)
        if gotl.shape != wantl.shape or not np.allclose(gotl, wantl, rtol=0, atol=1e-9 * np.abs(wantl).max()):
            return [("phaseFromZernikes:linear-combination:long-coefficient-vector", dict(n_coefficients=nm, err=float(np.abs(gotl - wantl).max())))]
    mixed = np.array([1.0, 2e-9, -3e-10, 0.5, 4e-12, 0.0, 1e-9])
    big = np.where(np.abs(mixed) > 1e-3, mixed, 0.0)
    got = np.asarray(z.phaseFromZernikes(list(mixed), N), float) - np.asarray(z.phaseFromZernikes(list(big), N), float)
    want = np.tensordot(mixed - big, full, axes=1)
    if not np.allclose(got, want, rtol=0, atol=1e-6 * np.abs(want).max()):
        return [("phaseFromZernikes:linear-combination:small-terms-next-to-large-ones", dict(err_rel=float(np.abs(got - want).max() / np.abs(want).max())))]
    return []


def check_gammas(z, modes, maxrad):
    g = np.asarray(z.makegammas(maxrad), float)
    nz = len(modes)
    if g.shape != (2, nz, nz):
        return [("makegammas:shape", dict(shape=list(g.shape), expected=[2, nz, nz]))]
    for md in modes:
        i = md["j"] - 1
        for ax, key in ((0, "gx"), (1, "gy")):
            for jj in range(nz):
                sign, gsq = md[key][jj] if jj <= i else (1, 0)
                want = sign * math.sqrt(gsq)
                if abs(g[ax, i, jj] - want) > 1e-5 * max(1.0, abs(want)):
                    return [("makegammas:gradient-coefficient", dict(axis="xy"[ax], row=i, col=jj, got=float(g[ax, i, jj]), expected=want))]
    # lower radial orders are leading blocks
    for r in range(1, maxrad):
        gs = np.asarray(z.makegammas(r), float)
        k = gs.shape[1]
        if not np.array_equal(gs, g[:, :k, :k]):
            return [("makegammas:nested-orders", dict(nzrad=r))]
    return []


def _mods():
    aot = core.import_aotools()
    from aotools.functions import zernike
    return aot, zernike


def run(run):
    aot, z = _mods()
    quick = run.tier == "quick"
    cfg = "Zernike_quick.cfg" if quick else "Zernike_thorough.cfg"
    r = run.tlc("Zernike", cfg, require_actions=("NollStep", "RadialEval", "GammaPoly", "GammaRows"), timeout=3400)
    if r.violated:
        raise core.MachineryError("Zernike.tla violates its own invariant %s" % r.violated)
    run.bounds = dict(cfg=cfg, text=(core.SPEC / cfg).read_text())
    maxrad = 6 if quick else 7
    noll = [c for c in r.printed if c["kind"] == "noll"]
    radial = [c for c in r.printed if c["kind"] == "radial"]
    modes = sorted([c for c in r.printed if c["kind"] == "mode"], key=lambda c: c["j"])
    if not (noll and radial and modes):
        raise core.MachineryError("TLC did not print all case kinds")
    with warnings.catch_warnings():
        warnings.simplefilter("ignore")
        with np.errstate(all="ignore"):
            seen = set()
            for c in noll:
                got = list(z.zernIndex(c["j"]))
                run.traces += 1
                seen.add(tuple(got))
                if [int(got[0]), int(got[1])] != c["nm"]:
                    run.violation("zernIndex:noll-order", dict(j=c["j"], got=got, expected=c["nm"]), c)
                    break
            if len(seen) != len(noll) and not run.violations:
                run.violation("zernIndex:not-injective", dict(distinct=len(seen), indices=len(noll)), noll[0])
            rr = np.array([[0.0, 0.25, 0.5], [0.75, 1.0, 0.125]])
            for c in radial:
                got = np.asarray(z.zernikeRadialFunc(c["n"], c["m"], rr), float)
                exp = np.array([[float(sum(co * Fraction(v).limit_denominator(8) ** (c["n"] - 2 * s) for s, co in enumerate(c["coef"])))
                                 for v in row] for row in rr])
                run.traces += 1
                if got.shape != rr.shape or not np.allclose(got, exp, rtol=0, atol=1e-12 * max(1, np.abs(exp).max())):
                    run.violation("zernikeRadialFunc:coefficients", dict(n=c["n"], m=c["m"], got=got.tolist(), expected=exp.tolist()), c)
            sizes = list(range(2, 10)) if quick else list(range(2, 14))
            bad, ncmp = check_modes(z, modes, sizes)
            run.traces += ncmp
            for key, detail in bad:
                run.violation(key, detail, dict(kind="modes", detail=detail))
            for key, detail in check_arrays(z, aot, len(modes), [4, 5, 8] if quick else [4, 5, 8, 11, 16]):
                run.violation(key, detail, dict(kind="arrays", detail=detail))
            for key, detail in check_gammas(z, modes, maxrad):
                run.violation(key, detail, dict(kind="gammas", detail=detail))
            bad, nhi = check_high_orders(z)
            run.traces += nhi
            run.aux["high_order_comparisons"] = nhi
            for key, detail in bad + check_coefficient_scales(z) + check_size_sweep(z):
                run.violation(key, detail, dict(kind="high-orders", detail=detail))
            run.traces += len(modes)
    run.sample(noll[min(7, len(noll) - 1)])
    run.sample(radial[-1])
    run.sample(modes[min(7, len(modes) - 1)])
    run.aux["mode_grid_comparisons"] = ncmp
    run.aux["grid_sizes"] = sizes
    run.assumptions += [
        "Gram matrix -> identity as the grid is refined is a limit and is not decided; the continuum orthogonality of the "
        "radial polynomials is checked exactly by TLC instead",
        "radial orders 12..40 (beyond TLC's integers) and coefficient magnitudes 1e-30..1e12 are auxiliary checks against the "
        "definition evaluated in exact rational arithmetic by the harness",
        "mode values compared to 1e-9 with sqrt(c_j) P_j(x, y) evaluated from TLC's integer polynomial at the exact rational "
        "pixel centres (2i+1-N)/N; gamma entries compared to 1e-5 (float32 output)",
    ]


def replay(run, case):
    aot, z = _mods()
    k = case.get("kind")
    if k == "noll":
        got = list(z.zernIndex(case["j"]))
        if [int(got[0]), int(got[1])] != case["nm"]:
            run.violation("zernIndex:noll-order", dict(got=got), case)
    else:
        # structural cases (modes / arrays / gammas) need the model's tables: rerun the quick check
        run_ = core.Run("C12", "quick", run.seed)
        run_.known = []
        globals()["run"](run_)
        run.violations += run_.violations
