"""C06 - seeded screens are reproducible and instances are isolated (spec/RngIso.tla).

TLC explores all interleavings of the stream-owning actions to the depth bound (exhaustive, abstract view) and
generates behaviours by simulation; each behaviour is executed, in order, against the real library.  After every
step the produced array and numpy's global state are hashed; the equality pattern of the hashes must be exactly the
equality pattern of the provenances the model attached to the steps, and the global state may change only on the
steps the model marks as global."""
import copy
import hashlib
import json
import os
import shutil
import subprocess
import sys
import tempfile
import warnings
from pathlib import Path

sys.path.insert(0, str(Path(__file__).resolve().parent.parent.parent))

import numpy as np

from harness import core

PA = dict(r0=0.15, N=4, delta=0.1, L0=20.0, l0=0.01)
PB = dict(r0=0.2, N=5, delta=0.05, L0=10.0, l0=0.005)          # an odd grid
PA2 = dict(PA, r0=PA["r0"] * (1 + 4e-6))          # almost, but not, the parameters of A


def _h(a):
    a = np.ascontiguousarray(np.asarray(a))
    return hashlib.sha256(a.tobytes() + str(a.shape).encode() + str(a.dtype).encode()).hexdigest()[:20]


def _gstate():
    st = np.random.get_state()
    return hashlib.sha256(repr((st[0], st[1].tobytes(), st[2], st[3], st[4])).encode()).hexdigest()[:20]


# the model's abstract seeds 0, 1, 2 bound to real seed values: as they are, and to seeds that agree modulo 2^32 / 2^64 or sit
# at the edges of the 32- and 64-bit ranges ("different seeds give different screens" is about ALL seeds)
SEEDMAPS = [{0: 0, 1: 1, 2: 2}, {0: 11, 1: 2 ** 32 + 11, 2: 2 ** 64 + 11}, {0: 2 ** 31 - 1, 1: 2 ** 31, 2: 2 ** 63}, {0: 2 ** 32 - 1, 1: 2 ** 32, 2: 2 ** 33},
            "seed-sequence-objects"]      # the last one: each abstract seed is ONE numpy.random.SeedSequence object handed to every call that uses it


class World:
    def __init__(self, ao, seedmap=0):
        self.seedmap = SEEDMAPS[seedmap]
        if self.seedmap == "seed-sequence-objects":
            self.seedmap = {k: np.random.SeedSequence(900 + k) for k in range(3)}
        self.ao = ao
        from aotools.turbulence import phasescreen, infinitephasescreen, profile_compression
        self.ps, self.ips, self.pc = phasescreen, infinitephasescreen, profile_compression
        self.G = np.random.default_rng(7)
        self.objs = {}
        self.k = 0

    def seed_arg(self, s):
        return self.G if s == -1 else (None if s == -2 else self.seedmap[int(s)])      # (an int, or the shared SeedSequence object)

    def step(self, rec):
        a = rec["a"]
        if a in ("ft", "ftsh"):
            P = {"A": PA, "B": PB, "A2": PA2}[rec["p"]]
            f = self.ps.ft_phase_screen if a == "ft" else self.ps.ft_sh_phase_screen
            return np.asarray(f(P["r0"], P["N"], P["delta"], P["L0"], P["l0"], seed=self.seed_arg(rec["seed"])))
        if a == "new" and rec.get("again"):
            ob = self.objs[rec["o"]]
            self.reinits = getattr(self, "reinits", 0) + 1
            if self.reinits % 2 == 0:                              # every second time: the whole public set-up sequence again
                ob.make_covmats()
                ob.makeAMatrix()
                ob.makeBMatrix()
            ob.make_initial_screen()                               # rewind a used object
            return np.array(self.objs[rec["o"]].scrn, copy=True)
        if a == "new":
            o = rec["o"]
            if o == "o3":
                self.objs[o] = self.ips.PhaseScreenKolmogorov(5, 0.5, 0.2, 20.0, random_seed=0, stencil_length_factor=2)     # seed 0 is a seed
            elif o == "o4":
                self.objs[o] = self.ips.PhaseScreenVonKarman(4, 0.5, 0.1, 20.0, random_seed=1)
            elif o == "o5":
                self.objs[o] = self.ips.PhaseScreenVonKarman(7, 0.5, 0.2, 20.0, random_seed=3)          # odd size
            else:
                self.objs[o] = self.ips.PhaseScreenVonKarman(4, 0.5, 0.2, 20.0, random_seed=1)
            return np.array(self.objs[o].scrn, copy=True)
        if a == "add_row":
            return np.array(self.objs[rec["o"]].add_row(), copy=True)[0]
        if a == "clone":
            self.objs[rec["o"]] = copy.deepcopy(self.objs[rec["from"]])
            return None
        if a == "unrelated":
            self.k += 1
            self.unrelated(self.k)
            return None
        if a == "global_user":
            self.pc.optimal_grouping(1, 2, np.arange(6.0), np.array([1.0, 2.0, 1.0, 3.0, 1.0, 2.0]))
            return None
        if a == "global_seed":
            np.random.seed(rec["x"])
            return None
        if a == "global_draw":
            np.random.normal(size=3)
            return None
        raise ValueError(a)

    def unrelated(self, k):
        ao = self.ao
        img = (np.arange(36.0).reshape(6, 6) % 7) + 1
        calls = [
            lambda: ao.circle(2.5, 8),
            lambda: ao.image_processing.centre_of_gravity(img.copy(), 0.1),
            lambda: ao.ft2(img + 0j, 0.1),
            lambda: ao.turbulence.cn2_to_r0(1e-13),
            lambda: ao.zernike_noll(5, 8),
            lambda: ao.interpolation.binImgs(img.copy(), 2),
            lambda: ao.turbulence.slopecovariance.structure_function_vk(np.linspace(0.1, 2, 5), 0.15, 25.0),
            lambda: ao.image_processing.brightest_pixel(img.copy(), 0.3),
            lambda: ao.opticalpropagation.angularSpectrum(img + 0j, 500e-9, 0.01, 0.01, 100.0),
            lambda: ao.turbulence.calc_slope_temporalps(img.copy()),
            lambda: ao.turbulence.equivalent_layers(np.arange(6.0), np.ones(6), 2),
            lambda: ao.functions.gaussian2d(8, 2.0),
            lambda: ao.turbulence.phase_covariance(np.linspace(0.1, 3, 4), 0.2, 20.0),
            lambda: ao.astronomy.magnitude_to_flux(5, "V"),
        ]
        calls[k % len(calls)]()


NOTES = []


def request_key(rec):
    if rec["a"] in ("ft", "ftsh") and rec["seed"] >= 0:
        return "%s|%s|%d" % (rec["a"], rec["p"], rec["seed"])
    if rec["a"] == "new":
        return "new|%s" % ("o1" if rec["o"] == "o2" else rec["o"])
    if rec["a"] == "add_row":
        return "add_row|%s|%d" % ("o1" if rec["o"] == "o2" else rec["o"], rec["rows"])
    return None


def pristine_worker(req, out_path):
    """fresh interpreter, nothing else executed: the request alone (for instances: creation and ten rows)"""
    ao = core.import_aotools()
    w = World(ao)
    out = {}
    parts = req.split("|")
    if parts[0] in ("ft", "ftsh"):
        rec = dict(a=parts[0], p=parts[1], seed=int(parts[2]))
        out[req] = _h(w.step(rec))
    else:
        o = parts[1]
        out["new|%s" % o] = _h(w.step(dict(a="new", o=o)))
        for k in range(1, 11):
            out["add_row|%s|%d" % (o, k)] = _h(w.step(dict(a="add_row", o=o)))
    with open(out_path, "w") as fh:
        json.dump(out, fh)


def pristine_references():
    """hash of every seeded request when it is the ONLY thing a fresh interpreter does"""
    reqs = ["%s|%s|%d" % (a, p, s) for a in ("ft", "ftsh") for p in ("A", "B", "A2") for s in (0, 1, 2)] + \
           ["new|%s" % o for o in ("o1", "o3", "o4", "o5")]
    tmp = tempfile.mkdtemp(prefix="aoverif-c06-")
    procs = []
    try:
        for i, rq in enumerate(reqs):
            outp = os.path.join(tmp, "r%d.json" % i)
            procs.append((outp, subprocess.Popen([sys.executable, "-B", os.path.abspath(__file__), "--pristine", rq, outp],
                                                 stdout=subprocess.PIPE, stderr=subprocess.STDOUT, text=True)))
        ref = {}
        for outp, p in procs:
            o, _ = p.communicate(timeout=600)
            if p.returncode != 0:
                raise core.MachineryError("pristine worker failed: %s" % o[-600:])
            ref.update(json.load(open(outp)))
    finally:
        shutil.rmtree(tmp, ignore_errors=True)
    return ref


def run_behaviour(ao, hist, ref=None, seedmap=0):
    """returns list of (key, detail)"""
    w = World(ao, seedmap)
    if seedmap:
        ref = {k: v for k, v in (ref or {}).items() if not k.startswith(("ft|", "ftsh|"))}      # references were made with map 0
    outs = []
    notes = NOTES
    for i, rec in enumerate(hist):
        g0 = _gstate()
        Gs0 = repr(w.G.bit_generator.state)
        try:
            out = w.step(rec)
        except Exception as ex:  # noqa
            if rec.get("seed") == -1:
                # a Generator object as `seed` is a convenience the statement does not promise: skip the step
                notes.append("generator-seed-rejected:%s" % rec["a"])
                continue
            return [("rng:raises:%s" % rec["a"], dict(step=i, record=rec, error=repr(ex)[:200]))]
        g1 = _gstate()
        is_global = rec["a"] in ("global_user", "global_seed", "global_draw")
        if g0 != g1 and not is_global:
            return [("rng:global-state-touched-by:%s" % rec["a"], dict(step=i, record=rec))]
        if rec["a"] in ("new", "add_row", "unrelated", "clone") or (rec["a"] in ("ft", "ftsh") and rec["seed"] != -1):
            if repr(w.G.bit_generator.state) != Gs0:
                return [("rng:user-generator-advanced-by:%s" % rec["a"], dict(step=i, record=rec))]
        if out is not None:
            if not np.all(np.isfinite(out)):
                return [("rng:non-finite-output", dict(step=i, record=rec))]
            cls = (rec["a"], rec.get("p"), rec["o"] if rec.get("o") in ("o3", "o4", "o5") else ("twin" if rec.get("o") else None))
            outs.append((i, cls, _h(out), rec))
            # ... and bit-identical to the same request made alone in a fresh interpreter (nothing interleaved at all)
            rk = request_key(rec)
            if ref is not None and rk in ref and ref[rk] != outs[-1][2]:
                return [("rng:differs-from-pristine-process:%s" % rec["a"], dict(step=i, record=rec, history=[h["a"] + ":" + str(h.get("o", h.get("p", ""))) for h in hist[:i]]))]
    for x in range(len(outs)):
        for y in range(x + 1, len(outs)):
            i, ci, hi, ri = outs[x]
            j, cj, hj, rj = outs[y]
            same_model = (ci == cj) and ri["prov"] == rj["prov"] and ri.get("rows") == rj.get("rows")
            if same_model and hi != hj:
                what = "unseeded" if ri.get("seed") == -2 else "seeded"
                return [("rng:not-reproducible:%s" % ri["a"], dict(steps=[i, j], first=ri, second=rj, kind=what))]
            if not same_model and hi == hj:
                return [("rng:distinct-requests-give-identical-output:%s" % ri["a"], dict(steps=[i, j], first=ri, second=rj))]
    return []


def _unseeded_in_child(q):
    from aotools.turbulence import phasescreen
    q.put((_h(phasescreen.ft_phase_screen(0.2, 8, 0.1, 20.0, 0.01)), _h(phasescreen.ft_sh_phase_screen(0.2, 8, 0.1, 20.0, 0.01))))


def forked_unseeded(ao):
    """unseeded calls differ from each other - also across worker processes forked AFTER this process has already made unseeded
    screens (workers of a simulation inherit whatever module state exists at fork time)"""
    import multiprocessing as mp
    from aotools.turbulence import phasescreen
    seen = [(_h(phasescreen.ft_phase_screen(0.2, 8, 0.1, 20.0, 0.01)), _h(phasescreen.ft_sh_phase_screen(0.2, 8, 0.1, 20.0, 0.01)))]
    ctx = mp.get_context("fork")
    q = ctx.Queue()
    ps_ = [ctx.Process(target=_unseeded_in_child, args=(q,)) for _ in range(3)]
    for p_ in ps_:
        p_.start()
    for p_ in ps_:
        seen.append(q.get(timeout=120))
    for p_ in ps_:
        p_.join(30)
    seen.append((_h(phasescreen.ft_phase_screen(0.2, 8, 0.1, 20.0, 0.01)), _h(phasescreen.ft_sh_phase_screen(0.2, 8, 0.1, 20.0, 0.01))))
    for k, name in ((0, "ft"), (1, "ftsh")):
        vals = [s_[k] for s_ in seen]
        if len(set(vals)) != len(vals):
            return [("rng:unseeded-screens-repeat-across-forked-workers:" + name, dict(distinct=len(set(vals)), calls=len(vals)))]
    return []


def _churn(ao, k):
    """heap traffic between two reproductions: arrays of many sizes filled with junk and released, unrelated library calls"""
    g = np.random.default_rng(1000 + k)
    junk = [np.full(int(n_), 1e6 * (i + 1.5)) for i, n_ in enumerate(g.integers(1, 4000, size=60))]
    junk += [np.full((int(n_), int(n_)), -3e5 * (i + 1)) for i, n_ in enumerate(g.integers(2, 70, size=30))]
    del junk
    ao.circle(3.3, 16)
    ao.ft2(np.full((17, 17), 5e3 + 0j), 0.1)
    ao.image_processing.centre_of_gravity(np.full((33, 33), 7e4))
    for n_ in (5, 9, 12, 16, 17, 20, 30, 33, 65, 129, 257):        # blocks of the sizes screens use for their vectors, with junk that differs from
        tmp = [np.full(n_, 1e8 * (k + 1) + i) for i in range(6)]     # one reproduction to the next (released right away)
        del tmp


def churn_reproducibility(ao):
    """seeded infinite screens rebuilt after heap churn: ill-conditioned parameter sets (B B^T has eigenvalues at rounding level) and
    Fried screens whose working size is padded - whatever is not written from the seed stream must not come from old memory"""
    from aotools.turbulence import infinitephasescreen as ips
    bad = []
    n = 0
    cfgs = [("vk", 17, dict(n_columns=4), (0.01, 0.2, 1000.0)), ("vk", 32, dict(n_columns=4), (0.01, 0.2, 1000.0)), ("vk", 33, dict(n_columns=3), (0.02, 0.3, 500.0)),
            ("fried", 8, {}, (0.5, 0.2, 20.0)), ("fried", 12, {}, (0.5, 0.2, 20.0)), ("fried", 16, dict(stencil_length_factor=2), (0.5, 0.2, 20.0)),
            ("fried", 20, {}, (0.1, 0.15, 50.0)), ("fried", 30, dict(stencil_length_factor=2), (0.5, 0.2, 20.0)), ("vk", 9, {}, (0.5, 0.2, 20.0))]
    for variant, req, kw, prm in cfgs:
        cls = ips.PhaseScreenVonKarman if variant == "vk" else ips.PhaseScreenKolmogorov
        hashes = []
        try:
            for rep in range(4):
                _churn(ao, rep * 7 + req)
                obj = cls(req, prm[0], prm[1], prm[2], random_seed=5, **kw)
                rows = [np.array(obj.scrn, copy=True)] + [np.array(obj.add_row(), copy=True) for _ in range(6)]
                hashes.append(_h(np.array(rows)))
                del obj
        except np.linalg.LinAlgError:
            continue          # construction refused: outside the property
        n += 1
        if len(set(hashes)) != 1:
            bad.append(("rng:not-reproducible:after-unrelated-memory-traffic", dict(variant=variant, size=req, params=list(prm), distinct=len(set(hashes)), **kw)))
            break
    return bad, n


def unseeded_variety(ao):
    """"unseeded calls differ from each other": also when an unseeded OBJECT is re-initialised, and whatever the state of Python's own
    `random` module is (re-seeded to the same value before each call) - fresh entropy is not the caller's stdlib stream"""
    import random as pyrandom
    from aotools.turbulence import infinitephasescreen as ips, phasescreen as ps
    bad = []
    for cls, kw in ((ips.PhaseScreenVonKarman, {}), (ips.PhaseScreenKolmogorov, dict(stencil_length_factor=2))):
        obj = cls(5, 0.5, 0.2, 20.0, **kw)
        seen = [_h(np.array(obj.scrn, copy=True))]
        for _ in range(3):
            obj.make_initial_screen()
            seen.append(_h(np.array(obj.scrn, copy=True)))
        if len(set(seen)) != len(seen):
            bad.append(("rng:unseeded-object-repeats-after-reinitialisation", dict(cls=cls.__name__, distinct=len(set(seen)), realisations=len(seen))))
    saved = pyrandom.getstate()
    try:
        for name, f in (("ft", ps.ft_phase_screen), ("ftsh", ps.ft_sh_phase_screen)):
            seen = []
            for _ in range(3):
                pyrandom.seed(12345)
                st0 = pyrandom.getstate()
                seen.append(_h(f(0.2, 8, 0.1, 20.0, 0.01)))
                if pyrandom.getstate() != st0:
                    bad.append(("rng:python-random-stream-advanced-by:" + name, {}))
                    break
            if len(set(seen)) != len(seen):
                bad.append(("rng:unseeded-screens-repeat-when-python-random-is-reseeded:" + name, dict(distinct=len(set(seen)))))
    finally:
        pyrandom.setstate(saved)
    return bad


def initial_screen_and_rows_use_different_deviates(ao):
    """a seeded screen: the innovation of the FIRST added row is not made of deviates the construction already consumed
    (spec/RngIso.tla: NoDeviateUsedTwice).  b = B^-1 (row - A stencil).  Which deviates the construction consumed is OBSERVED
    (every generator made by numpy.random.default_rng during the construction records what it hands out, child streams included),
    not assumed: an initial screen drawn from a spawned child stream, or in another order, is none of this check's business."""
    from aotools.turbulence import infinitephasescreen as ips
    from harness import gens
    bad = []
    for seed in (0, 3, 11):
        with gens.recorded_default_rng() as log:
            obj = ips.PhaseScreenVonKarman(6, 0.5, 0.2, 20.0, random_seed=seed)
            consumed = np.concatenate(log) if log else np.zeros(0)
            if not hasattr(obj, "A_mat") or not hasattr(obj, "B_mat") or consumed.size == 0:
                continue
            w = np.array(obj._scrn, copy=True)
            sc_ = np.asarray(obj.stencil_coords)
            st = w[(sc_[:, 0], sc_[:, 1])]
            obj.add_row()
        e = np.asarray(obj._scrn)[0] - np.asarray(obj.A_mat).dot(st)
        try:
            b = np.linalg.solve(np.asarray(obj.B_mat, float), e)
        except np.linalg.LinAlgError:
            continue
        hits = [int(np.argmin(np.abs(consumed - v))) for v in b if np.abs(consumed - v).min() < 1e-7 * max(1.0, abs(v))]
        if len(hits) == len(b):
            bad.append(("rng:row-innovation-reuses-deviates-of-the-initial-screen", dict(seed=seed, positions=hits[:6])))
            break
    return bad


def run(run):
    ao = core.import_aotools()
    quick = run.tier == "quick"
    cfg = "RngIso_quick.cfg" if quick else "RngIso_thorough.cfg"
    r = run.tlc("RngIso", cfg, label="RngIso/exhaustive", timeout=3000)
    if r.violated:
        raise core.MachineryError("RngIso.tla violates its own property %s" % r.violated)
    # the Def layer does not depend on the draw protocol: the same properties under "initial screen from a spawned child stream"
    rc_ = run.tlc("RngIso", "RngIso_child.cfg", label="RngIso/child-stream-protocol", timeout=3000)
    if rc_.violated:
        raise core.MachineryError("RngIso.tla (child-stream protocol) violates %s" % rc_.violated)
    rs = run.tlc("RngIso", "RngIso_sim.cfg", label="RngIso/simulate", simulate=dict(num=300 if quick else 3000), depth=11,
                 workers=4, timeout=3000)
    if rs.violated:
        raise core.MachineryError("RngIso.tla (simulation) violates %s" % rs.violated)
    rso = run.tlc("RngIso", "RngIso_simobj.cfg", label="RngIso/simulate-instances", simulate=dict(num=150 if quick else 1500), depth=11,
                  workers=4, timeout=3000)
    if rso.violated:
        raise core.MachineryError("RngIso.tla (instance simulation) violates %s" % rso.violated)
    seen, behaviours = set(), []
    for p in rso.printed[:400 if quick else 4000] + rs.printed:
        key = repr(p["hist"])
        if key not in seen:
            seen.add(key)
            behaviours.append(p["hist"])
    cap = 1500 if quick else 15000
    behaviours = behaviours[:cap]
    if len(behaviours) < 50:
        raise core.MachineryError("simulation produced only %d behaviours" % len(behaviours))
    run.bounds = dict(exhaustive_cfg=cfg, simulate_depth=10, behaviours=len(behaviours), params=dict(A=PA, B=PB))
    warnings.simplefilter("ignore")
    saved = np.random.get_state()
    acts = {}
    ref = pristine_references()
    run.aux["pristine_reference_requests"] = len(ref)
    try:
        for bi, hist in enumerate(behaviours):
            for rec in hist:
                acts[rec["a"]] = acts.get(rec["a"], 0) + 1
            sm = bi % len(SEEDMAPS)
            with np.errstate(all="ignore"):
                bad = run_behaviour(ao, hist, ref, sm)
            run.traces += 1
            for key, detail in bad:
                run.violation(key + ("" if not sm else ":seed-sequence-object-reused" if SEEDMAPS[sm] == "seed-sequence-objects" else ":seeds-beyond-32-bits"), detail, dict(kind="behaviour", hist=hist, seedmap=sm))
    finally:
        np.random.set_state(saved)
    for key, detail in forked_unseeded(ao):
        run.violation(key, detail, dict(kind="fork"))
    run.traces += 1
    with np.errstate(all="ignore"):
        for key, detail in unseeded_variety(ao) + initial_screen_and_rows_use_different_deviates(ao):
            run.violation(key, detail, dict(kind="variety"))
        run.traces += 2
        badc, nc = churn_reproducibility(ao)
    run.traces += nc
    run.aux["reproductions_after_memory_traffic"] = nc
    for key, detail in badc:
        run.violation(key, detail, dict(kind="churn"))
    run.sample(behaviours[0])
    run.sample(behaviours[-1])
    run.aux.update(action_counts=acts, skipped_steps={k: NOTES.count(k) for k in set(NOTES)})
    for k in set(NOTES):
        run.drift(k, dict(count=NOTES.count(k)))
    run.exhaustive = False
    run.assumptions += [
        "bit-identity is observed as equality of SHA-256 of the returned arrays; the global stream as a hash of numpy.random.get_state()",
        "behaviours come from TLC simulation of the model (depth 10); the exhaustive run (abstract view) decides the model's own "
        "invariants for all interleavings up to the depth in the cfg",
    ]


def replay(run, case):
    ao = core.import_aotools()
    warnings.simplefilter("ignore")
    if case.get("kind") == "variety":
        with np.errstate(all="ignore"):
            for key, detail in unseeded_variety(ao) + initial_screen_and_rows_use_different_deviates(ao):
                run.violation(key, detail, case)
        return
    if case.get("kind") == "churn":
        for key, detail in churn_reproducibility(ao)[0]:
            run.violation(key, detail, case)
        return
    if case.get("kind") == "fork":
        for key, detail in forked_unseeded(ao):
            run.violation(key, detail, case)
        return
    saved = np.random.get_state()
    try:
        with np.errstate(all="ignore"):
            for key, detail in run_behaviour(ao, case["hist"], pristine_references(), case.get("seedmap", 0)):
                run.violation(key, detail, case)
    finally:
        np.random.set_state(saved)


if __name__ == "__main__":
    if len(sys.argv) == 4 and sys.argv[1] == "--pristine":
        warnings.simplefilter("ignore")
        pristine_worker(sys.argv[2], sys.argv[3])
