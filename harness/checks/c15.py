"""C15 - centroiders locate, shift, scale and batch consistently.

spec/ImageOps.tla: TLC enumerates every small image / parameter set in scope, runs the transcribed
pipelines and checks the relations of C15 on them.  Every finished case is replayed into the real
centroiders: the relations are evaluated on the real outputs (that is the verdict), and the value
is compared with the model's exact rational result (binding; a pure value difference with all
relations intact is recorded as impl_drift, not as a violation)."""
import warnings

import numpy as np

from harness import core

TOL = 1e-10


def _c(m):
    """<<Mx, My, T>> -> (x, y) floats (nan when T = 0)"""
    if m[2] == 0:
        return np.array([np.nan, np.nan])
    return np.array([m[0] / m[2], m[1] / m[2]])


def _same(a, b, tol=TOL):
    a, b = np.asarray(a, float).ravel(), np.asarray(b, float).ravel()
    if a.shape != b.shape:
        return False
    na, nb = np.isnan(a), np.isnan(b)
    if (na != nb).any():
        return False
    return bool(np.all(np.abs(a[~na] - b[~nb]) <= tol))


def _translate(img, ky, kx):
    out = np.zeros_like(img)
    h, w = img.shape
    ys, xs = np.nonzero(img)
    out[ys + ky, xs + kx] = img[ys, xs]
    return out


def _pick(seq, n=3):
    if len(seq) <= n:
        return list(seq)
    return [seq[0], seq[len(seq) // 2], seq[-1]]


def check_case(ip, c):
    bad, drift = [], []
    k = c["kind"]
    if k in ("cog", "cogwin", "bp"):
        img = np.array(c["img"], dtype=float)
        if k == "bp":
            th = c["k"] / 9.0
            if int(round(th * 3 * 3)) != c["k"]:
                th = np.nextafter(th, 1.0)
            assert int(round(th * 3 * 3)) == c["k"]
            f = lambda a: np.asarray(ip.brightest_pixel(a.copy(), th), float)
            name = "brightest_pixel"
        else:
            th = c["th"][0] / c["th"][1]
            f = lambda a: np.asarray(ip.centre_of_gravity(a.copy(), threshold=th), float)
            name = "centre_of_gravity"
        tag = "" if (k == "bp" or c["th"][0] == 0) else ":threshold"
        v = f(img)
        if v.shape != (2,):
            return [("%s:shape" % name, dict(shape=list(v.shape)))], []
        impl = _c(c["impl"])
        # -- value that the statement itself fixes
        if len(c["lit"]) == 1:
            p = c["lit"][0]
            if not _same(v, [p[1], p[0]]):
                bad.append(("%s:single-pixel" % name, dict(got=v.tolist(), expected=[p[1], p[0]])))
        if k != "bp" and c["th"][0] == 0 and not _same(v, _c(c["first"])):
            bad.append(("%s:first-moment" % name, dict(got=v.tolist(), expected=_c(c["first"]).tolist())))
        if k == "bp" and not _same(v, impl):
            bad.append(("brightest_pixel:rank-then-cog", dict(got=v.tolist(), expected=impl.tolist())))
        # -- relations on the real code
        if not _same(f(3.0 * img), v):
            bad.append(("%s:scale%s" % (name, tag), dict(base=v.tolist(), scaled=f(3.0 * img).tolist())))
        for s in _pick(c["shifts"]):
            if s == [0, 0]:
                continue
            w = f(_translate(img, s[0], s[1]))
            if not _same(w, v + np.array([s[1], s[0]])):
                bad.append(("%s:shift%s" % (name, tag), dict(shift=s, base=v.tolist(), shifted=w.tolist())))
                break
        partner = np.ascontiguousarray(img[::-1, ::-1].T) if img.shape[0] == img.shape[1] else img[::-1, ::-1].copy()
        partner = partner + (0 if partner.max() == 0 else 0)
        frames = [img, 2.0 * partner, img]
        stack = np.array(frames)
        vs = f(stack)
        if vs.shape != (2, 3):
            bad.append(("%s:stack-shape" % name, dict(shape=list(vs.shape))))
        else:
            for i, fr in enumerate(frames):
                if not _same(vs[:, i], f(fr)):
                    bad.append(("%s:stack-vs-frame%s" % (name, tag),
                                dict(frame=i, stack=vs[:, i].tolist(), single=f(fr).tolist())))
                    break
        # the optional absolute floor min_threshold: stack and frames must still agree, and a shift must still shift
        extra = (int(img.sum()) + 7 * len(c["lit"])) % 3 == 0          # the additional replays below on a deterministic third of the cases
        if not bad and extra and k != "bp" and c["th"][0] != 0:
            fm = lambda a: np.asarray(ip.centre_of_gravity(a.copy(), threshold=th, min_threshold=1.0), float)
            vm = fm(img)
            sm = fm(np.array([img, 2.0 * partner, img]))
            if sm.shape != (2, 3) or not _same(sm[:, 0], vm) or not _same(sm[:, 1], fm(2.0 * partner)):
                bad.append(("centre_of_gravity:stack-vs-frame:min_threshold", dict(stack=sm.tolist(), single=vm.tolist())))
            for s_ in _pick(c["shifts"]):
                if s_ != [0, 0] and not _same(fm(_translate(img, s_[0], s_[1])), vm + np.array([s_[1], s_[0]])):
                    bad.append(("centre_of_gravity:shift:min_threshold", dict(shift=s_)))
                    break
        # integer-typed images (detector counts): the same answers as the same image in floating point
        if not bad and extra:
            ii = np.array(c["img"], dtype=np.int64)
            for fac in (1, 3):
                vi = f(fac * ii)
                if not _same(vi, v):
                    bad.append(("%s:integer-image%s" % (name, tag), dict(factor=fac, integer=vi.tolist(), float=v.tolist())))
                    break
            if not bad and not _same(f(np.array([ii, 2 * ii[::-1, ::-1]]))[:, 0], v):
                bad.append(("%s:integer-image:stack-vs-frame%s" % (name, tag), dict(float=v.tolist())))
        if not bad and not _same(v, impl):
            drift.append(("%s:value%s" % (name, tag), dict(got=v.tolist(), model=impl.tolist())))
    elif k == "corr":
        img = np.array(c["img"], dtype=float)
        ref = np.array(c["ref"], dtype=float)
        th = c["th"][0] / c["th"][1]
        n, pad = c["n"], c["pad"]
        v3 = np.asarray(ip.correlation_centroid(img[None].copy(), ref.copy(), threshold=th, padding=pad), float)
        v2 = np.asarray(ip.correlation_centroid(img.copy(), ref.copy(), threshold=th, padding=pad), float)
        if v3.shape != (2, 1) or v2.shape != (2, 1):
            return [("correlation_centroid:shape", dict(s3=list(v3.shape), s2=list(v2.shape)))], []
        nx_ = c.get("nx", n)
        cls = ":odd-n-even-pad" if ((n % 2 == 1 or nx_ % 2 == 1) and pad % 2 == 0) else ""
        if nx_ != n:
            cls += ":rectangular"
        if c["fits"] and not c["neartie"]:
            if not _same(v3, c["expected"], 1e-8):
                bad.append(("correlation_centroid:displacement" + cls,
                            dict(got=v3.ravel().tolist(), expected=c["expected"])))
            elif not _same(v2, c["expected"], 1e-8):
                bad.append(("correlation_centroid:displacement-2d-path" + cls,
                            dict(got=v2.ravel().tolist(), expected=c["expected"])))
            st = np.array([img, ref, img])
            vs = np.asarray(ip.correlation_centroid(st.copy(), ref.copy(), threshold=th, padding=pad), float)
            if vs.shape != (2, 3) or not _same(vs[:, 0], v3) or not _same(vs[:, 2], v3, 1e-8):
                bad.append(("correlation_centroid:stack-vs-frame" + cls, dict(stack=vs.tolist(), single=v3.tolist())))
        if not bad and not c["neartie"] and not _same(v3, _c(c["impl"]), 1e-8):
            drift.append(("correlation_centroid:value" + cls, dict(got=v3.ravel().tolist(), model=_c(c["impl"]).tolist())))
    elif k == "quad":
        img = np.array(c["img"], dtype=float)
        v = np.asarray(ip.quadCell(img.copy()), float)
        if not _same(v, c["impl"]):
            bad.append(("quadCell:value", dict(got=v.tolist(), expected=c["impl"])))
        m1 = np.asarray(ip.quadCell(img[:, ::-1].copy()), float)
        m2 = np.asarray(ip.quadCell(img[::-1, :].copy()), float)
        if not _same(m1, [-v[0], v[1]]) or not _same(m2, [v[0], -v[1]]):
            bad.append(("quadCell:mirror", dict(base=v.tolist(), lr=m1.tolist(), ud=m2.tolist())))
        st = np.asarray(ip.quadCell(np.array([img, img[:, ::-1]])), float)
        if st.shape != (2, 2) or not _same(st[:, 0], v) or not _same(st[:, 1], m1):
            bad.append(("quadCell:stack-vs-frame", dict(stack=st.tolist())))
    return bad, drift


def shape_histories(ip):
    """the same process centroids frames of many shapes, one after the other: equal pixel counts in different shapes (6x12 then
    12x6), equal PADDED shapes reached from different frame sizes (12x12 padding 1, then 6x6 padding 2).  Single bright pixel and
    displaced-copy clauses (exact expected values), evaluated after every change of shape."""
    bad = []
    n = 0
    for seq in (((6, 12), (12, 6), (8, 9), (9, 8), (4, 18), (6, 12)), ((16, 9), (12, 12), (9, 16), (3, 4), (4, 3), (2, 6), (6, 2))):
        for (ny, nx) in seq:
            for (py, px) in ((1, nx - 2), (ny - 2, 1), (ny // 2, nx // 3)):
                img = np.zeros((ny, nx))
                img[py, px] = 3.0
                for name, f in (("centre_of_gravity", lambda a: ip.centre_of_gravity(a)), ("centre_of_gravity[threshold]", lambda a: ip.centre_of_gravity(a, threshold=0.2)),
                                ("brightest_pixel", lambda a: ip.brightest_pixel(a, 0.1 if ny * nx >= 20 else 0.4))):
                    got = np.asarray(f(img.copy()), float).ravel()
                    n += 1
                    if got.shape != (2,) or not np.allclose(got, [px, py], rtol=0, atol=1e-12):
                        bad.append(("%s:single-pixel:after-frames-of-other-shapes" % name.split("[")[0], dict(shape=[ny, nx], pixel=[px, py], got=got.tolist())))
                        return bad, n
                st = np.asarray(ip.centre_of_gravity(np.array([img, img])), float)
                if st.shape != (2, 2) or not np.allclose(st[:, 0], [px, py], rtol=0, atol=1e-12):
                    bad.append(("centre_of_gravity:single-pixel:after-frames-of-other-shapes", dict(shape=[ny, nx], stack=True, got=st.tolist())))
                    return bad, n
    # (the last three pairs: padded sizes 13, 17, 19, 26, 34 - prime factors an FFT "fast length" would round away)
    # detector counts close to the top of their integer type (a single pixel of 2^30 counts in an int32 frame, 60000 in uint16, ...)
    for dt, val in ((np.int32, 2 ** 30), (np.uint16, 60000), (np.int64, 2 ** 52), (np.int16, 32000), (np.uint8, 250)):
        for (ny, nx), (py, px) in (((8, 8), (5, 6)), ((40, 40), (33, 37)), ((6, 50), (4, 47))):
            img = np.zeros((ny, nx), dtype=dt)
            img[py, px] = val
            img[py, px - 1] = val
            for name, f in (("centre_of_gravity", lambda a: ip.centre_of_gravity(a)), ("brightest_pixel", lambda a: ip.brightest_pixel(a, 0.05 if ny * nx >= 60 else 0.04))):
                got = np.asarray(f(img.copy()), float).ravel()
                want = np.asarray(f(img.astype(float)), float).ravel()
                n += 1
                if got.shape != (2,) or not np.allclose(got, want, rtol=0, atol=1e-9) or not np.allclose(want, [px - 0.5, py], rtol=0, atol=1e-9):
                    bad.append(("%s:integer-image-with-large-counts" % name, dict(dtype=np.dtype(dt).name, shape=[ny, nx], got=got.tolist(), expected=[px - 0.5, py])))
                    return bad, n
    for (n1, p1), (n2, p2) in (((12, 1), (6, 2)), ((12, 2), (8, 3)), ((10, 3), (15, 2)), ((9, 2), (6, 3)), ((6, 3), (9, 2)), ((13, 1), (17, 1)), ((13, 2), (19, 1)), ((17, 2), (11, 3))):
        for nn, pp in ((n1, p1), (n2, p2)):
            yy, xx = np.indices((nn, nn))
            blob = lambda cy, cx: np.exp(-((xx - cx) ** 2 + (yy - cy) ** 2) / 0.35)       # compact: stays inside the frame when shifted by one
            c0 = nn // 2
            for (sy, sx) in ((0, 0), (1, -1), (-1, 1)):
                ref, im = blob(c0, c0), blob(c0 + sy, c0 + sx)
                got = np.asarray(ip.correlation_centroid(im.copy(), ref.copy(), threshold=0.3, padding=pp), float).ravel()
                n += 1
                base = np.asarray(ip.correlation_centroid(ref.copy(), ref.copy(), threshold=0.3, padding=pp), float).ravel()
                if base.shape != (2,) or not np.allclose(base, [c0, c0], rtol=0, atol=2e-2):          # undisplaced: the array centre n // 2
                    bad.append(("correlation_centroid:displacement:undisplaced-copy-not-at-the-centre", dict(frame=nn, padding=pp, got=base.tolist(), centre=c0)))
                    return bad, n
                if got.shape != (2,) or not np.allclose(got - base, [sx, sy], rtol=0, atol=2e-2):
                    bad.append(("correlation_centroid:displacement:after-frames-of-other-shapes", dict(frame=nn, padding=pp, shift=[sx, sy], got=(got - base).tolist())))
                    return bad, n
    return bad, n


def relation_sweep(ip, rng):
    """Relations that need no expected value (code against code) on shapes and parameters outside the model's enumeration:
    rank-4 cubes, and brightest-pixel fractions whose pixel count threshold*ny*nx falls on a rounding tie."""
    bad = []
    n = 0
    for (ny, nx) in [(4, 4), (5, 9), (5, 5), (10, 9), (7, 6), (9, 5), (3, 11)]:
        frames = rng.integers(0, 50, size=(3, ny, nx)).astype(float) + np.arange(ny * nx).reshape(ny, nx) * 1e-3     # no value ties
        for frac in np.round(np.arange(0.05, 1.0, 0.05), 2):
            if int(round(frac * nx * ny)) < 2:
                continue
            st = np.asarray(ip.brightest_pixel(frames.copy(), float(frac)), float)
            n += 1
            for i in range(3):
                one = np.asarray(ip.brightest_pixel(frames[i].copy(), float(frac)), float)
                if st.shape != (2, 3) or not _same(st[:, i], one):
                    bad.append(("brightest_pixel:stack-vs-frame:fraction-tie", dict(shape=[ny, nx], fraction=float(frac), stack=st[:, i].tolist(), single=one.tolist())))
                    return bad, n
        # the same stack in other memory layouts (a .T of an (x, y, t) cube, Fortran order, a swapaxes view), with thresholds
        for label, st_ in (("transposed-xyt-cube", np.ascontiguousarray(frames.T).T), ("fortran-order", np.asfortranarray(frames)),
                           ("swapaxes-view", np.ascontiguousarray(frames.swapaxes(1, 2)).swapaxes(1, 2))):
            for kw in (dict(threshold=0.3), dict(threshold=0.0, min_threshold=4.0), dict(threshold=0.5, min_threshold=2.0)):
                ref_ = np.asarray(ip.centre_of_gravity(frames.copy(), **kw), float)
                got_ = np.asarray(ip.centre_of_gravity(st_, **kw), float)
                n += 1
                if got_.shape != ref_.shape or not np.allclose(got_, ref_, rtol=0, atol=1e-12, equal_nan=True):
                    bad.append(("centre_of_gravity:stack-vs-frame:threshold:memory-layout", dict(layout=label, shape=[ny, nx], kw=kw)))
                    return bad, n
            bp_ref = np.asarray(ip.brightest_pixel(frames.copy(), 0.3), float)
            if not np.allclose(np.asarray(ip.brightest_pixel(st_, 0.3), float), bp_ref, rtol=0, atol=1e-12):
                bad.append(("brightest_pixel:stack-vs-frame:memory-layout", dict(layout=label, shape=[ny, nx])))
                return bad, n
        # correlation centroid: a frame alone and the same frame inside a stack, for every padding (extended spot on a background)
        if ny == nx or True:
            yy, xx = np.indices((ny, nx))
            spot = 2.0 + 5.0 * np.exp(-((xx - nx / 3.0) ** 2 + (yy - ny / 1.7) ** 2) / 6.0) + 0.01 * frames[0]
            refim = 1.0 + np.exp(-((xx - nx / 2.0) ** 2 + (yy - ny / 2.0) ** 2) / 5.0)
            for pad in (1, 2, 3):
                for th in (0.0, 0.2):
                    one = np.asarray(ip.correlation_centroid(spot.copy(), refim.copy(), threshold=th, padding=pad), float).ravel()
                    stk = np.asarray(ip.correlation_centroid(np.array([spot, frames[1], spot]), refim.copy(), threshold=th, padding=pad), float)
                    n += 1
                    if stk.shape != (2, 3) or not np.allclose(stk[:, 0], one, rtol=0, atol=1e-10) or not np.allclose(stk[:, 2], one, rtol=0, atol=1e-10):
                        bad.append(("correlation_centroid:stack-vs-frame:padding", dict(shape=[ny, nx], padding=pad, threshold=th, single=one.tolist(),
                                                                                       in_stack=stk[:, 0].tolist())))
                        return bad, n
        cube = rng.integers(1, 30, size=(2, 3, ny, nx)).astype(float)
        for name, f in (("centre_of_gravity", lambda a: ip.centre_of_gravity(a)), ("quadCell", None)):
            if f is None:
                q = rng.random((2, 3, 2, 2))
                got = np.asarray(ip.quadCell(q), float)
                want = np.array([[ip.quadCell(q[a, b]) for b in range(3)] for a in range(2)], float)          # (2, 3, 2)
                n += 1
                if got.shape != (2, 2, 3) or not np.allclose(got, np.moveaxis(want, -1, 0), rtol=0, atol=1e-12):
                    bad.append(("quadCell:rank-4-cube", dict(shape=list(got.shape))))
                    return bad, n
                continue
            got = np.asarray(f(cube.copy()), float)
            n += 1
            ok = got.shape == (2, 2, 3)
            if ok:
                for a in range(2):
                    for b in range(3):
                        ok = ok and _same(got[:, a, b], np.asarray(f(cube[a, b].copy()), float))
            if not ok:
                bad.append(("%s:rank-4-cube" % name, dict(shape=list(got.shape), frame_shape=[ny, nx])))
                return bad, n
    return bad, n


def _ip():
    core.import_aotools()
    from aotools.image_processing import centroiders
    return centroiders


def run(run):
    ip = _ip()
    cfg = "ImageOps_quick.cfg" if run.tier == "quick" else "ImageOps_thorough.cfg"
    r = run.tlc("ImageOps", cfg, require_actions=("ChooseImage", "Stage1", "Stage2", "MomentsStep"), timeout=3400)
    if r.violated:
        raise core.MachineryError("ImageOps.tla violates its own invariant %s" % r.violated)
    run.bounds = dict(cfg=cfg, text=(core.SPEC / cfg).read_text())
    kinds = {}
    with warnings.catch_warnings():
        warnings.simplefilter("ignore")
        with np.errstate(all="ignore"):
            for c in r.printed:
                bad, drift = check_case(ip, c)
                run.traces += 1
                kinds[c["kind"]] = kinds.get(c["kind"], 0) + 1
                if kinds[c["kind"]] == 40:
                    run.sample(c, limit=6)
                for key, detail in bad:
                    run.violation(key, detail, c)
                for key, detail in drift:
                    run.drift(key, detail)
    if not r.printed:
        raise core.MachineryError("TLC printed no case")
    with warnings.catch_warnings():
        warnings.simplefilter("ignore")
        with np.errstate(all="ignore"):
            badr, nr = relation_sweep(ip, np.random.default_rng(run.seed))
            badh, nh = shape_histories(ip)
            badr, nr = badr + badh, nr + nh
    run.traces += nr
    run.aux["relation_sweep_calls"] = nr
    for key, detail in badr:
        run.violation(key, detail, dict(kind="sweep"))
    run.aux["cases_by_kind"] = kinds
    run.assumptions += [
        "scope = the cfg constants (all 3x3 images over 0..MaxVal, windowed 4x5 images, 2x2 contents for the correlation)",
        "thresholds are binary fractions so the code's arithmetic is exact up to the last division (tolerance 1e-10); the "
        "FFT correlation is compared to 1e-8 and thresholded cases with a correlation value exactly on the threshold are skipped",
        "for thresholded centre of gravity only the relations of the statement decide; a value differing from the model with "
        "all relations intact is recorded as impl_drift",
    ]


def replay(run, case):
    ip = _ip()
    with warnings.catch_warnings():
        warnings.simplefilter("ignore")
        with np.errstate(all="ignore"):
            if case.get("kind") == "sweep":
                bad, _ = relation_sweep(ip, np.random.default_rng(run.seed))
                bad += shape_histories(ip)[0]
                drift = []
            else:
                bad, drift = check_case(ip, case)
    for key, detail in bad:
        run.violation(key, detail, case)
