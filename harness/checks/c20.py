"""C20 - library calls are pure: arguments never modified, no hidden state (spec/Purity.tla, PurityTrace.tla).

Purity.tla defines a pure library as a state machine over an object store (Call leaves the store unchanged and agrees
with the memo of all earlier calls; only declared users of hidden inputs are exempt).  TLC enumerates all programs
(call / mutate sequences over shared arrays) up to a depth; each program skeleton is instantiated with concrete entry
points of the catalogue below, executed on the real library with every argument hashed before and after, and the recorded
trace is validated by PurityTrace.tla, which re-uses the Call step.  Long seeded random programs are validated the same
way, so that every entry point is called repeatedly on shared data with other calls interleaved."""
import contextlib
import hashlib
import random as _pyrandom
import io
import json
import os
import shutil
import tempfile
import warnings

import numpy as np

import sys
from pathlib import Path

sys.path.insert(0, str(Path(__file__).resolve().parent.parent.parent))

from harness import core  # noqa: E402


# ------------------------------------------------------------------ hashing
def arr_token(a):
    a = np.asarray(a) if not isinstance(a, np.ndarray) else a
    h = hashlib.sha256()
    h.update(np.ascontiguousarray(a).tobytes())
    h.update(repr((a.shape, a.dtype.str, a.strides, a.flags.writeable, a.flags.c_contiguous, a.flags.f_contiguous)).encode())
    return h.hexdigest()[:24]


def res_token(r):
    h = hashlib.sha256()

    def feed(x):
        if isinstance(x, np.ndarray):
            h.update(b"A" + np.ascontiguousarray(x).tobytes() + repr((x.shape, x.dtype.str)).encode())
        elif isinstance(x, (tuple, list)):
            h.update(b"T%d" % len(x))
            for y in x:
                feed(y)
        elif hasattr(x, "scrn") and hasattr(x, "add_row"):
            feed(np.asarray(x.scrn))
        elif hasattr(x, "covariance_matrix"):
            feed(np.asarray(x.covariance_matrix))
        else:
            h.update(b"S" + repr(x).encode())
    feed(r)
    return h.hexdigest()[:24]


# ------------------------------------------------------------------ shared data
def make_pool(rng):
    n = 8
    yy, xx = np.indices((n, n))
    P = {}
    P["IMG"] = rng.integers(1, 9, size=(n, n)).astype(float) + np.exp(-((xx - 3.5) ** 2 + (yy - 4.0) ** 2) / 4.0)
    P["IMG2"] = rng.integers(1, 9, size=(n, n)).astype(float)
    P["STACK"] = rng.integers(1, 9, size=(3, n, n)).astype(float) + rng.random((3, n, n))
    P["QUAD"] = rng.random((3, 2, 2))
    P["FIELD"] = rng.standard_normal((n, n)) + 1j * rng.standard_normal((n, n))
    P["FSTACK"] = rng.standard_normal((2, n, n)) + 1j * rng.standard_normal((2, n, n))
    P["VECC"] = rng.standard_normal(n) + 1j * rng.standard_normal(n)
    P["VECR"] = rng.standard_normal(n)
    P["HALF"] = rng.standard_normal((n, n // 2 + 1)) + 1j * rng.standard_normal((n, n // 2 + 1))
    P["H"] = np.linspace(0.0, 14000.0, n) + rng.random(n)
    P["CN2"] = (1.0 + rng.random(n)) * 1e-15
    P["CN2B"] = (1.0 + rng.random((3, n))) * 1e-15
    P["W"] = 5.0 + 10 * rng.random(n)
    P["R0S"] = 0.1 + 0.1 * rng.random(5)
    P["SEE"] = 0.5 + rng.random(5)
    P["RAD"] = 0.05 + rng.random((4, 3))
    P["SLOPES"] = rng.standard_normal((16, 6))
    P["SLOPESB"] = rng.standard_normal((2, 16, 6))
    P["PHASE"] = rng.standard_normal((12, 12))
    P["MASK"] = ((xx - 3.5) ** 2 + (yy - 3.5) ** 2 <= 16).astype(float)
    P["MASK4"] = np.array([[0, 1, 1, 0], [1, 1, 1, 1], [1, 1, 1, 1], [0, 1, 1, 0]], dtype=float)
    P["SLDATA"] = rng.standard_normal((2, 2, 12))
    P["SUBPOS"] = np.array([[0.0, 2.0], [2.0, 2.0], [4.0, 4.0]])
    P["POS1"] = rng.random((4, 2)) * 4
    P["POS2"] = rng.random((4, 2)) * 4
    P["SEP"] = rng.random((4, 4, 2)) * 3 + 0.1
    g = rng.standard_normal((12, 12))
    P["COV"] = g.dot(g.T) + 12 * np.eye(12)
    P["COV32"] = np.tril(P["COV"]).astype("float32")
    P["SEPMIX"] = np.array([0.05, 0.6, 1.9, 2.4, 2.6, 7.0, 30.0, 100.0]) * (1.0 + 0.01 * rng.random(8))
    P["SEPMIX2"] = np.array([[0.06, 0.02], [1.2, 0.9], [2.4, 0.3], [2.6, 0.1], [9.0, 4.0], [40.0, 60.0]]) * (1.0 + 0.01 * rng.random((6, 2)))
    P["CUBE4"] = rng.standard_normal((2, 3, n, n)) * 3.0 + 1.0          # (frames, sub-apertures, y, x) with negative (background-subtracted) pixels
    P["COVM"] = P["COV"] + 1e-3 * rng.standard_normal((12, 12))          # a measured covariance: symmetric only up to noise
    P["COEF"] = rng.standard_normal(6)
    P["JLIST"] = np.array([2, 5, 3])
    P["GSPOS"] = np.array([[0.0, 0.0], [20.0, 10.0]])
    P["LAYR0"] = np.array([0.2, 0.4])
    # scalar parameters handed over as arrays (0-d and 1-element): "every array argument" includes these
    sepz = rng.random((5, 5)) * 3
    sepz = np.abs(sepz - sepz.T)                         # a separation matrix: exact zeros on the diagonal
    P["SEPZ"] = sepz
    P["STACK3C"] = rng.standard_normal((3, n, n)) + 1j * rng.standard_normal((3, n, n))
    P["VSTACK3"] = rng.standard_normal((3, n))
    P["S_DELTA"] = np.array(0.1)
    P["S_DF"] = np.array([1.25])
    P["S_WVL"] = np.array(500e-9)
    P["S_D1"] = np.array(0.01)
    P["S_Z"] = np.array([100.0])
    P["S_R0"] = np.array(0.15)
    P["S_L0"] = np.array(20.0)
    P["S_LAM"] = np.array([6e-7])
    P["S_TH"] = np.array(0.2)
    P["S_RAD"] = np.array(3.0)
    return P


# ------------------------------------------------------------------ catalogue
def catalogue(ao):
    from aotools import fouriertransform as FT, interpolation as IP, opticalpropagation as OP
    from aotools.astronomy import _astronomy as AS
    from aotools.functions import _functions as FN, karhunenLoeve as KL, pupil as PU, zernike as ZN
    from aotools.image_processing import centroiders as CE, contrast as CO, psf as PS
    from aotools.turbulence import (atmos_conversions as AC, infinitephasescreen as IS, phasescreen as PH,
                                    profile_compression as PC, slopecovariance as SC, temporal_ps as TP, turb as TB)
    from aotools.wfs import wfslib as WF
    E = []

    def add(name, fn, arrs, call, exempt=False, batch=None):
        E.append(dict(name=name, fn=fn, arrs=arrs, call=call, exempt=exempt, batch=batch))

    # astronomy
    add("astronomy.flux_to_magnitude", AS.flux_to_magnitude, ["R0S"], lambda f, a: f(float(a[0][0]) * 1e6, "V"))
    add("astronomy.magnitude_to_flux", AS.magnitude_to_flux, ["SEE"], lambda f, a: f(float(a[0][0]) * 5, "R"))
    add("astronomy.photons_per_band", AS.photons_per_band, ["MASK"], lambda f, a: f(5.0, a[0], 0.1, 0.01, "V"))
    add("astronomy.photons_per_mag", AS.photons_per_mag, ["MASK"], lambda f, a: f(5.0, a[0], 0.1, 5e-7, 0.01))
    # fourier
    for nm in ("ft", "ift"):
        add("fouriertransform." + nm, getattr(FT, nm), ["VECC"], lambda f, a: f(a[0], 0.1))
    for nm in ("ft2", "ift2"):
        add("fouriertransform." + nm, getattr(FT, nm), ["FIELD"], lambda f, a: f(a[0], 0.1))
        add("fouriertransform.%s[batch]" % nm, getattr(FT, nm), ["FSTACK"], lambda f, a: f(a[0], 0.1),
            batch=dict(n=2, single=lambda f, a, i: f(a[0][i], 0.1), item=lambda r, i: r[i]))
    add("fouriertransform.rft", FT.rft, ["VECR"], lambda f, a: f(a[0], 0.1))
    add("fouriertransform.irft", FT.irft, ["VECC"], lambda f, a: f(a[0], 0.1))
    add("fouriertransform.rft2", FT.rft2, ["IMG"], lambda f, a: f(a[0], 0.1))
    add("fouriertransform.irft2", FT.irft2, ["HALF"], lambda f, a: f(a[0], 0.1))
    # functions
    add("functions.gaussian2d", FN.gaussian2d, [], lambda f, a: f(8, 2.0))
    add("functions.gaussian2d[tuple]", FN.gaussian2d, ["R0S"], lambda f, a: f((8, 6), (2.0, 3.0), cent=(3.0, a[0][0])))
    add("functions.circle", PU.circle, [], lambda f, a: f(3, 8))
    add("functions.circle[corner]", PU.circle, [], lambda f, a: f(2.5, 8, (3.0, 4.5), origin="corner"))
    add("zernike.makegammas", ZN.makegammas, [], lambda f, a: f(3))
    add("zernike.phaseFromZernikes", ZN.phaseFromZernikes, ["COEF"], lambda f, a: f(a[0], 8))
    add("zernike.zernIndex", ZN.zernIndex, [], lambda f, a: f(7))
    add("zernike.zernikeArray", ZN.zernikeArray, [], lambda f, a: f(6, 8))
    add("zernike.zernikeArray[list]", ZN.zernikeArray, ["JLIST"], lambda f, a: f(a[0], 8),
        batch=dict(n=3, single=lambda f, a, i: f([int(a[0][i])], 8)[0], item=lambda r, i: r[i]))
    add("zernike.zernikeArray[rms]", ZN.zernikeArray, [], lambda f, a: f(4, 8, norm="rms"))
    add("zernike.zernikeRadialFunc", ZN.zernikeRadialFunc, ["RAD"], lambda f, a: f(3, 1, a[0]))
    add("zernike.zernike_nm", ZN.zernike_nm, [], lambda f, a: f(3, 1, 8))
    add("zernike.zernike_noll", ZN.zernike_noll, [], lambda f, a: f(5, 8, 0.3))
    # Karhunen-Loeve
    add("karhunenLoeve.stf_kolmogorov", KL.stf_kolmogorov, ["RAD"], lambda f, a: f(a[0]))
    add("karhunenLoeve.stf_vonKarman", KL.stf_vonKarman, ["RAD"], lambda f, a: f(a[0], 10.0))
    add("karhunenLoeve.stf_vonKarman_yao", KL.stf_vonKarman_yao, ["RAD"], lambda f, a: f(a[0], 10.0))
    add("karhunenLoeve.gkl_radii", KL.gkl_radii, [], lambda f, a: f(0.2, 8))
    add("karhunenLoeve.polang", KL.polang, ["RAD"], lambda f, a: f(a[0]))
    add("karhunenLoeve.rebin", KL.rebin, ["IMG"], lambda f, a: f(a[0], (4, 4)))
    add("karhunenLoeve.piston_orth", KL.piston_orth, [], lambda f, a: f(5))
    add("karhunenLoeve.radii", KL.radii, [], lambda f, a: f(4, 6, 0.2))
    add("karhunenLoeve.gkl_azimuthal", KL.gkl_azimuthal, [], lambda f, a: f(3, 8))
    add("karhunenLoeve.make_kl", KL.make_kl, [], lambda f, a: f(6, 16, ri=0.25, nr=8))
    # image processing
    add("centroiders.brightest_pixel", CE.brightest_pixel, ["IMG"], lambda f, a: f(a[0], 0.3))
    add("centroiders.brightest_pixel[stack]", CE.brightest_pixel, ["STACK"], lambda f, a: f(a[0], 0.3),
        batch=dict(n=3, single=lambda f, a, i: f(a[0][i].copy(), 0.3), item=lambda r, i: r[:, i]))
    add("centroiders.centre_of_gravity", CE.centre_of_gravity, ["IMG"], lambda f, a: f(a[0], threshold=0.2))
    add("centroiders.centre_of_gravity[stack]", CE.centre_of_gravity, ["STACK"], lambda f, a: f(a[0], threshold=0.2),
        batch=dict(n=3, single=lambda f, a, i: f(a[0][i].copy(), threshold=0.2), item=lambda r, i: r[:, i]))
    add("centroiders.brightest_pixel[rank-4]", CE.brightest_pixel, ["CUBE4"], lambda f, a: f(a[0], 0.3))
    add("centroiders.centre_of_gravity[rank-4]", CE.centre_of_gravity, ["CUBE4"], lambda f, a: f(a[0], threshold=0.2))
    add("centroiders.quadCell[rank-4]", CE.quadCell, ["CUBE4"], lambda f, a: f(a[0][..., :2, :2]))
    add("centroiders.centre_of_gravity[min_threshold]", CE.centre_of_gravity, ["STACK"], lambda f, a: f(a[0], threshold=0.1, min_threshold=2.0),
        batch=dict(n=3, single=lambda f, a, i: f(a[0][i].copy(), threshold=0.1, min_threshold=2.0), item=lambda r, i: r[:, i]))
    add("centroiders.correlation_centroid[stack]", CE.correlation_centroid, ["STACK", "IMG2"], lambda f, a: f(a[0], a[1], 0.1, 2),
        batch=dict(n=3, single=lambda f, a, i: f(a[0][i:i + 1].copy(), a[1].copy(), 0.1, 2)[:, 0], item=lambda r, i: r[:, i]))
    add("centroiders.correlation_centroid[2d]", CE.correlation_centroid, ["IMG", "IMG2"], lambda f, a: f(a[0], a[1], 0.1, 1))
    add("centroiders.cross_correlate", CE.cross_correlate, ["IMG", "IMG2"], lambda f, a: f(a[0], a[1], padding=2))
    add("centroiders.quadCell", CE.quadCell, ["QUAD"], lambda f, a: f(a[0]),
        batch=dict(n=3, single=lambda f, a, i: f(a[0][i]), item=lambda r, i: r[:, i]))
    add("contrast.image_contrast", CO.image_contrast, ["IMG"], lambda f, a: f(a[0]))
    add("contrast.rms_contrast", CO.rms_contrast, ["IMG"], lambda f, a: f(a[0]))
    add("psf.azimuthal_average", PS.azimuthal_average, ["IMG"], lambda f, a: f(a[0]))
    add("psf.encircled_energy", PS.encircled_energy, ["IMG"], lambda f, a: f(a[0], fraction=0.4))
    add("psf.encircled_energy[curve]", PS.encircled_energy, ["IMG"], lambda f, a: f(a[0], eeDiameter=False, center=[4, 3]))
    # interpolation
    add("interpolation.binImgs", IP.binImgs, ["IMG"], lambda f, a: f(a[0], 2))
    add("interpolation.binImgs[stack]", IP.binImgs, ["STACK"], lambda f, a: f(a[0], 2),
        batch=dict(n=3, single=lambda f, a, i: f(a[0][i], 2), item=lambda r, i: r[i]))
    add("interpolation.zoom", IP.zoom, ["IMG"], lambda f, a: f(a[0], (12, 12)))
    add("interpolation.zoom[complex]", IP.zoom, ["FIELD"], lambda f, a: f(a[0], (11, 11), order=1))
    add("interpolation.zoom_rbs", IP.zoom_rbs, ["IMG"], lambda f, a: f(a[0], (12, 10), order=3))
    add("interpolation.zoom_rbs[complex]", IP.zoom_rbs, ["FIELD"], lambda f, a: f(a[0], (9, 9), order=2))
    # optical propagation
    add("opticalpropagation.angularSpectrum", OP.angularSpectrum, ["FIELD"], lambda f, a: f(a[0], 500e-9, 0.01, 0.02, 100.0))
    add("opticalpropagation.angularSpectrum[z=0]", OP.angularSpectrum, ["FIELD"], lambda f, a: f(a[0], 500e-9, 0.01, 0.01, 0))
    add("opticalpropagation.oneStepFresnel", OP.oneStepFresnel, ["FIELD"], lambda f, a: f(a[0], 500e-9, 0.01, 100.0))
    add("opticalpropagation.twoStepFresnel", OP.twoStepFresnel, ["FIELD"], lambda f, a: f(a[0], 500e-9, 0.01, 0.02, 100.0))
    add("opticalpropagation.lensAgainst", OP.lensAgainst, ["FIELD"], lambda f, a: f(a[0], 500e-9, 0.01, 1.0))
    # atmosphere conversions
    add("atmos.cn2_to_r0", AC.cn2_to_r0, ["CN2"], lambda f, a: f(a[0] * 1e2))
    add("atmos.cn2_to_seeing", AC.cn2_to_seeing, ["CN2"], lambda f, a: f(a[0] * 1e2, 6e-7))
    add("atmos.coherenceTime", AC.coherenceTime, ["CN2", "W"], lambda f, a: f(a[0], a[1]))
    add("atmos.coherenceTime[batch]", AC.coherenceTime, ["CN2B", "W"], lambda f, a: f(a[0], a[1], axis=-1),
        batch=dict(n=3, single=lambda f, a, i: f(a[0][i], a[1]), item=lambda r, i: r[i]))
    add("atmos.isoplanaticAngle", AC.isoplanaticAngle, ["CN2", "H"], lambda f, a: f(a[0], a[1]))
    add("atmos.isoplanaticAngle[batch]", AC.isoplanaticAngle, ["CN2B", "H"], lambda f, a: f(a[0].T, a[1][:, None], axis=0),
        batch=dict(n=3, single=lambda f, a, i: f(a[0][i], a[1]), item=lambda r, i: r[i]))
    add("atmos.rytov_variance", AC.rytov_variance, ["CN2", "H"], lambda f, a: f(a[0], a[1]))
    add("atmos.r0_from_slopes", AC.r0_from_slopes, ["SLOPES"], lambda f, a: f(a[0], 5e-7, 0.5))
    add("atmos.r0_to_cn2", AC.r0_to_cn2, ["R0S"], lambda f, a: f(a[0]))
    add("atmos.r0_to_seeing", AC.r0_to_seeing, ["R0S"], lambda f, a: f(a[0], 7e-7))
    add("atmos.seeing_to_cn2", AC.seeing_to_cn2, ["SEE"], lambda f, a: f(a[0]))
    add("atmos.seeing_to_r0", AC.seeing_to_r0, ["SEE"], lambda f, a: f(a[0]))
    add("atmos.slope_variance_from_r0", AC.slope_variance_from_r0, ["R0S"], lambda f, a: f(a[0], 5e-7, 0.5))
    # screens
    add("infinitephasescreen.find_allowed_size", IS.find_allowed_size, [], lambda f, a: f(10))
    add("infinitephasescreen.PhaseScreenVonKarman[seeded]", IS.PhaseScreenVonKarman, [], lambda f, a: _rows(f(4, 0.5, 0.2, 20.0, random_seed=3)))
    add("infinitephasescreen.PhaseScreenKolmogorov[seeded]", IS.PhaseScreenKolmogorov, [],
        lambda f, a: _rows(f(4, 0.5, 0.2, 20.0, random_seed=4, stencil_length_factor=2)))
    add("infinitephasescreen.PhaseScreenVonKarman[seed 0]", IS.PhaseScreenVonKarman, [], lambda f, a: _rows(f(4, 0.5, 0.2, 20.0, random_seed=0)))
    add("infinitephasescreen.PhaseScreenKolmogorov[seed 0]", IS.PhaseScreenKolmogorov, [],
        lambda f, a: _rows(f(4, 0.5, 0.2, 20.0, random_seed=0, stencil_length_factor=2)))
    add("phasescreen.ft_phase_screen[seed 0]", PH.ft_phase_screen, [], lambda f, a: f(0.15, 8, 0.1, 20.0, 0.01, seed=0))
    add("phasescreen.ft_sh_phase_screen[seed 0]", PH.ft_sh_phase_screen, [], lambda f, a: f(0.15, 8, 0.1, 20.0, 0.01, seed=0))
    add("infinitephasescreen.PhaseScreenVonKarman[unseeded]", IS.PhaseScreenVonKarman, [], lambda f, a: _rows(f(4, 0.5, 0.2, 20.0)), exempt=True)
    add("phasescreen.ft_phase_screen[seeded]", PH.ft_phase_screen, [], lambda f, a: f(0.15, 8, 0.1, 20.0, 0.01, seed=1))
    add("phasescreen.ft_sh_phase_screen[seeded]", PH.ft_sh_phase_screen, [], lambda f, a: f(0.15, 8, 0.1, 20.0, 0.01, seed=2))
    add("phasescreen.ft_phase_screen[unseeded]", PH.ft_phase_screen, [], lambda f, a: f(0.15, 8, 0.1, 20.0, 0.01), exempt=True)
    add("phasescreen.ft_sh_phase_screen[unseeded]", PH.ft_sh_phase_screen, [], lambda f, a: f(0.15, 8, 0.1, 20.0, 0.01), exempt=True)
    add("phasescreen.ift2", PH.ift2, ["FIELD"], lambda f, a: f(a[0], 1))
    # profile compression
    add("profile_compression.GCTM", PC.GCTM, ["H", "CN2"], lambda f, a: f(a[0], a[1], 2))
    add("profile_compression.equivalent_layers", PC.equivalent_layers, ["H", "CN2"], lambda f, a: f(a[0], a[1], 3))
    add("profile_compression.equivalent_layers[wind]", PC.equivalent_layers, ["H", "CN2", "W"], lambda f, a: f(a[0], a[1], 3, a[2]))
    add("profile_compression.optimal_grouping", PC.optimal_grouping, ["H", "CN2"], lambda f, a: f(2, 3, a[0], a[1]), exempt=True)
    # slope covariance
    add("slopecovariance.calculate_structure_function", SC.calculate_structure_function, ["PHASE"], lambda f, a: f(a[0], nbOfPoint=4, step=2))
    add("slopecovariance.calculate_wfs_seperations", SC.calculate_wfs_seperations, ["POS1", "POS2"], lambda f, a: f(4, 4, a[0], a[1]))
    for nm in ("ft", "ift", "ft2", "ift2"):          # the same transforms under the names the PACKAGE exports
        if hasattr(ao, nm):
            add("aotools.%s[batch]" % nm, getattr(ao, nm), ["FSTACK"], lambda f, a: f(a[0], 0.1),
                batch=dict(n=2, single=lambda f, a, i: f(a[0][i], 0.1), item=lambda r, i: r[i]))
    for nm in ("xx", "yy", "xy"):
        add("slopecovariance.compute_covariance_" + nm, getattr(SC, "compute_covariance_" + nm), ["SEP"],
            lambda f, a: f(a[0], 0.5, 0.4, 0.15, 25.0))
    add("slopecovariance.create_tomographic_covariance_reconstructor", SC.create_tomographic_covariance_reconstructor, ["COV"],
        lambda f, a: f(a[0], 2))
    add("slopecovariance.create_tomographic_covariance_reconstructor[cond]", SC.create_tomographic_covariance_reconstructor, ["COV"],
        lambda f, a: f(a[0], 2, 0.05))
    add("slopecovariance.mirror_covariance_matrix", SC.mirror_covariance_matrix, ["COV32"], lambda f, a: f(a[0]))
    add("slopecovariance.create_tomographic_covariance_reconstructor[measured-covariance]", SC.create_tomographic_covariance_reconstructor, ["COVM"],
        lambda f, a: f(a[0], 2, 0.01))
    add("slopecovariance.create_tomographic_covariance_reconstructor[measured-covariance,cond0]", SC.create_tomographic_covariance_reconstructor, ["COVM"],
        lambda f, a: f(a[0], 2))
    add("slopecovariance.structure_function_kolmogorov", SC.structure_function_kolmogorov, ["RAD"], lambda f, a: f(a[0], 0.15))
    add("slopecovariance.structure_function_vk", SC.structure_function_vk, ["RAD"], lambda f, a: f(a[0], 0.15, 25.0))
    # separations on both sides of every plausible regime boundary in ONE array (0.002 L0 ... 4 L0): item-wise = each value alone
    for nm in ("structure_function_vk", "compute_covariance_xx", "compute_covariance_xy"):
        fn_ = getattr(SC, nm)
        if nm == "structure_function_vk":
            add("slopecovariance.%s[mixed-separations]" % nm, fn_, ["SEPMIX"], lambda f, a: f(a[0], 0.15, 25.0),
                batch=dict(n=8, single=lambda f, a, i: f(a[0][i:i + 1].copy(), 0.15, 25.0)[0], item=lambda r, i: r[i]))
        else:
            add("slopecovariance.%s[mixed-separations]" % nm, fn_, ["SEPMIX2"], lambda f, a: f(a[0], 0.5, 0.4, 0.15, 25.0),
                batch=dict(n=6, single=lambda f, a, i: f(a[0][i:i + 1].copy(), 0.5, 0.4, 0.15, 25.0)[0], item=lambda r, i: r[i]))
    add("slopecovariance.wfs_covariance", SC.wfs_covariance, ["POS1", "POS2"], lambda f, a: f(4, 4, a[0], a[1], 0.5, 0.5, 0.15, 25.0))
    add("slopecovariance.wfs_covariance_mpwrap", SC.wfs_covariance_mpwrap, ["POS1", "POS2"],
        lambda f, a: f((4, 4, a[0], a[1], 0.5, 0.5, 0.15, 25.0)))
    add("slopecovariance.CovarianceMatrix", SC.CovarianceMatrix, ["MASK4", "GSPOS", "LAYR0"], lambda f, a: _covmat(f, a, 1))
    add("slopecovariance.CovarianceMatrix[rebuild+tomo]", SC.CovarianceMatrix, ["MASK4", "GSPOS", "LAYR0"], lambda f, a: _covmat(f, a, 1, True))
    add("slopecovariance.CovarianceMatrix[two workers = one]", SC.CovarianceMatrix, ["MASK4", "GSPOS", "LAYR0"], lambda f, a: [_covmat(f, a, 2)],
        batch=dict(n=1, single=lambda f, a, i: _covmat(f, a, 1), item=lambda r, i: r[i]))
    # (last of its family on purpose: in the reversed call order of the cross-process trace this system is the FIRST one a fresh
    #  interpreter builds, in the natural order it comes after systems with more sub-apertures)
    add("slopecovariance.CovarianceMatrix[vignetted]", SC.CovarianceMatrix, ["MASK4", "GSPOS", "LAYR0"], lambda f, a: _covmat(f, a, 1, False, True))
    # temporal power spectra
    add("temporal_ps.calc_slope_temporalps", TP.calc_slope_temporalps, ["SLOPES"], lambda f, a: f(a[0]))
    add("temporal_ps.calc_slope_temporalps[batch]", TP.calc_slope_temporalps, ["SLOPESB"], lambda f, a: f(a[0]),
        batch=dict(n=2, single=lambda f, a, i: f(a[0][i])[0], item=lambda r, i: r[0][i]))
    add("temporal_ps.get_tps_time_axis", TP.get_tps_time_axis, [], lambda f, a: f(100.0, 16))
    add("temporal_ps.fit_tps", TP.fit_tps, ["SLOPES"], lambda f, a: _fit(f, TP, a[0]))
    add("turb.phase_covariance", TB.phase_covariance, ["RAD"], lambda f, a: f(a[0], 0.2, 20.0))
    # wfs
    add("wfslib.computeFillFactor", WF.computeFillFactor, ["MASK", "SUBPOS"], lambda f, a: f(a[0], a[1], 2))
    add("wfslib.findActiveSubaps", WF.findActiveSubaps, ["MASK"], lambda f, a: f(4, a[0], 0.5, returnFill=True))
    add("wfslib.make_subaps_2d", WF.make_subaps_2d, ["SLDATA", "MASK4"], lambda f, a: f(a[0], a[1]))
    # variants: same array size, one scalar changed at a time (a cache keyed on too few parameters makes these order dependent)
    for k, (r0, dl, L0, l0) in enumerate([(0.3, 0.1, 20.0, 0.01), (0.15, 0.2, 20.0, 0.01), (0.15, 0.1, 5.0, 0.01), (0.15, 0.1, 20.0, 0.05)]):
        add("phasescreen.ft_phase_screen[seeded,v%d]" % k, PH.ft_phase_screen, [], lambda f, a, q=(r0, dl, L0, l0): f(q[0], 8, q[1], q[2], q[3], seed=1))
        add("phasescreen.ft_sh_phase_screen[seeded,v%d]" % k, PH.ft_sh_phase_screen, [], lambda f, a, q=(r0, dl, L0, l0): f(q[0], 8, q[1], q[2], q[3], seed=2))
    for k, (wvl, d1, d2, z) in enumerate([(600e-9, 0.01, 0.02, 100.0), (500e-9, 0.02, 0.02, 100.0), (500e-9, 0.01, 0.01, 100.0), (500e-9, 0.01, 0.02, -50.0)]):
        add("opticalpropagation.angularSpectrum[v%d]" % k, OP.angularSpectrum, ["FIELD"], lambda f, a, q=(wvl, d1, d2, z): f(a[0], *q))
        add("opticalpropagation.twoStepFresnel[v%d]" % k, OP.twoStepFresnel, ["FIELD"], lambda f, a, q=(wvl, d1, d2, z): f(a[0], *q))
        add("opticalpropagation.oneStepFresnel[v%d]" % k, OP.oneStepFresnel, ["FIELD"], lambda f, a, q=(wvl, d1, d2, z): f(a[0], q[0], q[1], q[3]))
        add("opticalpropagation.lensAgainst[v%d]" % k, OP.lensAgainst, ["FIELD"], lambda f, a, q=(wvl, d1, d2, z): f(a[0], q[0], q[1], abs(q[3]) / 50.0))
    for k, (rad, cen, org) in enumerate([(3, (0, 0), "corner"), (3, (1.0, 0.5), "middle"), (2, (4.0, 4.0), "corner"), (3.5, (0, 0), "middle")]):
        add("functions.circle[v%d]" % k, PU.circle, [], lambda f, a, q=(rad, cen, org): f(q[0], 8, q[1], origin=q[2]))
    for k, (j, n, rot) in enumerate([(5, 8, 0.0), (6, 8, 0.3), (5, 9, 0.3), (12, 8, 0.3)]):
        add("zernike.zernike_noll[v%d]" % k, ZN.zernike_noll, [], lambda f, a, q=(j, n, rot): f(*q))
    add("zernike.phaseFromZernikes[rot,rms]", ZN.phaseFromZernikes, ["COEF"], lambda f, a: f(a[0], 8, norm="rms", rot=0.4))
    for k, (ps, r0, L0) in enumerate([(0.25, 0.2, 20.0), (0.5, 0.1, 20.0), (0.5, 0.2, 40.0)]):
        add("infinitephasescreen.PhaseScreenVonKarman[seeded,v%d]" % k, IS.PhaseScreenVonKarman, [], lambda f, a, q=(ps, r0, L0): _rows(f(4, q[0], q[1], q[2], random_seed=3)))
        add("infinitephasescreen.PhaseScreenKolmogorov[seeded,v%d]" % k, IS.PhaseScreenKolmogorov, [],
            lambda f, a, q=(ps, r0, L0): _rows(f(4, q[0], q[1], q[2], random_seed=4, stencil_length_factor=2)))
    for k, (r0, L0) in enumerate([(0.3, 25.0), (0.15, 50.0)]):
        add("slopecovariance.structure_function_vk[v%d]" % k, SC.structure_function_vk, ["RAD"], lambda f, a, q=(r0, L0): f(a[0], *q))
        add("turb.phase_covariance[v%d]" % k, TB.phase_covariance, ["RAD"], lambda f, a, q=(r0, L0): f(a[0], *q))
        add("slopecovariance.wfs_covariance[v%d]" % k, SC.wfs_covariance, ["POS1", "POS2"], lambda f, a, q=(r0, L0): f(4, 4, a[0], a[1], 0.5, 0.4, *q))
    for k, (n, w) in enumerate([(8, 3.0), ((8, 8), (2.0, 2.0)), (9, 2.0)]):
        add("functions.gaussian2d[v%d]" % k, FN.gaussian2d, [], lambda f, a, q=(n, w): f(*q))
    for k, band in enumerate(["r", "R", "i", "I", "K"]):
        add("astronomy.magnitude_to_flux[%s]" % band, AS.magnitude_to_flux, [], lambda f, a, b=band: f(4.0, b))
        add("astronomy.flux_to_magnitude[%s]" % band, AS.flux_to_magnitude, [], lambda f, a, b=band: f(2.5e5, b))
    # separations containing exact zeros (diagonal of a separation matrix)
    add("turb.phase_covariance[zeros]", TB.phase_covariance, ["SEPZ"], lambda f, a: f(a[0], 0.2, 20.0))
    add("slopecovariance.structure_function_vk[zeros]", SC.structure_function_vk, ["SEPZ"], lambda f, a: f(a[0], 0.15, 25.0))
    add("slopecovariance.structure_function_kolmogorov[zeros]", SC.structure_function_kolmogorov, ["SEPZ"], lambda f, a: f(a[0], 0.15))
    add("karhunenLoeve.stf_vonKarman[zeros]", KL.stf_vonKarman, ["SEPZ"], lambda f, a: f(a[0], 10.0))
    # leading batch axes of odd length (a roll by n//2 applied twice does not cancel for odd n)
    for nm in ("ft2", "ift2"):
        add("fouriertransform.%s[batch3]" % nm, getattr(FT, nm), ["STACK3C"], lambda f, a: f(a[0], 0.1),
            batch=dict(n=3, single=lambda f, a, i: f(a[0][i], 0.1), item=lambda r, i: r[i]))
    add("fouriertransform.rft2[batch3]", FT.rft2, ["STACK"], lambda f, a: f(a[0], 0.1),
        batch=dict(n=3, single=lambda f, a, i: f(a[0][i], 0.1), item=lambda r, i: r[i]))
    for nm, arr in (("ft", "STACK3C"), ("ift", "STACK3C"), ("rft", "VSTACK3")):
        add("fouriertransform.%s[batch3]" % nm, getattr(FT, nm), [arr], lambda f, a: f(a[0][:, 0] if a[0].ndim == 3 else a[0], 0.1),
            batch=dict(n=3, single=lambda f, a, i: f((a[0][:, 0] if a[0].ndim == 3 else a[0])[i], 0.1), item=lambda r, i: r[i]))
    add("centroiders.cross_correlate[stack-frames]", CE.cross_correlate, ["STACK", "IMG2"], lambda f, a: [f(fr, a[1], padding=1) for fr in a[0]])
    # scalar parameters passed as arrays
    for nm in ("ft", "ift", "rft"):
        add("fouriertransform.%s[array-spacing]" % nm, getattr(FT, nm), ["VECC" if nm != "rft" else "VECR", "S_DELTA"], lambda f, a: f(a[0], a[1]))
    for nm in ("ft2", "ift2", "rft2"):
        add("fouriertransform.%s[array-spacing]" % nm, getattr(FT, nm), ["FIELD" if nm != "rft2" else "IMG", "S_DF"], lambda f, a: f(a[0], a[1]))
    add("opticalpropagation.angularSpectrum[array-scalars]", OP.angularSpectrum, ["FIELD", "S_WVL", "S_D1", "S_Z"], lambda f, a: f(a[0], a[1], a[2], 2 * a[2], a[3]))
    add("opticalpropagation.oneStepFresnel[array-scalars]", OP.oneStepFresnel, ["FIELD", "S_WVL", "S_D1", "S_Z"], lambda f, a: f(a[0], a[1], a[2], a[3]))
    add("opticalpropagation.twoStepFresnel[array-scalars]", OP.twoStepFresnel, ["FIELD", "S_WVL", "S_D1", "S_Z"], lambda f, a: f(a[0], a[1], a[2], 2 * a[2], a[3]))
    add("opticalpropagation.lensAgainst[array-scalars]", OP.lensAgainst, ["FIELD", "S_WVL", "S_D1", "S_Z"], lambda f, a: f(a[0], a[1], a[2], a[3]))
    add("phasescreen.ft_phase_screen[array-scalars]", PH.ft_phase_screen, ["S_R0", "S_DELTA", "S_L0"], lambda f, a: f(a[0], 8, a[1], a[2], 0.01, seed=5))
    add("phasescreen.ft_sh_phase_screen[array-scalars]", PH.ft_sh_phase_screen, ["S_R0", "S_DELTA", "S_L0"], lambda f, a: f(a[0], 8, a[1], a[2], 0.01, seed=5))
    add("atmos.cn2_to_seeing[array-lamda]", AC.cn2_to_seeing, ["CN2", "S_LAM"], lambda f, a: f(a[0] * 1e2, a[1]))
    add("atmos.seeing_to_cn2[array-lamda]", AC.seeing_to_cn2, ["SEE", "S_LAM"], lambda f, a: f(a[0], a[1]))
    add("atmos.isoplanaticAngle[array-lamda]", AC.isoplanaticAngle, ["CN2", "H", "S_LAM"], lambda f, a: f(a[0], a[1], a[2]))
    add("atmos.slope_variance_from_r0[array-scalars]", AC.slope_variance_from_r0, ["R0S", "S_LAM", "S_D1"], lambda f, a: f(a[0], a[1], a[2]))
    add("centroiders.centre_of_gravity[array-threshold]", CE.centre_of_gravity, ["IMG", "S_TH"], lambda f, a: f(a[0], threshold=a[1]))
    add("centroiders.correlation_centroid[array-threshold]", CE.correlation_centroid, ["STACK", "IMG2", "S_TH"], lambda f, a: f(a[0], a[1], a[2], 1))
    add("functions.circle[array-radius]", PU.circle, ["S_RAD"], lambda f, a: f(a[0], 8))
    add("slopecovariance.structure_function_vk[array-scalars]", SC.structure_function_vk, ["RAD", "S_R0", "S_L0"], lambda f, a: f(a[0], a[1], a[2]))
    add("turb.phase_covariance[array-scalars]", TB.phase_covariance, ["RAD", "S_R0", "S_L0"], lambda f, a: f(a[0], a[1], a[2]))
    add("slopecovariance.create_tomographic_covariance_reconstructor[array-cond]", SC.create_tomographic_covariance_reconstructor, ["COV", "S_TH"],
        lambda f, a: f(a[0], 2, a[1]))
    not_called = {
        "temporal_ps.plot_tps": "opens a matplotlib figure and calls pyplot.show()",
        "karhunenLoeve.gkl_basis/gkl_fcom/gkl_kernel/gkl_sfi/pcgeom/pol2car/set_pctr/setpincs": "pipeline stages exercised through make_kl",
        "infinitephasescreen.PhaseScreen": "abstract base class (no constructor arguments)",
    }
    return E, not_called


def _rows(obj):
    out = [np.array(obj.scrn, copy=True)]
    for _ in range(2):
        out.append(np.array(obj.add_row(), copy=True))
    return out


def _covmat(cls, a, threads, again=False, vignetted=False):
    mask, gspos, r0s = a
    if vignetted:                       # another system in the same process: fewer active sub-apertures on both sensors
        mask = np.array(mask, copy=True)
        mask[1, 0] = mask[2, 3] = 0
    cm = cls(2, np.array([mask, mask]), 4.0, np.array([1.0, 1.0]), np.array([0.0, 90000.0]), gspos, np.array([5e-7, 6e-7]),
             2, np.array([0.0, 5000.0]), r0s, np.array([25.0, 25.0]), threads=threads)
    m1 = np.array(cm.make_covariance_matrix(), copy=True)
    if not again:
        return m1
    m2 = np.array(cm.make_covariance_matrix(), copy=True)
    return [m1, m2, np.array(cm.make_tomographic_reconstructor(0.01), copy=True)]


def _fit(f, TP, slopes):
    tps, err = TP.calc_slope_temporalps(slopes)
    t = TP.get_tps_time_axis(100.0, slopes.shape[0])
    with contextlib.redirect_stdout(io.StringIO()):
        return f(tps[1:], t[1:], 0.5)


VARIANT_BUDGET = {}


def _strided(a):
    if a.ndim == 0:
        return a.copy()
    big = np.zeros(a.shape[:-1] + (2 * a.shape[-1],), dtype=a.dtype)
    view = big[..., ::2]
    view[...] = a
    return view


def _readonly(a):
    b = a.copy()
    b.flags.writeable = False
    return b


def _poisoned(a):
    """the same array with one not-a-number and one infinite element (a dead and a saturated pixel), float / complex arrays only"""
    b = np.array(a, copy=True)
    if b.dtype.kind in "fc" and b.size >= 2:
        b.flat[b.size // 3] = np.nan
        b.flat[(2 * b.size) // 3] = np.inf
    return b


_SCRIBBLES = [0]


def _scribble(obj, pools):
    """overwrite every writeable array inside a returned object (unless it is, or is a view of, one of the caller's own arrays)"""
    done = 0
    if isinstance(obj, np.ndarray):
        if obj.flags.writeable and obj.size and not any(np.shares_memory(obj, a) for pl in pools for a in pl.values() if isinstance(a, np.ndarray)):
            if obj.dtype.kind == "b":
                np.logical_not(obj, out=obj)
            elif obj.dtype.kind in "iufc":
                _SCRIBBLES[0] += 1            # never the same garbage twice (an earlier scribble must not hide a later one)
                obj[...] = (np.arange(obj.size).reshape(obj.shape) % 7 + 3 * _SCRIBBLES[0]).astype(obj.dtype)
            else:
                return 0
            done = 1
    elif isinstance(obj, (tuple, list)):
        for x in obj:
            done += _scribble(x, pools)
    return done


LAYOUTS = [("fortran-order", lambda a: np.asfortranarray(a) if a.ndim >= 2 else a.copy()), ("strided-view", _strided), ("read-only", _readonly)]


def _close(r1, r2):
    if isinstance(r1, (tuple, list)):
        return isinstance(r2, (tuple, list)) and len(r1) == len(r2) and all(_close(a, b) for a, b in zip(r1, r2))
    if hasattr(r1, "scrn") or hasattr(r1, "covariance_matrix"):
        return True
    try:
        a, b = np.asarray(r1), np.asarray(r2)
        if a.shape != b.shape:
            return False
        if a.dtype.kind in "fc" or b.dtype.kind in "fc":
            fin = np.abs(a[np.isfinite(a)]) if a.size else np.zeros(0)
            return bool(np.allclose(a, b, rtol=1e-9, atol=1e-12 * (fin.max() if fin.size else 0.0), equal_nan=True))      # relative to the result's own scale
        return bool(np.array_equal(a, b))
    except Exception:  # noqa
        return r1 == r2


# ------------------------------------------------------------------ recorder
class Recorder:
    def __init__(self, entries, rng, equal_pools=False):
        self.entries = entries
        seed = int(rng.integers(0, 2 ** 31 - 1))
        self.pools = [make_pool(np.random.default_rng(seed)), make_pool(np.random.default_rng(seed if equal_pools else seed + 1))]
        self.names = sorted(self.pools[0])
        self.keys = [(i, nm) for i in range(2) for nm in self.names]
        self.tok = {}
        self.events = [dict(op="pool", tokens=[self.t(arr_token(self.pools[i][nm])) for i, nm in self.keys])]
        self.findings = []
        self.returned = []          # (position of the call event in self.events, the object it returned)

    def t(self, h):
        return self.tok.setdefault(h, len(self.tok) + 1)

    def key_index(self, i, nm):
        return self.keys.index((i, nm)) + 1

    def call(self, fidx, pa, pb=None):
        e = self.entries[fidx]
        pb = pa if pb is None else pb
        src = [(pa if k == 0 else pb) for k in range(len(e["arrs"]))]
        args = [self.pools[src[k]][nm] for k, nm in enumerate(e["arrs"])]
        before = [arr_token(x) for x in args]
        gs0 = np.random.get_state()[1].tobytes()
        py0 = _pyrandom.getstate()
        err = None
        try:
            with warnings.catch_warnings():
                warnings.simplefilter("ignore")
                with np.errstate(all="ignore"), contextlib.redirect_stdout(io.StringIO()):
                    es0 = np.geterr()
                    try:
                        res = e["call"](e["fn"], args)
                    finally:
                        if np.geterr() != es0:          # process-wide floating-point error handling is hidden state too
                            self.findings.append(("hidden-global-numpy-errstate:" + e["name"], dict(entry=e["name"], before=es0, after=np.geterr())))
        except Exception as ex:  # noqa
            res, err = ("raised", type(ex).__name__), repr(ex)[:160]
        after = [arr_token(x) for x in args]
        if _pyrandom.getstate() != py0:
            self.findings.append(("hidden-global-python-random:" + e["name"], dict(entry=e["name"])))
        if np.random.get_state()[1].tobytes() != gs0 and not e["exempt"]:
            self.findings.append(("hidden-global-rng:" + e["name"], dict(entry=e["name"])))
        ev = dict(op="call", f=fidx + 1, name=e["name"], args=[self.key_index(src[k], nm) for k, nm in enumerate(e["arrs"])],
                  before=[self.t(h) for h in before], after=[self.t(h) for h in after], res=self.t(res_token(res)),
                  exempt=bool(e["exempt"]))
        if err:
            ev["raised"] = err
        self.events.append(ev)
        if err is None and not hasattr(res, "scrn") and not hasattr(res, "covariance_matrix"):
            self.returned.append((len(self.events), res))
        if err is None and before == after and args and not e["exempt"] and VARIANT_BUDGET.get(e["name"], 0) < 2:
            # the same VALUES in another memory layout / as a read-only array: same result, and nothing may be written
            VARIANT_BUDGET[e["name"]] = VARIANT_BUDGET.get(e["name"], 0) + 1
            agree, labels = [], []
            for label, mk in LAYOUTS:
                alt = [mk(x) for x in args]
                try:
                    with warnings.catch_warnings():
                        warnings.simplefilter("ignore")
                        with np.errstate(all="ignore"), contextlib.redirect_stdout(io.StringIO()):
                            r2 = e["call"](e["fn"], alt)
                    ok = _close(res, r2) and all(np.array_equal(np.asarray(a0), np.asarray(a1)) for a0, a1 in zip(args, alt))
                except ValueError as ex:
                    ok = not ("read-only" in str(ex) or "readonly" in str(ex) or "WRITEABLE" in str(ex))
                    if ok:                       # some other ValueError for this layout: not a purity matter, do not judge
                        continue
                except Exception:  # noqa - a layout the entry point does not accept at all: not judged
                    continue
                agree.append(bool(ok))
                labels.append(label)
            # ... and with a dead (nan) and a saturated (inf) element in every floating argument: the call may return what it
            # likes (or raise), but it must still not write into its arguments and must still be a function of them
            alt = [_poisoned(x) for x in args]
            if any(not np.array_equal(a0, a1, equal_nan=True) or np.isnan(a1).any() for a0, a1 in zip(args, alt) if a1.dtype.kind in "fc"):
                keep = [arr_token(x) for x in alt]
                try:
                    with warnings.catch_warnings():
                        warnings.simplefilter("ignore")
                        with np.errstate(all="ignore"), contextlib.redirect_stdout(io.StringIO()):
                            r1 = e["call"](e["fn"], alt)
                            same_args = [arr_token(x) for x in alt] == keep
                            r2 = e["call"](e["fn"], alt)
                    ok = same_args and [arr_token(x) for x in alt] == keep and res_token(r1) == res_token(r2)
                    agree.append(bool(ok))
                    labels.append("non-finite-elements" if same_args else "read-only")      # a write is reported as a write
                except Exception:  # noqa - refusing such input is not a purity matter (but the refusal must not have written)
                    if [arr_token(x) for x in alt] != keep:
                        agree.append(False)
                        labels.append("read-only")
            if agree:
                self.events.append(dict(op="batch", f=fidx + 1, name=e["name"] + "[" + ",".join(l for l, a in zip(labels, agree) if not a) + "]"
                                        if not all(agree) else e["name"], single=[True] * len(agree), batched=agree, layouts=labels))
        if e["batch"] and err is None and before == after:
            b = e["batch"]
            agree = []
            for i in range(b["n"]):
                try:
                    with warnings.catch_warnings():
                        warnings.simplefilter("ignore")
                        with np.errstate(all="ignore"):
                            s = np.asarray(b["single"](e["fn"], [x.copy() for x in args], i))
                            bt = np.asarray(b["item"](res, i))
                    fin = np.abs(s[np.isfinite(s)]) if s.size else np.zeros(0)
                    agree.append(bool(s.shape == bt.shape and np.allclose(s, bt, rtol=1e-9, atol=1e-12 * (fin.max() if fin.size else 0.0), equal_nan=True)))
                except Exception:  # noqa
                    agree.append(False)
            self.events.append(dict(op="batch", f=fidx + 1, name=e["name"], single=[True] * b["n"], batched=agree))
        return ev

    def scribble(self, rng, which=None):
        """the caller writes into an object an earlier call returned (which: index into the calls made so far)"""
        if not self.returned:
            return
        pos, obj = self.returned[int(rng.integers(0, len(self.returned))) if which is None else which % len(self.returned)]
        if _scribble(obj, self.pools):
            self.events.append(dict(op="scribble", f=pos))

    def mutate(self, p, rng):
        nm = self.names[int(rng.integers(0, len(self.names)))]
        a = self.pools[p][nm]
        idx = tuple(int(rng.integers(0, s)) for s in a.shape)
        a[idx] = a[idx] * 1.5 + 1
        if nm in ("COV",):
            a[idx[::-1]] = a[idx]
        self.events.append(dict(op="mutate", args=[self.key_index(p, nm)], res=self.t(arr_token(a))))


def worker(order_seed, out_path):
    """fresh interpreter: call every catalogue entry once, in an order derived from order_seed; dump content hashes"""
    ao = core.import_aotools()
    entries, _ = catalogue(ao)
    pool = make_pool(np.random.default_rng(77))
    idx = list(range(len(entries)))
    if order_seed == 1:
        idx.reverse()
    elif order_seed > 1:
        idx = list(np.random.default_rng(order_seed).permutation(len(entries)))
    out = []
    for i in idx:
        e = entries[int(i)]
        args = [pool[nm] for nm in e["arrs"]]
        before = [arr_token(x) for x in args]
        try:
            with warnings.catch_warnings():
                warnings.simplefilter("ignore")
                with np.errstate(all="ignore"), contextlib.redirect_stdout(io.StringIO()):
                    res = e["call"](e["fn"], args)
        except Exception as ex:  # noqa
            res = ("raised", type(ex).__name__)
        out.append(dict(f=int(i), name=e["name"], arrs=e["arrs"], before=before, after=[arr_token(x) for x in args],
                        res=res_token(res), exempt=bool(e["exempt"])))
    with open(out_path, "w") as fh:
        json.dump(dict(pool={nm: arr_token(pool[nm]) for nm in sorted(pool)}, calls=out), fh)


def cross_process_trace(n_orders):
    """one trace made of the call events of several fresh interpreters that used different call orders: the memo of
    PurityTrace then spans processes, i.e. histories that start from a freshly imported library"""
    import subprocess
    import sys
    tmp = tempfile.mkdtemp(prefix="aoverif-c20w-")
    try:
        procs = []
        for k in range(n_orders):
            outp = os.path.join(tmp, "w%d.json" % k)
            procs.append((outp, subprocess.Popen([sys.executable, "-B", os.path.abspath(__file__), "--worker", str(k), outp],
                                                 stdout=subprocess.PIPE, stderr=subprocess.STDOUT, text=True)))
        data = []
        for outp, p in procs:
            o, _ = p.communicate(timeout=1200)
            if p.returncode != 0:
                raise core.MachineryError("purity worker failed: %s" % o[-800:])
            data.append(json.load(open(outp)))
    finally:
        shutil.rmtree(tmp, ignore_errors=True)
    tok = {}
    t = lambda h: tok.setdefault(h, len(tok) + 1)
    names = sorted(data[0]["pool"])
    events = [dict(op="pool", tokens=[t(data[0]["pool"][nm]) for nm in names])]
    for d in data:
        if d["pool"] != data[0]["pool"]:
            raise core.MachineryError("workers built different pools")
        for c in d["calls"]:
            events.append(dict(op="call", f=c["f"] + 1, name=c["name"], args=[names.index(nm) + 1 for nm in c["arrs"]],
                               before=[t(h) for h in c["before"]], after=[t(h) for h in c["after"]], res=t(c["res"]),
                               exempt=c["exempt"]))
    return events


def validate(run, traces, label):
    tmp = tempfile.mkdtemp(prefix="aoverif-c20-")
    try:
        path = os.path.join(tmp, "traces.json")
        lite = [[{k: v for k, v in ev.items() if k not in ("name", "raised", "layouts")} for ev in t] for t in traces]
        with open(path, "w") as fh:
            json.dump(lite, fh)
        r = run.tlc("PurityTrace", "PurityTrace.cfg", label=label, env={"TRACE_FILE": path}, workers=4,
                    require_actions=("TraceCall",), timeout=3000)
    finally:
        shutil.rmtree(tmp, ignore_errors=True)
    reached = {}
    for p in r.printed:
        if p.get("kind") == "progress":
            reached[p["tid"]] = max(reached.get(p["tid"], 0), p["l"])
    rejected = []
    for i, t in enumerate(traces, start=1):
        if reached.get(i, 0) != len(t) + 1:
            rejected.append((i, reached.get(i, 1)))
    return r, rejected


def explain(trace, l):
    """which clause of TraceCall / TraceBatch refuses event l (1-based)"""
    ev = trace[l - 1]
    if ev["op"] == "batch":
        if "layouts" in ev:
            bad_l = [l for l, a in zip(ev["layouts"], ev["batched"]) if not a]
            kind = "writes-into-argument" if set(bad_l) == {"read-only"} else ("not-deterministic-on-non-finite-input" if bad_l == ["non-finite-elements"] else "layout-dependent")
            return "%s:%s" % (kind, ev["name"].split("[read-only")[0]), dict(entry=ev["name"], layouts=bad_l)
        return "batch-itemwise:" + ev["name"], dict(entry=ev["name"], items_agree=ev["batched"])
    if ev["op"] == "call":
        if ev["after"] != ev["before"]:
            idx = [i for i, (a, b) in enumerate(zip(ev["before"], ev["after"])) if a != b]
            return "argument-modified:" + ev["name"], dict(entry=ev["name"], argument_positions=idx)
        scr = any(e2["op"] == "scribble" for e2 in trace[:l - 1])
        return ("result-shared-with-library-state:" if scr else "not-deterministic:") + ev["name"], \
            dict(entry=ev["name"], note="same entry point and argument contents returned a different result earlier in this program"
                 + (" (the caller had written into an earlier result)" if scr else ""), raised=ev.get("raised"))
    return "trace-rejected", dict(event=ev)


def programs_from_skeletons(skels, entries, rng, per_skeleton):
    pure = [i for i, e in enumerate(entries) if not e["exempt"]]
    exempt = [i for i, e in enumerate(entries) if e["exempt"]]
    out = []
    k = 0
    for sk in skels:
        for _ in range(per_skeleton):
            m = {1: pure[k % len(pure)], 2: pure[(k * 7 + 3) % len(pure)], 3: exempt[k % len(exempt)]}
            k += 1
            out.append([(st["op"], m.get(st["f"]) if st["op"] != "scribble" else st["f"], [a - 1 for a in st["args"]]) for st in sk])
    return out


def execute(entries, prog, rng, equal_pools=False):
    rec = Recorder(entries, rng, equal_pools)
    made = {}                                    # position in the program -> index into rec.returned
    for k, (op, f, args) in enumerate(prog, start=1):
        if op == "call":
            n0 = len(rec.returned)
            rec.call(f, args[0], args[1] if len(args) > 1 else None)
            if len(rec.returned) > n0:
                made[k] = n0
        elif op == "scribble":
            if f is None:
                rec.scribble(rng)
            elif f in made:
                rec.scribble(rng, made[f])
        else:
            rec.mutate(args[0], rng)
    return rec


def returned_arrays_stay_put(ao):
    """arrays the library handed out are not written to by LATER library calls (the converse of Scribble): frames of a screen kept
    across a few hundred add_row calls, results of stateless functions kept across repeated calls on other data"""
    from aotools.turbulence import infinitephasescreen as ips
    bad = []
    for cls, kw in ((ips.PhaseScreenVonKarman, {}), (ips.PhaseScreenKolmogorov, dict(stencil_length_factor=2))):
        obj = cls(6, 0.5, 0.2, 20.0, random_seed=8, **kw)
        kept = []
        for k in range(300):
            fr = obj.add_row() if k % 3 else obj.scrn
            if k % 3 == 0:
                obj.add_row()
            if k < 10 or k % 41 == 0:
                kept.append((k, fr, np.array(fr, copy=True)))
        changed = [k for k, a_, b_ in kept if not np.array_equal(np.asarray(a_), b_)]
        if changed:
            bad.append(("result-overwritten-by-a-later-call:%s.add_row" % cls.__name__, dict(frames_taken_at_steps=changed[:8])))
    img = np.arange(64.0).reshape(8, 8) % 7 + 1
    keep = []
    for k in range(40):
        for f in (lambda a: ao.ft2(a + 0j, 0.1), lambda a: ao.circle(2.0 + (k % 3), 8), lambda a: ao.interpolation.binImgs(a, 2), lambda a: ao.zernike_noll(4 + k % 2, 8)):
            r_ = f(img * (k + 1))
            if isinstance(r_, np.ndarray):
                keep.append((r_, r_.copy()))
    if any(not np.array_equal(a_, b_, equal_nan=True) for a_, b_ in keep):
        bad.append(("result-overwritten-by-a-later-call:stateless-functions", {}))
    return bad


def run(run):
    ao = core.import_aotools()
    quick = run.tier == "quick"
    entries, not_called = catalogue(ao)
    cfg = "Purity_quick.cfg" if quick else "Purity_thorough.cfg"
    r = run.tlc("Purity", cfg, timeout=3000)
    if r.violated:
        raise core.MachineryError("Purity.tla violates its own property %s" % r.violated)
    rng = np.random.default_rng(run.seed)
    skels, seen = [], set()
    for p in r.printed:
        key = json.dumps(p["prog"])
        if key not in seen:
            seen.add(key)
            skels.append(p["prog"])
    order = rng.permutation(len(skels))
    cap = 1500 if quick else 15000
    skels = [skels[i] for i in order[:cap]]
    saved = np.random.get_state()
    traces, findings = [], []
    try:
        for prog in programs_from_skeletons(skels, entries, rng, 1):
            rec = execute(entries, prog, rng, equal_pools=bool(rng.integers(0, 2)))
            traces.append(rec.events)
            findings += rec.findings
        n_model = len(traces)
        # long random programs: every entry point many times on shared data
        n_long = 150 if quick else 1500
        for _ in range(n_long):
            prog = []
            for _ in range(30):
                u = rng.random()
                if u < 0.12:
                    prog.append(("mutate", None, [int(rng.integers(0, 2))]))
                elif u < 0.22:
                    prog.append(("scribble", None, []))
                else:
                    prog.append(("call", int(rng.integers(0, len(entries))), [int(rng.integers(0, 2)), int(rng.integers(0, 2))]))
            rec = execute(entries, prog, rng, equal_pools=bool(rng.integers(0, 2)))
            traces.append(rec.events)
            findings += rec.findings
        # every entry point: call, the caller overwrites what it was given, the same call again
        n_scr = 0
        for f in range(len(entries)):
            if entries[f]["exempt"]:
                continue
            rec = execute(entries, [("call", f, [0, 0]), ("scribble", 1, []), ("call", f, [0, 0]), ("scribble", 3, []), ("call", f, [0, 0])], rng)
            n_scr += sum(1 for ev in rec.events if ev["op"] == "scribble")
            traces.append(rec.events)
            findings += rec.findings
    finally:
        np.random.set_state(saved)
    n_inproc = len(traces)
    traces.append(cross_process_trace(4 if quick else 8))
    rt, rejected = validate(run, traces, "PurityTrace/recorded")
    if rt.violated:
        run.violation("trace-violates-" + rt.violated, dict(note="a recorded program violates a model invariant"), dict(kind="none"))
    calls = {}
    raised = {}
    for t in traces:
        for ev in t:
            if ev["op"] == "call":
                calls[ev["name"]] = calls.get(ev["name"], 0) + 1
                if "raised" in ev:
                    raised[ev["name"]] = ev["raised"]
    for tid, l in rejected:
        key, detail = explain(traces[tid - 1], l)
        if tid == len(traces):
            run.violation(key + ":across-fresh-interpreters", dict(detail, note="call order differs between fresh interpreters"),
                          dict(kind="program", cross_process=True))
            continue
        prog = [dict(op=e["op"], name=e.get("name"), args=e.get("args")) for e in traces[tid - 1][1:l]]
        run.violation(key, dict(detail, trace=tid, position=l), dict(kind="program", program=prog, event=traces[tid - 1][l - 1]))
    for key, detail in findings:
        run.violation(key, detail, dict(kind="hidden", detail=detail))
    with warnings.catch_warnings():
        warnings.simplefilter("ignore")
        with np.errstate(all="ignore"):
            for key, detail in returned_arrays_stay_put(ao):
                run.violation(key, detail, dict(kind="stayput"))
    run.traces += len(traces) - len(set(t for t, _ in rejected))
    for nm, why in raised.items():
        run.unrunnable.append(dict(entry=nm, raised=why))
    for nm, why in not_called.items():
        run.unrunnable.append(dict(entry=nm, not_called=why))
    never = [e["name"] for e in entries if e["name"] not in calls]
    if never:
        raise core.MachineryError("entry points never called: %s" % never)
    run.sample([dict(op=e["op"], name=e.get("name"), args=e.get("args"), before=e.get("before"), after=e.get("after"), res=e.get("res"))
                for e in traces[0][:6]])
    run.aux.update(entries=len(entries), model_programs=n_model, long_programs=n_inproc - n_model, cross_process_orders=4 if quick else 8,
                   events=sum(len(t) for t in traces), results_overwritten_by_caller=sum(1 for t in traces for ev in t if ev["op"] == "scribble"), min_calls_per_entry=min(calls.values()), rejected=len(rejected))
    run.bounds = dict(cfg=cfg, skeletons=len(skels), long_program_length=30)
    run.exhaustive = False
    run.assumptions += [
        "argument identity = SHA-256 of bytes + shape + dtype + strides + flags before and after each call; results by bytes",
        "declared hidden inputs (exempt from determinism only): optimal_grouping (numpy global stream), unseeded screen generators",
        "batched-vs-single agreement is compared numerically (1e-9) by the recorder and logged as booleans; the trace spec requires them",
    ]


def replay(run, case):
    ao = core.import_aotools()
    entries, _ = catalogue(ao)
    if case.get("kind") == "program" and case.get("cross_process"):
        ev = cross_process_trace(3)
        _, rejected = validate(run, [ev], "PurityTrace/replay-cross-process")
        for tid, l in rejected:
            key, detail = explain(ev, l)
            run.violation(key + ":across-fresh-interpreters", detail, case)
        return
    names = {e["name"]: i for i, e in enumerate(entries)}
    if case.get("kind") == "stayput":
        with warnings.catch_warnings():
            warnings.simplefilter("ignore")
            with np.errstate(all="ignore"):
                for key, detail in returned_arrays_stay_put(ao):
                    run.violation(key, detail, case)
        return
    if case.get("kind") != "program":
        return
    rng = np.random.default_rng(run.seed)
    saved = np.random.get_state()
    try:
        rec = Recorder(entries, rng)
        keys = rec.keys
        for st in case["program"] + [dict(op=case["event"]["op"], name=case["event"].get("name"), args=case["event"].get("args"))]:
            if st["op"] == "call":
                pools = [keys[a - 1][0] for a in (st["args"] or [])] or [0]
                rec.call(names[st["name"]], pools[0], pools[-1])
            elif st["op"] == "mutate":
                rec.mutate(keys[st["args"][0] - 1][0], rng)
            elif st["op"] == "scribble":
                rec.scribble(rng, len(rec.returned) - 1)
    finally:
        np.random.set_state(saved)
    _, rejected = validate(run, [rec.events], "PurityTrace/replay")
    for tid, l in rejected:
        key, detail = explain(rec.events, l)
        run.violation(key, detail, case)


if __name__ == "__main__":
    import sys
    if len(sys.argv) == 4 and sys.argv[1] == "--worker":
        sys.path.insert(0, str(core.VERIF))
        worker(int(sys.argv[2]), sys.argv[3])
