"""C16 - binning, zooming and radial reductions preserve image content (spec/ImageRed.tla).

TLC computes, for every configuration in scope, the exact set of input pixels that each output of
binImgs / each ring of azimuthal_average / each node circle of encircled_energy must contain, and
which target nodes of the zoom grid coincide with source nodes.  The real functions are run on
token-valued / integer images and compared with those sets."""
import json
import math
import os
import tempfile
import warnings
from fractions import Fraction

import numpy as np

from harness import core

E = 1.9
NPT = 20


def ee_cases(rng, count, sizes):
    """images + node radii (as the public formula defines them) for the encircled-energy model"""
    cases = []
    k = 0
    while len(cases) < count:
        k += 1
        dim = int(rng.choice(sizes)) // 2
        n = 2 * dim
        style = k % 4
        if style == 0:
            img = rng.integers(0, 4, size=(n, n))
        elif style == 1:
            img = np.zeros((n, n), dtype=int)
            for _ in range(3):
                img[rng.integers(0, n), rng.integers(0, n)] = rng.integers(1, 9)
        elif style == 2:
            yy, xx = np.indices((n, n))
            img = np.maximum(0, 6 - np.abs(yy - dim) - np.abs(xx - dim)) + rng.integers(0, 2, size=(n, n))
        else:
            img = rng.integers(0, 2, size=(n, n)) * rng.integers(1, 5)
        if img.sum() == 0:
            continue
        if k % 3 == 0:
            xc2, yc2 = 2 * dim + int(rng.integers(-2, 3)), 2 * dim + int(rng.integers(-2, 3))
        else:
            xc2, yc2 = 2 * dim, 2 * dim
        rad = np.linspace(0, dim ** (1. / E), NPT) ** E
        r2 = rad * rad
        # floor, not round: pixel distances^2 are multiples of 1/4, so d2 * 2^20 is an integer and
        #   d2 <= r2 (the code's float comparison, both sides exact)  <=>  d2 * 2^20 <= floor(r2 * 2^20)
        # - the model's integer comparison reproduces the code's decision even when a radius hits a pixel distance exactly
        r2s = [int(math.floor(v * 2 ** 20)) for v in r2]
        cases.append(dict(id=len(cases), n=n, xc2=xc2, yc2=yc2, img=img.tolist(), r2s=r2s))
    return cases


def tok_image(h, w):
    """one token per pixel: powers of two while they stay exact (a sum then identifies the set of pixels), pseudo-random 40-bit
    integers for larger images (sums stay exact in float64 and int64; a wrong set is detected with overwhelming probability)"""
    if h * w <= 50:
        return (2.0 ** np.arange(h * w)).reshape(h, w)
    g = np.random.default_rng(h * 1000 + w)
    return g.integers(1, 2 ** 40, size=(h, w)).astype(float)


def check_bin(ip, c):
    bad = []
    h, w, n = c["h"], c["w"], c["n"]
    base = tok_image(h, w)
    exp = np.array([[sum(base[p[0], p[1]] for p in cell) for cell in row] for row in c["out"]]).reshape(h // n, w // n)
    for dtype in (float, np.int64):
        d2 = base.astype(dtype)
        variants = [("2d", d2, exp.astype(dtype)),
                    ("3d", np.array([d2, 3 * d2]), np.array([exp, 3 * exp]).astype(dtype)),
                    ("4d", np.array([[d2, 3 * d2], [5 * d2, 7 * d2]]), np.array([[exp, 3 * exp], [5 * exp, 7 * exp]]).astype(dtype))]
        for name, data, want in variants:
            keep = data.copy()
            got = ip.binImgs(data, n)
            if got is None or np.asarray(got).shape != want.shape or not np.array_equal(np.asarray(got), want):
                bad.append(("binImgs:block-sum:%s" % name, dict(dtype=str(np.dtype(dtype)), got=None if got is None else np.asarray(got).tolist())))
            elif np.asarray(got).sum() != keep.sum():
                bad.append(("binImgs:flux:%s" % name, {}))
            elif not np.array_equal(data, keep):
                bad.append(("binImgs:input-modified:%s" % name, dict(dtype=str(np.dtype(dtype)))))
            else:
                again = ip.binImgs(data, n)              # the same stack binned a second time
                if not np.array_equal(np.asarray(again), want):
                    bad.append(("binImgs:block-sum:second-call-on-same-array:%s" % name, {}))
    # a binning factor that comes out of a division (0.6 / 0.2 = 2.9999999999999996, 1.2 / 0.4, 6.0 / 2.0) is the integer it stands for
    for nf in (n * (0.6 / 0.2) / 3.0 if n == 3 else float(n), float(n) - 2e-16 * n if n > 1 else 1.0, np.float64(n), np.int64(n)):
        if int(np.round(nf)) != n:
            continue
        gotf = np.asarray(ip.binImgs(base.copy(), nf))
        if gotf.shape != exp.shape or not np.array_equal(gotf, exp):
            bad.append(("binImgs:block-sum:non-integer-typed-factor", dict(factor=repr(nf), shape=list(gotf.shape), expected_shape=list(exp.shape))))
            break
    # a bad pixel (nan, inf) spoils the block that contains it and no other: every output block is a function of its own pixels
    cells = [cell for row in c["out"] for cell in row]
    for poison in (np.nan, np.inf):
        for pr, pc in ((0, 0), (h - 1, w - 1), (h // 2, w // 3)):
            data = base.copy()
            data[pr, pc] = poison
            got = np.asarray(ip.binImgs(data.copy(), n), float)
            ok = got.shape == exp.shape
            if ok:
                for k, cell in enumerate(cells):
                    g = got.flat[k]
                    if any(tuple(p) == (pr, pc) for p in cell):
                        ok = ok and (np.isnan(g) if np.isnan(poison) else np.isposinf(g))
                    else:
                        ok = ok and g == exp.flat[k]
            if not ok:
                bad.append(("binImgs:block-sum:non-finite-pixel-leaks-into-other-blocks", dict(pixel=[pr, pc], value=repr(poison), got=got.tolist())))
                return bad
    return bad


def check_azi(psf, c, rng):
    bad = []
    n = c["n"]
    imgs = [np.full((n, n), 7.0), (1.0 + np.arange(n * n)).reshape(n, n)]
    for _ in range(3):
        imgs.append(rng.integers(0, 10, size=(n, n)).astype(float))
    centre = [tuple(p) for p in c["centre"]]
    for t, img in enumerate(imgs):
        got = np.asarray(psf.azimuthal_average(img.copy()), float)
        if got.shape != (n // 2,):
            bad.append(("azimuthal_average:length", dict(n=n, shape=list(got.shape))))
            break
        for k, ring in enumerate(c["rings"]):
            vals = [Fraction(int(img[p[0], p[1]])) for p in ring]
            e1 = float(sum(vals) / len(vals))
            ok = abs(got[k] - e1) <= 1e-12 * max(1, abs(e1))
            if not ok and k == 0 and centre:       # ring 0 may or may not contain a pixel at distance exactly 0
                vals2 = vals + [Fraction(int(img[p[0], p[1]])) for p in centre]
                ok = abs(got[k] - float(sum(vals2) / len(vals2))) <= 1e-12
            if not ok:
                bad.append(("azimuthal_average:ring-mean", dict(n=n, ring=k, got=float(got[k]), expected=e1)))
                break
        for dt32, tol32 in ((np.float32, 0.0), (np.uint8, 0.0), (np.int32, 0.0)):                   # narrower types: same ring means (exactly, for these integers)
            g32 = np.asarray(psf.azimuthal_average(img.astype(dt32)), float)
            if g32.shape != got.shape or not np.allclose(g32, got, rtol=0, atol=1e-12):
                bad.append(("azimuthal_average:narrow-dtype-image", dict(n=n, dtype=np.dtype(dt32).name, got=g32.tolist(), float64=got.tolist())))
                break
        gi = np.asarray(psf.azimuthal_average(img.astype(np.int64)), float)              # detector counts as integers
        if gi.shape != got.shape or not np.allclose(gi, got, rtol=0, atol=1e-12):
            bad.append(("azimuthal_average:integer-image", dict(n=n, got=gi.tolist(), float=got.tolist())))
        if t == 0 and not np.all(got == 7.0):
            bad.append(("azimuthal_average:constant-image", dict(n=n, got=got.tolist())))
        if np.any(got < img.min() - 1e-12) or np.any(got > img.max() + 1e-12) or not np.all(np.isfinite(got)):
            bad.append(("azimuthal_average:within-min-max", dict(n=n, got=got.tolist())))
        if bad:
            break
    # a constant single-precision image (values that are not exactly representable sums) averages to that constant (to double precision: 1e-12)
    if not bad:
        for cval in (np.float32(0.1), np.float32(1000.3), np.float32(3.7e-5)):
            g = np.asarray(psf.azimuthal_average(np.full((n, n), cval, dtype=np.float32)), float)
            if g.shape != (n // 2,) or np.any(np.abs(g - float(cval)) > 1e-12 * float(cval)):          # (double-precision summation of equal values)
                bad.append(("azimuthal_average:constant-image:float32", dict(n=n, value=float(cval), got=g.tolist())))
                break
    # a very bright core on a flat halo (a saturated star): every ring that holds no core pixel averages to the halo exactly
    if not bad and len(c["rings"]) >= 2:
        core_px = [tuple(p) for p in c["rings"][0]] + centre
        for core_v, halo in ((1e13, 3.0), (1e15, 0.3), (2.0 ** 60, 1.0)):
            img = np.full((n, n), halo)
            for p in core_px:
                img[p] = core_v
            got = np.asarray(psf.azimuthal_average(img.copy()), float)
            if got.shape != (n // 2,) or np.any(np.abs(got[1:] - halo) > 1e-12 * halo) or got[0] > core_v * (1 + 1e-12) or got[0] < halo:
                bad.append(("azimuthal_average:ring-mean:bright-core-leaks-into-outer-rings", dict(n=n, core=core_v, halo=halo, got=got.tolist())))
                break
    return bad


def check_ee(psf, c, case):
    bad = []
    img = np.array(case["img"], dtype=float)
    n = case["n"]
    dim = n // 2
    centre = (case["xc2"] / 2.0, case["yc2"] / 2.0)
    default = (case["xc2"], case["yc2"]) == (2 * dim, 2 * dim)
    kw = {} if default else dict(center=centre)
    xi, yi = psf.encircled_energy(img.copy(), eeDiameter=False, **kw)
    xi, yi = np.asarray(xi, float), np.asarray(yi, float)
    xi_i, yi_i = psf.encircled_energy(img.astype(np.int64), eeDiameter=False, **kw)
    if not np.allclose(np.asarray(yi_i, float), yi, rtol=0, atol=1e-12):
        bad.append(("encircled_energy:integer-image", dict(got=np.asarray(yi_i, float).tolist())))
    # the centre may come as a list or as a float64 array (e.g. what a centroider returned): same curve, and the array is the caller's
    for mk in (list, lambda t: np.array(t, dtype=float)):
        cen = mk(centre)
        keep_c = np.array(cen, dtype=float, copy=True)
        x2, y2 = psf.encircled_energy(img.copy(), eeDiameter=False, center=cen)
        d2 = psf.encircled_energy(img.copy(), fraction=0.5, center=cen)
        if not default:
            same = np.allclose(np.asarray(y2, float), yi, rtol=0, atol=1e-12) and abs(d2 - psf.encircled_energy(img.copy(), fraction=0.5, center=centre)) <= 1e-12
        else:
            same = np.allclose(np.asarray(y2, float), yi, rtol=0, atol=1e-12)
        if not same or not np.array_equal(np.asarray(cen, float), keep_c):
            bad.append(("encircled_energy:centre-given-as-%s" % ("array" if isinstance(cen, np.ndarray) else "list"),
                        dict(centre_modified=bool(not np.array_equal(np.asarray(cen, float), keep_c)), got=np.asarray(y2, float).tolist()[:8])))
            break
    counts = np.array([a for a, b in c["nodes"]], float)
    sums = np.array([b for a, b in c["nodes"]], float)
    rad = np.append(0, np.sqrt(counts * 4 / np.pi))
    ee = np.append(0, sums) / float(c["total"])
    exi = np.linspace(0, dim, int(4 * dim))
    eyi = np.interp(exi, rad, ee)
    if xi.shape != exi.shape or not np.allclose(xi, exi, rtol=0, atol=1e-12):
        bad.append(("encircled_energy:abscissa", dict(got=xi.tolist())))
    elif yi.shape != eyi.shape or not np.allclose(yi, eyi, rtol=0, atol=1e-12):
        bad.append(("encircled_energy:node-values", dict(got=yi.tolist(), expected=eyi.tolist())))
    if yi.size and (yi[0] != 0 or np.any(np.diff(yi) < -1e-15) or np.any(yi > 1 + 1e-12) or not np.all(np.isfinite(yi))):
        bad.append(("encircled_energy:curve-shape", dict(got=yi.tolist())))
    for f in (0.1, 0.25, 0.5, 0.8, 0.95):
        d = psf.encircled_energy(img.copy(), fraction=f, **kw)
        j = int(np.argmin(np.abs(eyi - f)))
        # any abscissa that attains the minimum distance is "where the curve crosses" on the grid
        best = np.abs(eyi - f).min()
        jj = np.argmin(np.abs(exi - d))
        if not isinstance(d, float) or abs(exi[jj] - d) > 1e-12 or abs(abs(eyi[jj] - f) - best) > 1e-12:
            bad.append(("encircled_energy:diameter", dict(fraction=f, got=d, expected=float(exi[j]))))
            break
    return bad


def check_zoom(interp, c, facts, rng, runner):
    """c: 1-D fact (n, m).  Builds 2-D cases n x n -> (m, m) and (m, m2)."""
    bad = []
    n, m = c["n"], c["m"]
    hits = c["hits"]
    a = rng.standard_normal((n, n))
    b = rng.standard_normal((n, n))
    for fname in ("zoom_rbs", "zoom"):
        f = getattr(interp, fname)
        for order in (1, 3, 5):
            if n <= order or m < 1:
                continue
            try:
                z = np.asarray(f(a.copy(), (m, m), order=order))
            except Exception as ex:  # noqa
                bad.append(("%s:raises" % fname, dict(n=n, m=m, order=order, error=repr(ex)[:200])))
                break
            if z.shape != (m, m):
                bad.append(("%s:shape" % fname, dict(n=n, m=m, shape=list(z.shape))))
                break
            scale = np.abs(a).max()
            if n == m and not np.allclose(z, a, rtol=0, atol=1e-9 * scale):
                bad.append(("%s:identity" % fname, dict(n=n, order=order, err=float(np.abs(z - a).max()))))
                break
            err = max(abs(z[j1, j2] - a[k1, k2]) for j1, k1 in hits for j2, k2 in hits)
            if err > 1e-9 * scale:
                bad.append(("%s:node-pass-through" % fname, dict(n=n, m=m, order=order, err=float(err))))
                break
            # polynomial exactness, degree <= order in each variable; asymmetric in the two axes
            ii, jj = np.indices((n, n)).astype(float)
            x = np.linspace(0, n - 1, m) if m > 1 else np.array([0.0])
            for (p, q) in ((order, 0), (0, order), (1, order), (order, order - 1)):
                P = ii ** p + 2 * jj ** q + ii ** min(p, 1) * jj ** min(q, 1)
                want = x[:, None] ** p + 2 * x[None, :] ** q + x[:, None] ** min(p, 1) * x[None, :] ** min(q, 1)
                zz = np.asarray(f(P.copy(), (m, m), order=order))
                if not np.allclose(zz, want, rtol=0, atol=1e-8 * max(1.0, np.abs(want).max())):
                    bad.append(("%s:polynomial-exactness" % fname, dict(n=n, m=m, order=order, p=p, q=q,
                                                                         err=float(np.abs(zz - want).max()))))
                    break
            if bad:
                break
            ai = np.rint(a * 8).astype(np.int64)
            zi = np.asarray(f(ai.copy(), (m, m), order=order), float)
            zf = np.asarray(f(ai.astype(float), (m, m), order=order), float)
            if zi.shape != (m, m) or not np.allclose(zi, zf, rtol=0, atol=1e-9 * max(1.0, np.abs(zf).max())):
                bad.append(("%s:integer-array" % fname, dict(n=n, m=m, order=order)))
                break
            zc = np.asarray(f((a + 1j * b).copy(), (m, m), order=order))
            zb = np.asarray(f(b.copy(), (m, m), order=order))
            if zc.shape != (m, m) or not np.allclose(zc, z + 1j * zb, rtol=0, atol=1e-9 * scale):
                bad.append(("%s:complex-split" % fname, dict(n=n, m=m, order=order)))
                break
            c64 = (a + 1j * b).astype(np.complex64)         # single-precision complex data is complex data too
            z64 = np.asarray(f(c64.copy(), (m, m), order=order))
            w64 = np.asarray(f(c64.real.astype(float), (m, m), order=order)) + 1j * np.asarray(f(c64.imag.astype(float), (m, m), order=order))
            if z64.shape != (m, m) or not np.allclose(z64, w64, rtol=0, atol=2e-5 * scale):
                bad.append(("%s:complex-split:complex64" % fname, dict(n=n, m=m, order=order, imaginary_part_lost=bool(np.isrealobj(z64) or np.abs(np.imag(z64)).max() == 0))))
                break
            # rectangular target sizes: each axis follows its own grid
            m2 = facts.get((n, m + 1))
            if m2 is not None and m >= 2:
                zr = np.asarray(f(a.copy(), (m, m + 1), order=order))
                if zr.shape != (m, m + 1):
                    bad.append(("%s:rectangular-target:shape" % fname, dict(n=n, target=[m, m + 1], shape=list(zr.shape))))
                    break
                err = max([abs(zr[j1, j2] - a[k1, k2]) for j1, k1 in hits for j2, k2 in m2] or [0])
                if err > 1e-9 * scale:
                    bad.append(("%s:rectangular-target:nodes" % fname, dict(n=n, target=[m, m + 1], err=float(err))))
                    break
        if bad and fname == "zoom_rbs":
            break
    return bad


def _mods():
    core.import_aotools()
    from aotools import interpolation
    from aotools.image_processing import psf
    return interpolation, psf


def run(run):
    interp, psf = _mods()
    quick = run.tier == "quick"
    rng = np.random.default_rng(run.seed)
    cases = ee_cases(rng, 300 if quick else 4000, [4, 6, 8])
    tmp = tempfile.mkdtemp(prefix="aoverif-c16-")
    path = os.path.join(tmp, "ee.ndjson")
    with open(path, "w") as fh:
        for cse in cases:
            fh.write(json.dumps(cse) + "\n")
    consts = dict(MaxBin=6 if quick else 8, MaxAzi=10 if quick else 14, MaxZoom=7 if quick else 9)
    cfg = "SPECIFICATION Spec\nCONSTANTS\n" + "".join("  %s = %d\n" % kv for kv in consts.items()) + "  Emit = TRUE\n" + \
          "".join("INVARIANT %s\n" % i for i in (
              "BinIsBlockSum", "FluxPreserved", "RingsAreRings", "RingsDisjoint", "RingNonEmpty", "RingCount",
              "EEStartsAtZero", "EEMonotone", "EEAtMostOne", "ZoomDivisibility", "ZoomIdentity", "EmitCase")) + \
          "CHECK_DEADLOCK FALSE\n"
    try:
        r = run.tlc("ImageRed", cfg_text=cfg, env={"EE_CASES": path}, label="ImageRed/" + run.tier,
                    require_actions=("BinPass1Step", "BinPass2Step", "AziStep", "EEStep", "ZoomStep"), timeout=3000)
    finally:
        import shutil
        shutil.rmtree(tmp, ignore_errors=True)
    if r.violated:
        raise core.MachineryError("ImageRed.tla violates its own invariant %s" % r.violated)
    run.bounds = dict(consts, ee_cases=len(cases), ee_sizes=[4, 6, 8], fractions=[0.1, 0.25, 0.5, 0.8, 0.95])
    facts = {(c["n"], c["m"]): c["hits"] for c in r.printed if c["kind"] == "zoom"}
    kinds = {}
    with warnings.catch_warnings():
        warnings.simplefilter("ignore")
        for c in sorted(r.printed, key=lambda d: json.dumps(d, sort_keys=True)):
            k = c["kind"]
            if k == "bin":
                bad = check_bin(interp, c)
            elif k == "azi":
                bad = check_azi(psf, c, rng)
            elif k == "ee":
                bad = check_ee(psf, c, cases[c["id"]])
                c = dict(c, case=cases[c["id"]])
            else:
                bad = check_zoom(interp, c, facts, rng, run)
                c = dict(c, facts={"%d,%d" % kk: v for kk, v in facts.items() if kk == (c["n"], c["m"] + 1)})
            kinds[k] = kinds.get(k, 0) + 1
            run.traces += 1
            if kinds[k] == 3:
                run.sample(c, limit=4)
            for key, detail in bad:
                run.violation(key, detail, c)
    if set(kinds) != {"bin", "azi", "ee", "zoom"}:
        raise core.MachineryError("TLC did not print all four kinds: %s" % kinds)
    run.aux["cases_by_kind"] = kinds
    run.assumptions += [
        "spline values between nodes are FITPACK numerics and are trusted; only identity, node pass-through, polynomial "
        "exactness and the complex split are asserted (1e-9)",
        "encircled-energy node radii are irrational: they are computed by the harness with the public formula and handed to TLC as "
        "floor(r^2 * 2^20), which makes the model's integer membership test equivalent to the code's float comparison",
    ]


def replay(run, case):
    interp, psf = _mods()
    rng = np.random.default_rng(run.seed)
    k = case["kind"]
    with warnings.catch_warnings():
        warnings.simplefilter("ignore")
        if k == "bin":
            bad = check_bin(interp, case)
        elif k == "azi":
            bad = check_azi(psf, case, rng)
        elif k == "ee":
            bad = check_ee(psf, case, case["case"])
        else:
            facts = {tuple(int(x) for x in kk.split(",")): v for kk, v in case.get("facts", {}).items()}
            bad = check_zoom(interp, case, facts, rng, run)
    for key, detail in bad:
        run.violation(key, detail, case)
