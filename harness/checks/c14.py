"""C14 - pupil masks and sub-aperture selection are exact geometric indicators.

TLC (spec/Pupil.tla) enumerates every configuration in scope, runs the transcribed algorithm (Impl),
checks it against the definition (Def) and the listed properties of Def, and prints each finished
case.  Every printed case is replayed into the real functions and compared exactly."""
import numpy as np

from harness import core

MODULE = "Pupil"


def _np_mask(rows):
    return np.array(rows, dtype=float)


def check_case(run, ao, c):
    """returns list of (key, detail) disagreements between the real code and the spec's Def"""
    bad = []
    k = c["kind"]
    if k == "circle":
        from aotools.functions import pupil
        got = pupil.circle(c["rq"] / 4.0, c["n"], (c["cxq"] / 4.0, c["cyq"] / 4.0), c["origin"])
        exp = _np_mask(c["mask"])
        if got.shape != exp.shape or not np.array_equal(got, exp):
            bad.append(("circle:indicator", dict(got=np.asarray(got).tolist())))
        if float(c["rq"] / 4.0).is_integer() and c["cxq"] % 4 == 0 and c["cyq"] % 4 == 0:
            gi = pupil.circle(int(c["rq"] // 4), c["n"], (int(c["cxq"] // 4), int(c["cyq"] // 4)), c["origin"])       # all-integer arguments
            if not np.array_equal(gi, exp):
                bad.append(("circle:indicator:integer-arguments", dict(got=np.asarray(gi).tolist())))
        if ao.circle is not pupil.circle:
            got2 = ao.circle(c["rq"] / 4.0, c["n"], (c["cxq"] / 4.0, c["cyq"] / 4.0), c["origin"])
            if not np.array_equal(got2, exp):
                bad.append(("circle:indicator:package-export", dict(got=np.asarray(got2).tolist())))
    elif k == "subaps":
        from aotools.wfs import wfslib
        if c["tie"]:
            return "skipped"
        mask = _np_mask(c["mask"])
        grey = len(c["th"]) == 3 and c["th"][2] == "grey"
        if grey:
            mask = mask / 2.0                     # values 0, 1, 2 of the model are transmissions 0, 1/2, 1
        M, S = c["M"], c["S"]
        th = c["th"][0] / c["th"][1]
        exp_coords = np.array([[x * (M / float(S)), y * (M / float(S))] for x, y in c["coords"]])
        exp_fills = np.array([a / b for a, b in c["fills"]])
        got = np.asarray(wfslib.findActiveSubaps(S, mask.copy(), th))
        got2, fills = wfslib.findActiveSubaps(S, mask.copy(), th, returnFill=True)
        got2, fills = np.asarray(got2), np.asarray(fills)
        if len(c["coords"]) == 0:
            if got.size or got2.size or fills.size:
                bad.append(("subaps:active-set", dict(got=got.tolist())))
        else:
            if got.shape != exp_coords.shape or not np.array_equal(got, exp_coords) \
                    or got2.shape != exp_coords.shape or not np.array_equal(got2, exp_coords):
                bad.append(("subaps:active-set", dict(got=got.tolist(), expected=exp_coords.tolist())))
            elif fills.shape != exp_fills.shape or not np.array_equal(fills, exp_fills):
                bad.append(("subaps:fills", dict(got=fills.tolist(), expected=exp_fills.tolist())))
            elif M % S == 0:
                ff = np.asarray(wfslib.computeFillFactor(mask.copy(), got2, M // S))
                if ff.shape != fills.shape or not np.array_equal(ff, exp_fills):
                    bad.append(("subaps:fillfactor-agree", dict(got=ff.tolist(), expected=exp_fills.tolist())))
            if not bad and not grey:
                # masks are often boolean or integer arrays: same cells, same fills
                for dt in (bool, np.int64):
                    gi, fi = wfslib.findActiveSubaps(S, mask.astype(dt), th, returnFill=True)
                    if np.asarray(gi).shape != exp_coords.shape or not np.array_equal(np.asarray(gi), exp_coords) \
                            or not np.array_equal(np.asarray(fi), exp_fills):
                        bad.append(("subaps:active-set:mask-dtype-%s" % np.dtype(dt).name, dict(got=np.asarray(gi).tolist())))
                        break
    elif k == "scatter":
        from aotools.wfs import wfslib
        mask = _np_mask(c["mask"])
        n = c["n"]
        frames = 2
        data = np.zeros((frames, 2, n))
        for f in range(frames):
            for a in range(2):
                data[f, a, :] = 1000 * (f + 1) + 100 * (a + 1) + np.arange(1, n + 1)
        got = wfslib.make_subaps_2d(data.copy(), mask.copy())
        tok = np.array(c["map"])
        ok = got.shape == (frames, 2) + mask.shape
        if ok:
            for f in range(frames):
                for a in range(2):
                    exp = np.where(tok > 0, 1000 * (f + 1) + 100 * (a + 1) + tok, 0)
                    ok = ok and np.array_equal(got[f, a], exp)
            back = got[:, :, mask == 1]
            ok = ok and back.shape == data.shape and np.array_equal(back, data)
        if not ok:
            bad.append(("scatter:gather-identity", dict(got=np.asarray(got).tolist())))
        if ok and n > 0:
            # slopes of other dtypes come back as they went in (complex telemetry, integer counts beyond 2^53)
            for dt, vals in ((np.complex128, data * (1 + 0.5j)), (np.complex64, (data * (1 - 2j)).astype(np.complex64)),
                             (np.int64, data.astype(np.int64) + 2 ** 60 + 1), (np.float32, data.astype(np.float32))):
                g3 = np.asarray(wfslib.make_subaps_2d(vals.copy(), mask.copy()))
                back3 = g3[:, :, mask == 1] if g3.shape == (frames, 2) + mask.shape else None
                if back3 is None or back3.shape != vals.shape or not np.array_equal(back3.astype(vals.dtype) if np.iscomplexobj(vals) == np.iscomplexobj(back3) else back3, vals) \
                        or (np.iscomplexobj(vals) and not np.iscomplexobj(g3)) or (vals.dtype.kind == "i" and not np.array_equal(back3.astype(np.int64), vals)):
                    bad.append(("scatter:gather-identity:slopes-dtype-" + np.dtype(dt).name, dict(out_dtype=str(g3.dtype))))
                    break
        if ok:
            # the mask in another memory layout / dtype is the same mask
            for label, mk in (("fortran-order", np.asfortranarray(mask)), ("transposed-view", np.ascontiguousarray(mask.T).T),
                              ("reversed-view", np.ascontiguousarray(mask[::-1, ::-1])[::-1, ::-1]), ("boolean", mask.astype(bool)), ("int", mask.astype(np.int64))):
                g2 = wfslib.make_subaps_2d(data.copy(), mk)
                if np.asarray(g2).shape != got.shape or not np.array_equal(np.asarray(g2), got):
                    bad.append(("scatter:gather-identity:mask-" + label, dict(got=np.asarray(g2).tolist())))
                    break
    return bad


def large_circles(ao, rng, quick):
    """the indicator on grids far larger than TLC's, with arbitrary (not quarter-lattice) radii and centres.  Def as in
    Pupil.tla: pixel (row, col) has its centre at (col + 1/2, row + 1/2), origin "middle" puts (0, 0) at size/2; lit iff
    dx^2 + dy^2 <= r^2.  Evaluated in float64; pixels within 1e-12 (relative) of the boundary are not judged, which leaves
    every coarser arithmetic (single precision: 6e-8) exposed."""
    from aotools.functions import pupil
    bad = []
    cases = [(0.35 * 1024, 1024, (0.5, 0.25), "middle"), (150.99999999999997, 501, (0.0, 0.0), "middle"), (1500.0, 3000 if not quick else 2000, (0.25, 0.5), "corner"),
             (333.3, 700, (350.1, 349.7), "corner"), (511.9, 1024, (0.0, 0.0), "middle")]
    for _ in range(6 if quick else 40):
        n = int(rng.choice([257, 400, 501, 777, 1024, 1536]))
        org = "middle" if rng.random() < 0.5 else "corner"
        r = float(rng.uniform(0.2, 0.5) * n)
        c0 = (float(rng.uniform(-0.1, 0.1) * n), float(rng.uniform(-0.1, 0.1) * n))
        cases.append((r, n, c0 if org == "middle" else (c0[0] + n / 2.0, c0[1] + n / 2.0), org))
    n_px = n_skip = 0
    for r, n, cen, org in cases:
        got = np.asarray(pupil.circle(r, n, cen, org))
        co = np.arange(n, dtype=np.float64) + 0.5 - (n / 2.0 if org == "middle" else 0.0)
        dx, dy = co - cen[0], co - cen[1]
        d2 = dx[None, :] ** 2 + dy[:, None] ** 2
        marg = (d2 - r * r) / (r * r)
        judged = np.abs(marg) > 1e-12
        want = marg <= 0
        n_px += int(judged.sum())
        n_skip += int((~judged).sum())
        if got.shape != (n, n) or np.any((got != 0)[judged] != want[judged]) or np.any((got != 0) & (got != 1)):
            wrong = np.argwhere(((got != 0) != want) & judged) if got.shape == (n, n) else []
            bad.append(("circle:indicator:large-grid", dict(radius=r, size=n, centre=list(cen), origin=org, n_wrong=int(len(wrong)),
                                                            first=[int(v) for v in wrong[0]] if len(wrong) else None,
                                                            margin=float(marg[tuple(wrong[0])]) if len(wrong) else None)))
            break
    return bad, n_px, n_skip, len(cases)


def grey_relations(ao, rng, quick):
    """masks with arbitrary (non-dyadic) transmissions, mask size a multiple of the sub-aperture count: the fills returned by the
    selection ARE those of computeFillFactor (bit for bit), and a threshold placed exactly on a cell's fill selects that cell"""
    from aotools.wfs import wfslib
    bad = []
    n = 0
    for M, S in ((8, 4), (12, 4), (10, 2), (9, 3), (12, 6), (15, 5)) if quick else ((8, 4), (12, 4), (10, 2), (9, 3), (12, 6), (15, 5), (20, 4), (21, 7), (16, 8)):
        yy, xx = np.indices((M, M))
        for kind in range(3):
            if kind == 0:
                mask = np.sin(0.37 * (xx + 1)) ** 2 * np.cos(0.21 * (yy + 2)) ** 2
            elif kind == 1:
                mask = np.clip(1.1 - np.hypot(xx - M / 2.0 + 0.3, yy - M / 2.0 - 0.2) / (M / 2.0), 0, 1) ** 1.7
            else:
                mask = rng.random((M, M)) * (rng.random((M, M)) > 0.3)
            coords, fills = wfslib.findActiveSubaps(S, mask.copy(), 0.0, returnFill=True)
            coords, fills = np.asarray(coords), np.asarray(fills)
            ff = np.asarray(wfslib.computeFillFactor(mask.copy(), coords, M // S))
            n += 1
            if fills.shape != (S * S,) or ff.shape != fills.shape or not np.array_equal(ff, fills):
                bad.append(("subaps:fillfactor-agree:grey-mask", dict(M=M, S=S, kind=kind, max_diff=float(np.abs(ff - fills).max()) if ff.shape == fills.shape else None)))
                return bad, n
            for t in np.unique(fills)[:: max(1, len(np.unique(fills)) // 6)]:
                sel = np.asarray(wfslib.findActiveSubaps(S, mask.copy(), float(t)))
                want = coords[fills >= t]
                n += 1
                if sel.shape != want.shape or not np.array_equal(sel, want):
                    bad.append(("subaps:active-set:threshold-equal-to-a-cell-fill:grey-mask", dict(M=M, S=S, kind=kind, threshold=float(t),
                                                                                                    selected=int(len(sel)), expected=int(len(want)))))
                    return bad, n
    # the cells TILE the mask whatever the ratio of mask size to sub-aperture count: a mask with one row (column) lit lights exactly one
    # row (column) of cells, and with every pixel lit the cell means weighted by the cell areas give back the number of lit pixels
    for (M, S) in ((25, 12), (25, 14), (33, 18), (53, 12), (65, 14), (21, 8), (30, 7), (49, 10), (17, 6), (37, 16), (11, 4), (45, 14)):
        for axis in (0, 1):
            for line in range(M):
                m1 = np.zeros((M, M))
                if axis == 0:
                    m1[line, :] = 1.0
                else:
                    m1[:, line] = 1.0
                co = np.asarray(wfslib.findActiveSubaps(S, m1, 1e-9), float).reshape(-1, 2)
                n += 1
                if len(co) != S or len(np.unique(co[:, axis])) != 1 or len(np.unique(co[:, 1 - axis])) != S:
                    bad.append(("subaps:cells-do-not-tile-the-mask", dict(M=M, S=S, axis=axis, line=line, active_cells=int(len(co)))))
                    return bad, n
    # rectangular masks (cropped / elliptical pupils), both sides multiples of the sub-aperture count: the cells are the S x S grid of
    # (Mx/S) x (My/S) blocks, selected by their mean, coordinates (x * Mx/S, y * My/S)
    for (Mx, My, S) in ((12, 8, 4), (8, 12, 4), (6, 12, 3), (10, 4, 2), (9, 6, 3)):
        yy, xx = np.indices((Mx, My))
        for kind in range(2):
            mask = (((xx - Mx / 2.0 + 0.5) / (Mx / 2.0)) ** 2 + ((yy - My / 2.0 + 0.5) / (My / 2.0)) ** 2 <= 1.0).astype(float) if kind == 0 else \
                ((xx * 7 + yy * 3) % 5 < 3).astype(float)
            bx, by = Mx // S, My // S
            means = mask.reshape(S, bx, S, by).mean(axis=(1, 3))
            for th in (0.0, 0.25, 0.5, 0.75, 1.0):
                coords, fills = wfslib.findActiveSubaps(S, mask.copy(), th, returnFill=True)
                coords, fills = np.asarray(coords, float).reshape(-1, 2), np.asarray(fills, float)
                want = [(i, j) for i in range(S) for j in range(S) if means[i, j] >= th]
                wc = np.array([[i * bx, j * by] for i, j in want], float).reshape(-1, 2)
                wf = np.array([means[i, j] for i, j in want])
                n += 1
                if coords.shape != wc.shape or not np.array_equal(coords, wc) or not np.array_equal(fills, wf):
                    bad.append(("subaps:active-set:rectangular-mask", dict(shape=[Mx, My], S=S, threshold=th, selected=int(len(coords)), expected=int(len(wc)))))
                    return bad, n
    return bad, n


def run(run):
    ao = core.import_aotools()
    cfg = "Pupil_quick.cfg" if run.tier == "quick" else "Pupil_thorough.cfg"
    r = run.tlc(MODULE, cfg, require_actions=("Coords", "Compare", "LoopBody", "ScatterBody"),
                timeout=3000)
    if r.violated:
        raise core.MachineryError("Pupil.tla violates its own invariant %s (specification bug)" % r.violated)
    run.bounds = dict(cfg=cfg, text=(core.SPEC / cfg).read_text())
    skipped = 0
    kinds = {}
    for c in r.printed:
        res = check_case(run, ao, c)
        if res == "skipped":
            skipped += 1
            continue
        run.traces += 1
        kinds[c["kind"]] = kinds.get(c["kind"], 0) + 1
        if kinds[c["kind"]] in (1, 700):
            run.sample(c, limit=6)
        for key, detail in res:
            run.violation(key, detail, c)
    if not r.printed:
        raise core.MachineryError("TLC printed no case")
    badg, n_grey = grey_relations(ao, np.random.default_rng(run.seed), run.tier == "quick")
    run.traces += n_grey
    run.aux["grey_mask_relations"] = n_grey
    for key, detail in badg:
        run.violation(key, detail, dict(kind="grey", detail=detail))
    bad, n_px, n_skip, n_big = large_circles(ao, np.random.default_rng(run.seed), run.tier == "quick")
    run.traces += n_big
    run.aux.update(large_grid_masks=n_big, large_grid_pixels_judged=n_px, large_grid_pixels_on_the_boundary_not_judged=n_skip)
    for key, detail in bad:
        run.violation(key, detail, dict(kind="large", detail=detail))
    run.aux["float_tie_cases_skipped"] = skipped
    run.aux["cases_by_kind"] = kinds
    run.assumptions += [
        "TLC explores the scope in the cfg exhaustively; outside it nothing is claimed",
        "all replayed quantities are binary fractions, so the code's float arithmetic is exact and equality is exact",
        "sub-aperture cases whose cell bound is a half-integer with a non-dyadic spacing are skipped (float rounding decides)",
        "area -> pi r^2 is not decided (asymptotic)",
    ]


def replay(run, case):
    ao = core.import_aotools()
    if case.get("kind") == "grey":
        for key, detail in grey_relations(ao, np.random.default_rng(run.seed), run.tier == "quick")[0]:
            run.violation(key, detail, case)
        return
    if case.get("kind") == "large":
        for key, detail in large_circles(ao, np.random.default_rng(run.seed), run.tier == "quick")[0]:
            run.violation(key, detail, case)
        return
    res = check_case(run, ao, case)
    if res != "skipped":
        for key, detail in res:
            run.violation(key, detail, case)
