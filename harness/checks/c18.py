"""C18 - profile compression conserves the turbulence it compresses (spec/ProfileComp.tla).

TLC enumerates every profile in scope, every L and EVERY outcome of the random restarts (the model quantifies
over the global generator instead of sampling it) and checks the invariants on the transcribed algorithm.
Replay: each terminal state is run through the real optimal_grouping with numpy.random.choice forced to the
model's restart outcomes; equivalent_layers is run on every enumerated profile and on a (range, L) scan; the
statement's conservation laws are evaluated on the real outputs."""
import warnings

import itertools

import numpy as np

from harness import core


class ForcedChoice:
    """replaces numpy.random.choice during one optimal_grouping call"""

    def __init__(self, outcomes, N, L):
        self.outcomes, self.N, self.L, self.i, self.bad = list(outcomes), N, L, 0, None

    def __call__(self, options, size=None, replace=True, p=None):
        opts = np.asarray(options)
        if not (np.array_equal(opts, np.arange(0, self.N - 2)) and size == self.L - 1 and replace is False and p is None):
            self.bad = dict(options=opts.tolist(), size=size, replace=replace)
        if self.i >= len(self.outcomes):
            self.bad = dict(extra_call=self.i)
            return np.array(self.outcomes[-1] if self.outcomes else [], dtype=int)
        out = np.array(self.outcomes[self.i], dtype=int)
        self.i += 1
        # hand the subset back in a scrambled order: the code must sort it itself
        return out[::-1].copy()


def laws_og(h, p, L, hh, cn2, eqcost, cost_of):
    """the statement's clauses on a real optimal_grouping output"""
    bad = []
    hh, cn2 = np.asarray(hh, float), np.asarray(cn2, float)
    if hh.shape != (L,) or cn2.shape != (L,):
        return [("optimal_grouping:exactly-L", dict(L=L, heights=hh.tolist(), cn2=cn2.tolist()))]
    if np.any(cn2 < 0):
        bad.append(("optimal_grouping:non-negative", dict(cn2=cn2.tolist())))
    if abs(cn2.sum() - p.sum()) > 1e-12 * max(1.0, p.sum()):
        bad.append(("optimal_grouping:total-conserved", dict(total_in=float(p.sum()), total_out=float(cn2.sum()))))
    if not all(v in set(h.tolist()) for v in hh.tolist()) or np.any(np.diff(hh) <= 0):
        bad.append(("optimal_grouping:heights-input-increasing", dict(heights=hh.tolist())))
    return bad


def check_og(pc, c):
    bad, drift = [], []
    h = np.array(c["h"], dtype=float)
    p = np.array(c["p"], dtype=float)
    N, L, R = c["N"], c["L"], c["R"]
    forced = ForcedChoice(c["restarts"], N, L)
    orig = np.random.choice
    np.random.choice = forced
    try:
        out = pc.optimal_grouping(R, L, h.copy(), p.copy())
    except Exception as ex:  # noqa
        np.random.choice = orig
        return [("optimal_grouping:raises", dict(error=repr(ex)[:200]))], []
    finally:
        np.random.choice = orig
    if forced.i != R or forced.bad:
        # the model's premise about how restarts are drawn no longer matches the code: judge by the laws only
        drift.append(("optimal_grouping:restart-protocol", dict(calls=forced.i, expected=R, note=forced.bad)))
    hh, cn2 = out
    bad += laws_og(h, p, L, hh, cn2, c["eqcost"], None)
    if not bad:
        # cost of the returned grouping is recoverable from heights + strengths only through the groups; compare with the
        # model's result instead (the model has all outcomes, so a mismatch means the search itself changed)
        same = np.array_equal(np.asarray(hh, float), np.array(c["heights"], float)) and \
            np.array_equal(np.asarray(cn2, float), np.array(c["cn2"], float))
        if not same:
            # still a valid answer? re-derive the cost of the code's grouping: groups are determined by cn2 partial sums only
            # when strengths are positive; use the model-independent bound instead: cost no worse than the equal split
            cost = _cost_from_output(h, p, hh, cn2)
            if cost is None or cost > c["eqcost"] + 1e-9:
                bad.append(("optimal_grouping:no-worse-than-equal-split", dict(cost=cost, equal_split=c["eqcost"],
                                                                                heights=np.asarray(hh).tolist())))
            elif not drift:
                drift.append(("optimal_grouping:result", dict(got=[np.asarray(hh).tolist(), np.asarray(cn2).tolist()],
                                                              model=[c["heights"], c["cn2"]])))
    return bad, drift


def _cost_from_output(h, p, hh, cn2):
    """smallest cost of any contiguous grouping consistent with the returned (heights, strengths); None if none exists"""
    N, L = len(h), len(hh)
    best = [None]

    def rec(start, g, acc):
        if g == L:
            if start == N and (best[0] is None or acc < best[0]):
                best[0] = acc
            return
        for end in range(start + 1, N - (L - g - 1) + 1):
            idx = np.arange(start, end)
            if abs(p[idx].sum() - cn2[g]) > 1e-9 * p.sum() or hh[g] not in h[idx]:
                continue
            t = idx[np.where(h[idx] == hh[g])[0][0]]
            rec(end, g + 1, acc + float((p[idx] * np.abs(h[idx] - h[t])).sum()))
    rec(0, 0, 0.0)
    return best[0]


def _group_min(h, p, idx):
    return min(float((p[idx] * np.abs(h[idx] - h[t])).sum()) for t in idx)


def check_duplicate_heights(pc):
    """profiles in which two layers share an altitude (dome + ground layer at 0 m, two instruments merged on one grid): the clause
    'cost no worse than the equal split' with the cost recomputed from the returned layers (spec/ProfileComp.tla: G, EqualSplit)"""
    bad = []
    n = 0
    saved = np.random.get_state()
    try:
        g_ = np.random.default_rng(2718)
        extra = []
        for _ in range(24):
            nl = int(g_.integers(11, 16))
            extra.append((np.sort(g_.integers(0, 40, size=nl)).astype(float) * 1000.0, np.round(g_.uniform(0.05, 1.0, nl), 2) * 1e-13))
        for h, p in [(np.array([0.0, 0.0, 500.0, 1000.0, 2000.0, 2000.0, 4000.0, 8000.0, 8000.0, 12000.0]), np.array([5.0, 3.0, 1.0, 1.0, 2.0, 1.0, 1.0, 0.5, 1.5, 0.5])),
                     (np.array([0.0, 0.0, 0.0, 3000.0, 3000.0, 9000.0, 9000.0, 15000.0]), np.array([4.0, 1.0, 2.0, 1.0, 3.0, 1.0, 1.0, 2.0])),
                     (np.array([0.0, 100.0, 100.0, 100.0, 5000.0, 5000.0, 10000.0, 10000.0, 16000.0]), np.array([1.0, 2.0, 3.0, 1.0, 1.0, 2.0, 1.0, 1.0, 1.0]))] + extra:
            N = len(h)
            for L in (2, 3, 4, 5):
                eq = [0] + [(k * N) // L + 1 for k in range(1, L)] + [N]
                eq_cost = sum(_group_min(h, p, np.arange(eq[g], eq[g + 1])) for g in range(L))
                for sd in range(4):
                    np.random.seed(100 + sd)
                    out = pc.optimal_grouping(3, L, h.copy(), p.copy())
                    hh, cc = np.asarray(out[0], float), np.asarray(out[1], float)
                    n += 1
                    if hh.shape != (L,) or abs(cc.sum() - p.sum()) > 1e-9 * p.sum() or np.any(cc < 0):
                        bad.append(("optimal_grouping:exactly-L:duplicate-heights", dict(L=L, heights=hh.tolist(), cn2=cc.tolist())))
                        return bad, n
                    cost = _cost_from_output(h, p, hh, cc)
                    if cost is None or cost > eq_cost * (1 + 1e-12) + 1e-12:
                        bad.append(("optimal_grouping:no-worse-than-equal-split:duplicate-heights", dict(L=L, cost=cost, equal_split=eq_cost, heights=hh.tolist(), cn2=cc.tolist())))
                        return bad, n
    finally:
        np.random.set_state(saved)
    return bad, n


def laws_el(h, p, L, out, w=None):
    bad = []
    he, ce = np.asarray(out[0], float), np.asarray(out[1], float)
    if he.shape != (L,) or ce.shape != (L,):
        return [("equivalent_layers:exactly-L", dict(L=L, n=len(ce)))]
    if np.any(ce < 0):
        bad.append(("equivalent_layers:non-negative", dict(cn2=ce.tolist())))
    if abs(ce.sum() - p.sum()) > 1e-12 * p.sum():
        bad.append(("equivalent_layers:total-conserved", dict(total_in=float(p.sum()), total_out=float(ce.sum()), L=L,
                                                               hmax=float(h.max()))))
    live = ce > 0
    m_in, m_out = (p * h ** (5 / 3)).sum(), (ce[live] * he[live] ** (5 / 3)).sum()
    if not bad and abs(m_in - m_out) > 1e-9 * max(m_in, 1e-300):
        bad.append(("equivalent_layers:height-moment", dict(m_in=float(m_in), m_out=float(m_out))))
    if w is not None and not bad:
        we = np.asarray(out[2], float)
        v_in, v_out = (p * w ** (5 / 3)).sum(), (ce[live] * we[live] ** (5 / 3)).sum()
        if we.shape != (L,) or abs(v_in - v_out) > 1e-9 * max(v_in, 1e-300):
            bad.append(("equivalent_layers:wind-moment", dict(v_in=float(v_in), v_out=float(v_out))))
    return bad


def check_el(pc, c):
    h = np.array(c["h"], dtype=float)
    p = np.array(c["p"], dtype=float)
    w = 3.0 + np.arange(len(h)) % 3 + 0.5 * np.arange(len(h))
    bad = laws_el(h, p, c["L"], pc.equivalent_layers(h.copy(), p.copy(), c["L"]))
    bad += laws_el(h, p, c["L"], pc.equivalent_layers(h.copy(), p.copy(), c["L"], w=w.copy()), w=w)
    if not bad:
        # tabulated profiles often come as integers (metres, whole m/s, counts): the same laws must hold
        hi, wi, pi_ = np.array(c["h"], dtype=np.int64), np.rint(2 * w).astype(np.int64), np.array(c["p"], dtype=np.int64)
        for nm, (hh, pp, ww) in (("integer-heights", (hi, p, w)), ("integer-wind", (h, p, wi)), ("integer-strengths", (h, pi_, w))):
            b2 = laws_el(np.asarray(hh, float), np.asarray(pp, float), c["L"], pc.equivalent_layers(hh.copy(), pp.copy(), c["L"], w=ww.copy()),
                         w=np.asarray(ww, float))
            if b2:
                bad.append((b2[0][0] + ":" + nm, b2[0][1]))
                break
    if not bad:
        # the same profile in physical units (Cn2 dh of 1e-13 ... 1e-20 m^(1/3)): the laws are homogeneous in the strengths
        for sc_ in (1e-13, 1e-17, 1e-20, 1e6):
            b2 = laws_el(h, p * sc_, c["L"], pc.equivalent_layers(h.copy(), p * sc_, c["L"], w=w.copy()), w=w)
            if b2:
                bad.append((b2[0][0] + ":strength-scale", dict(b2[0][1], scale=sc_)))
                break
    if not bad:
        # calm layers (wind speed exactly zero) are layers: they pull their slab's wind moment down
        wz = w.copy()
        wz[::2] = 0.0
        b2 = laws_el(h, p, c["L"], pc.equivalent_layers(h.copy(), p.copy(), c["L"], w=wz.copy()), w=wz)
        if b2:
            bad.append((b2[0][0] + ":layers-without-wind", b2[0][1]))
    if not bad and len(h) >= 3:
        # the order in which the layers are listed (top-down tables, unsorted concatenations) is not part of the profile
        perm = np.argsort(np.sin(1.0 + 5.0 * np.arange(len(h))))
        for label, ix in (("top-down", np.arange(len(h))[::-1]), ("shuffled", perm)):
            b2 = laws_el(h[ix], p[ix], c["L"], pc.equivalent_layers(h[ix].copy(), p[ix].copy(), c["L"], w=w[ix].copy()), w=w[ix])
            if b2:
                bad.append((b2[0][0] + ":layers-listed-" + label, b2[0][1]))
                break
    drift = []
    if not bad and not c["onedge"]:
        got = np.asarray(pc.equivalent_layers(h.copy(), p.copy(), c["L"])[1], float)
        if not np.array_equal(got, np.array(c["cn2"], float)):
            drift.append(("equivalent_layers:slab-assignment", dict(got=got.tolist(), model=c["cn2"])))
    return bad, drift


def check_scan(pc, c, nlayers=(5, 64)):
    bad = []
    for n in nlayers:
        h = np.linspace(0.0, c["top7"] / 7.0, n)
        p = 1.0 + (np.arange(n) % 4)
        if c["L"] >= n:
            continue
        w = 5.0 + (np.arange(n) % 3)
        bad += laws_el(h, p, c["L"], pc.equivalent_layers(h.copy(), p.copy(), c["L"], w=w.copy()), w=w)
        if bad:
            break
    return bad


def check_gctm(pc, rng):
    """exactly L, non-negative; and (auxiliary, optimiser accuracy) the first 2L-1 moments within 5e-2 - the unchanged code reaches
    1e-6 .. 3e-3 on these profiles"""
    bad = []
    n = 0
    worst = 0.0
    for N, L, h0 in ((10, 2, 0.0), (12, 3, 0.0), (20, 4, 0.0), (9, 1, 0.0), (12, 2, 500.0), (16, 3, 2000.0)):
        h = np.linspace(h0, h0 + 15000.0, N)
        p = (1.0 + rng.integers(0, 5, size=N)) * 1e-15
        out = pc.GCTM(h.copy(), p.copy(), L)
        hh, cc = np.asarray(out[0], float), np.asarray(out[1], float)
        n += 1
        if hh.shape != (L,) or cc.shape != (L,):
            bad.append(("GCTM:exactly-L", dict(L=L)))
            continue
        if np.any(cc < 0) or np.any(hh < 0) or not np.all(np.isfinite(hh)) or not np.all(np.isfinite(cc)):
            bad.append(("GCTM:non-negative", dict(h=hh.tolist(), cn2=cc.tolist())))
            continue
        for k in range(2 * L - 1):
            m_in, m_out = (p * (h / 1e4) ** k).sum(), (cc * (hh / 1e4) ** k).sum()
            rel = abs(m_out - m_in) / m_in
            worst = max(worst, rel)
            if rel > 5e-2:
                bad.append(("GCTM:moment-%d-not-reproduced" % k, dict(N=N, L=L, lowest_layer=h0, rel=float(rel))))
                break
    # realistic profiles (20-40 irregular layers, L = 3..5): every one of the 2L-1 moments within 5e-2 unless even the
    # equivalent-layers starting guess of the optimiser is that far off (the unchanged code stays below 2e-2 on such profiles)
    def momerr(hx, cx, L_):
        return max(abs((cx * (hx / 1e4) ** k).sum() - (p * (h / 1e4) ** k).sum()) / (p * (h / 1e4) ** k).sum() for k in range(2 * L_ - 1))
    n_out_of_scope = 0
    for t in range(getattr(check_gctm, "n_random", 24)):
        N, L = int(rng.integers(20, 41)), int(rng.integers(3, 7))
        kind = t % 4
        h = np.linspace(0, 20000.0, N) if kind == 0 else np.sort(rng.uniform(0, 1, N) ** kind * 20000.0)
        h[0] = 0.0
        p = rng.uniform(0.01, 1.0, N) ** 3 * (1e-13 if t % 2 else 1e-14)
        # the statement's scope for this method: all L equal-thickness slabs of the profile are non-empty (its starting guess needs that)
        edges = h.min() + (h.max() - h.min()) / L * np.arange(L + 1)
        occupied = np.histogram(h, bins=edges)[0]
        g0 = pc.equivalent_layers(h.copy(), p.copy(), L)
        if occupied.min() == 0 or not np.all(np.isfinite(np.asarray(g0[0], float))) or np.any(np.asarray(g0[1], float) <= 0):
            n_out_of_scope += 1
            continue
        out = pc.GCTM(h.copy(), p.copy(), L)
        hh, cc = np.asarray(out[0], float), np.asarray(out[1], float)
        n += 1
        if hh.shape != (L,) or cc.shape != (L,) or np.any(cc < 0) or np.any(hh < 0) or not np.all(np.isfinite(hh)) or not np.all(np.isfinite(cc)):
            bad.append(("GCTM:exactly-L-non-negative:irregular-profile", dict(N=N, L=L)))
            break
        g = pc.equivalent_layers(h.copy(), p.copy(), L)
        e_out, e_start = momerr(hh, cc, L), momerr(np.asarray(g[0], float), np.asarray(g[1], float), L)
        worst = max(worst, min(e_out, e_start))
        # the layers are (height, strength) PAIRS: no other assignment of the returned strengths to the returned heights may
        # reproduce the moments much better than the one returned
        if e_out > 1e-2:
            e_best = min(momerr(hh, cc[list(pm)], L) for pm in itertools.permutations(range(L)))
            if e_best < e_out / 3:
                bad.append(("GCTM:strengths-attached-to-wrong-heights", dict(N=N, L=L, rel_as_returned=float(e_out), rel_best_assignment=float(e_best),
                                                                             h=hh.tolist(), cn2=cc.tolist())))
                break
        if e_out > 5e-2 and e_out > e_start:
            bad.append(("GCTM:moments-worse-than-starting-guess", dict(N=N, L=L, rel_out=float(e_out), rel_start=float(e_start), h=hh.tolist(), cn2=cc.tolist())))
            break
    # a surface layer at exactly 0 m that sits alone in the lowest slab / dominates the profile: the optimum has a layer ON the bound
    # h = 0 (L <= 2, where the unchanged code reaches 1e-5)
    for label, (hg, pg) in (("surface-layer-alone-in-lowest-slab", (np.array([0.0, 4000.0, 5000.0, 6500.0, 8000.0, 9000.0, 11000.0, 12000.0]),
                                                                     np.array([6.0, 1.0, 2.0, 1.0, 1.5, 1.0, 0.5, 0.3]) * 1e-14)),
                            ("dominant-ground-layer", (np.array([0.0, 2500.0, 3000.0, 5000.0, 7000.0, 10000.0, 13000.0]),
                                                        np.array([50.0, 1.0, 1.0, 2.0, 1.0, 1.0, 0.5]) * 1e-14))):
        for L in (1, 2):
            out = pc.GCTM(hg.copy(), pg.copy(), L)
            hh, cc = np.asarray(out[0], float), np.asarray(out[1], float)
            n += 1
            err = max(abs((cc * (hh / 1e4) ** k).sum() - (pg * (hg / 1e4) ** k).sum()) / (pg * (hg / 1e4) ** k).sum() for k in range(2 * L - 1)) \
                if hh.shape == (L,) and np.all(np.isfinite(hh)) and np.all(np.isfinite(cc)) else float("inf")
            if not err <= 1e-3:
                bad.append(("GCTM:moments-not-reproduced:" + label, dict(L=L, rel=float(err), h=hh.tolist(), cn2=cc.tolist())))
                break
    # a slab whose only layer lies a few metres below the slab's upper edge (all slabs occupied: in scope)
    for hd, Ld in ((np.array([0.0, 2000.0, 5000.0, 13330.0, 15000.0, 17000.0, 20000.0]), 3), (np.array([0.0, 3000.0, 9995.0, 12000.0, 16000.0, 20000.0]), 2),
                   (np.array([0.0, 1000.0, 4998.5, 7000.0, 9999.0, 12000.0, 14999.5, 18000.0, 20000.0]), 4)):
        pd_ = (1.0 + np.arange(len(hd)) % 3) * 1e-14
        edges = hd.min() + (hd.max() - hd.min()) / Ld * np.arange(Ld + 1)
        if np.histogram(hd, bins=edges)[0].min() == 0:
            continue
        out = pc.GCTM(hd.copy(), pd_.copy(), Ld)
        hh, cc = np.asarray(out[0], float), np.asarray(out[1], float)
        n += 1
        okd = hh.shape == (Ld,) and np.all(np.isfinite(hh)) and np.all(np.isfinite(cc)) and np.all(cc >= 0) and np.all(hh >= 0)
        if okd:
            errd = max(abs((cc * (hh / 1e4) ** k).sum() - (pd_ * (hd / 1e4) ** k).sum()) / (pd_ * (hd / 1e4) ** k).sum() for k in range(2 * Ld - 1))
            okd = errd <= 5e-2
        if not okd:
            bad.append(("GCTM:exactly-L-non-negative:layer-just-below-a-slab-edge", dict(L=Ld, h=hh.tolist(), cn2=cc.tolist())))
            break
    # the optional scalings are numerical conditioning only: the profile in kilometres with h_scaling=10, a shallow profile with
    # h_scaling=5000, strengths re-scaled with cn2_scaling - the returned layers must describe the same (re-scaled) profile
    h = np.linspace(0.0, 15000.0, 14)
    p = (1.0 + np.arange(14) % 4) * 1e-15
    for label, (hh_in, pp_in, kw, hfac, pfac) in (("heights-in-km", (h / 1e3, p, dict(h_scaling=10.0), 1e3, 1.0)),
                                                  ("shallow-profile", (h / 3.0, p, dict(h_scaling=5000.0 / 1.5), 3.0, 1.0)),
                                                  ("strong-profile", (h, p * 50, dict(cn2_scaling=5e-12), 1.0, 1.0 / 50))):
        for L in (2, 3):
            out = pc.GCTM(hh_in.copy(), pp_in.copy(), L, **kw)
            hh, cc = np.asarray(out[0], float) * hfac, np.asarray(out[1], float) * pfac
            n += 1
            if hh.shape != (L,) or np.any(hh < -1e-6) or np.any(hh > h.max() * 1.2) or momerr(hh, cc, L) > 5e-2:
                bad.append(("GCTM:optional-scaling-changes-the-profile:" + label, dict(L=L, h=hh.tolist(), cn2=cc.tolist(), rel=float(momerr(hh, cc, L)))))
                break
    check_gctm.worst = worst
    check_gctm.out_of_scope = n_out_of_scope
    return bad, n


def _mods():
    core.import_aotools()
    from aotools.turbulence import profile_compression
    return profile_compression


def run(run):
    pc = _mods()
    quick = run.tier == "quick"
    cfg = "ProfileComp_quick.cfg" if quick else "ProfileComp_thorough.cfg"
    r = run.tlc("ProfileComp", cfg, require_actions=("Choose", "MinIter", "Keep", "Restart", "Return", "ELStep"), timeout=3400)
    if r.violated:
        raise core.MachineryError("ProfileComp.tla violates its own invariant %s" % r.violated)
    run.bounds = dict(cfg=cfg, text=(core.SPEC / cfg).read_text())
    rng = np.random.default_rng(run.seed)
    kinds = {}
    table = {}
    with warnings.catch_warnings():
        warnings.simplefilter("ignore")
        with np.errstate(all="ignore"):
            cases = r.printed
            n_og = sum(1 for c in cases if c["kind"] == "og")
            cap = 60000 if quick else 200000
            if n_og > cap:
                # the model has every case; the binding replays a seeded sample of the optimal-grouping ones (all others in full)
                keep = set(rng.choice(n_og, size=cap, replace=False).tolist())
                idx = -1
                sampled = []
                for c in cases:
                    if c["kind"] == "og":
                        idx += 1
                        if idx not in keep:
                            continue
                    sampled.append(c)
                run.notes.append("optimal-grouping terminal states: %d in the model, %d replayed" % (n_og, cap))
                run.exhaustive = False
                cases = sampled
            for c in cases:
                k = c["kind"]
                if k == "og":
                    bad, drift = check_og(pc, c)
                    table[(tuple(c["h"]), tuple(c["p"]), c["L"], tuple(tuple(s) for s in c["restarts"]))] = (c["heights"], c["cn2"])
                elif k == "el":
                    bad, drift = check_el(pc, c)
                else:
                    bad, drift = check_scan(pc, c), []
                kinds[k] = kinds.get(k, 0) + 1
                run.traces += 1
                if kinds[k] == 200:
                    run.sample(c, limit=4)
                for key, detail in bad:
                    run.violation(key, detail, c)
                for key, detail in drift:
                    run.drift(key, detail)
            # real global generator: whatever it draws must be an outcome the model allowed, with the model's result
            real = 0
            ogs = [c for c in r.printed if c["kind"] == "og" and c["R"] == 2 and c["L"] >= 2]
            for s in range(20 if quick else 200):
                c = ogs[int(rng.integers(0, len(ogs)))]
                drawn = []
                orig = np.random.choice

                def rec(options, size=None, replace=True, p=None, _o=orig, _d=drawn):
                    v = _o(options, size=size, replace=replace, p=p)
                    _d.append(tuple(sorted(int(x) for x in np.atleast_1d(v))))
                    return v
                np.random.seed(1000 + s + run.seed % 1000)
                np.random.choice = rec
                try:
                    out = pc.optimal_grouping(2, c["L"], np.array(c["h"], float), np.array(c["p"], float))
                finally:
                    np.random.choice = orig
                real += 1
                key = (tuple(c["h"]), tuple(c["p"]), c["L"], tuple(drawn))
                bad = laws_og(np.array(c["h"], float), np.array(c["p"], float), c["L"], out[0], out[1], None, None)
                for kk, detail in bad:
                    run.violation(kk, detail, dict(c, restarts=[list(d) for d in drawn], global_seed=1000 + s))
                if not bad and key in table and (np.asarray(out[0]).tolist() != [float(v) for v in table[key][0]]):
                    run.drift("optimal_grouping:global-seed-result", dict(seed=1000 + s))
                if key not in table:
                    run.drift("optimal_grouping:restart-outcome-outside-model", dict(drawn=drawn))
            badd, nd = check_duplicate_heights(pc)
            run.traces += nd
            for key, detail in badd:
                run.violation(key, detail, dict(kind="duplicates"))
            check_gctm.n_random = 80 if run.tier == "quick" else 800
            bad, ng = check_gctm(pc, rng)
            for key, detail in bad:
                run.violation(key, detail, dict(kind="gctm"))
    run.aux.update(cases_by_kind=kinds, real_global_seed_runs=real, gctm_cases=ng, gctm_worst_moment_error=getattr(check_gctm, 'worst', None), gctm_random_profiles_outside_scope=getattr(check_gctm, 'out_of_scope', None))
    run.traces += real
    run.assumptions += [
        "GCTM: 'exactly L' and non-negativity are checked; reproducing 2L-1 moments is optimiser accuracy - asserted only as an "
        "auxiliary float check (5e-2 relative) on six profiles, two of them starting above 0 m",
        "equivalent_layers heights of zero-strength (empty) slabs are not judged; moments are summed over layers with strength > 0",
        "a layer exactly on an interior slab edge may fall on either side in floating point (conservation is unaffected)",
    ]


def replay(run, case):
    pc = _mods()
    k = case.get("kind")
    with warnings.catch_warnings():
        warnings.simplefilter("ignore")
        with np.errstate(all="ignore"):
            if k == "og":
                bad, _ = check_og(pc, case)
            elif k == "el":
                bad, _ = check_el(pc, case)
            elif k == "elscan":
                bad = check_scan(pc, case)
            else:
                bad, _ = check_gctm(pc, np.random.default_rng(run.seed))
    for key, detail in bad:
        run.violation(key, detail, case)
