"""C11 - propagators form a group and agree with each other and with theory (spec/Propagation.tla).

Decided with the model: distance 0 is the identity, every PROGRAM of unit-magnification steps collapses to the single step
of the total distance (TLC enumerates all programs up to the length bound and checks the collapse on exact rational
transfer-function coefficients, with the DFT cancellation checked on the exponent tables), -z undoes +z, magnification m
followed by 1/m is a constant phase, every propagator is the discretised Fresnel integral the pipeline describes, and the
SIGNED spacing bookkeeping decides the orientation of the output.  Each program is replayed on the real angularSpectrum.
Not decided: equality of different discretisations, Gaussian-beam and Airy solutions (approximation statements)."""
import warnings

import numpy as np

from harness import core
from harness import prop_interp as PI
from harness.checks import c10


def run_program(op, prog, N, phys, U):
    lam, d1, z0 = phys
    out = U
    for zm in prog:
        out = op.angularSpectrum(out, lam, d1, d1, zm * z0)
    return np.asarray(out)


def centroid(I):
    n = I.shape[0]
    x = np.arange(-n // 2, n // 2)
    t = I.sum()
    return np.array([(I.sum(0) * x).sum() / t, (I.sum(1) * x).sum() / t])


def orientation(op, m, sign):
    """a well-resolved off-axis Gaussian beam: the side of the axis its centroid lands on, two-step vs angular spectrum"""
    N, lam, d1 = 64, 1e-6, 1e-3
    # distance chosen so that the two-step method's intermediate grid has the input spacing (both methods then resolve the beam)
    z = sign * (abs(1 - m) if m != 1 else 2.0) * N * d1 ** 2 / lam
    x = np.arange(-N // 2, N // 2) * d1
    X, Y = np.meshgrid(x, x)
    w = 5 * d1
    U = np.exp(-((X - 6 * d1) ** 2 + (Y + 9 * d1) ** 2) / w ** 2) + 0j
    a = centroid(np.abs(np.asarray(op.angularSpectrum(U.copy(), lam, d1, m * d1, z))) ** 2)
    t = centroid(np.abs(np.asarray(op.twoStepFresnel(U.copy(), lam, d1, m * d1, z))) ** 2)
    return a, t


def run(run):
    core.import_aotools()
    from aotools import opticalpropagation as op
    quick = run.tier == "quick"
    cfg = "Propagation_quick.cfg" if quick else "Propagation_thorough.cfg"
    r = run.tlc("Propagation", cfg, require_actions=("Build", "Step", "RoundTrip"), timeout=3400)
    if r.violated:
        raise core.MachineryError("Propagation.tla violates its own invariant %s" % r.violated)
    tables = c10._tables()
    run.bounds = dict(cfg=cfg, text=(core.SPEC / cfg).read_text(), physical_sets=PI.PHYS)
    rng = np.random.default_rng(run.seed)
    warnings.simplefilter("ignore")
    progs = [c for c in r.printed if c["kind"] == "program"]
    backs = [c for c in r.printed if c["kind"] == "magnify-back"]
    pipes = [c for c in r.printed if c["kind"] == "pipeline"]
    n_prog = 0
    with np.errstate(all="ignore"):
        fields = {}
        for k, c in enumerate(progs):
            N = c["N"]
            phys = PI.PHYS[k % len(PI.PHYS)]                  # consecutive programs use different spacings / wavelengths
            lam, d1, z0 = phys
            if N not in fields:
                imp = np.zeros((N, N), complex)
                imp[N // 2 - 1, 0] = 1
                fields[N] = [rng.standard_normal((N, N)) + 1j * rng.standard_normal((N, N)), imp]
            for U in fields[N]:
                got = run_program(op, c["prog"], N, phys, U.copy())
                want = U if c["total"] == 0 else np.asarray(op.angularSpectrum(U.copy(), lam, d1, d1, c["total"] * z0))
                n_prog += 1
                if got.shape != U.shape or not np.allclose(got, want, rtol=0, atol=1e-9 * np.abs(U).max() * max(1, len(c["prog"]))):
                    kind = "inverse" if c["total"] == 0 else "additive"
                    run.violation("angularSpectrum:group-law:%s" % kind,
                                  dict(N=N, prog=c["prog"], total=c["total"], phys=phys, err=float(np.abs(got - want).max())), c)
                    break
                # the collapsed transfer function of the model is what the direct step applies
                if c["total"] != 0:
                    st = [dict(t="dft", fwd=True), dict(t="diag", dom="f", c=c["acc"]), dict(t="dft", fwd=False)]
                    model = PI.interpret(st, N, phys, U, tables)
                    if not np.allclose(want, model, rtol=0, atol=1e-9 * np.abs(U).max()):
                        run.violation("angularSpectrum:transfer-function", dict(N=N, total=c["total"], phys=phys), c)
                        break
        # the group law does not depend on the grid being even: the same programs on odd grids (code against code)
        n_odd = 0
        for N in (3, 5, 7, 26, 34, 96):                # ... nor on its size being FFT-friendly (26 = 2 x 13, 34 = 2 x 17) or a multiple of 64
            U = rng.standard_normal((N, N)) + 1j * rng.standard_normal((N, N))
            for k, c in enumerate([c for c in progs if c["N"] == progs[0]["N"]][::7]):
                phys = PI.PHYS[k % len(PI.PHYS)]
                lam, d1, z0 = phys
                got = run_program(op, c["prog"], N, phys, U.copy())
                want = U if c["total"] == 0 else np.asarray(op.angularSpectrum(U.copy(), lam, d1, d1, c["total"] * z0))
                n_odd += 1
                if got.shape != U.shape or not np.allclose(got, want, rtol=0, atol=1e-9 * np.abs(U).max() * max(1, len(c["prog"]))):
                    run.violation("angularSpectrum:group-law:" + ("odd-grid" if N % 2 else "grid-size-with-large-prime-factor" if N in (26, 34) else "large-grid"), dict(N=N, prog=c["prog"], total=c["total"], phys=phys,
                                                                             err=float(np.abs(got - want).max())), dict(c, N=N))
                    break
        n_prog += n_odd
        # the caller's field is still the caller's field after a call (complex input, magnification != 1)
        for N in sorted(fields):
            U = fields[N][0].copy()
            keep = U.copy()
            for m in (1.5, 1.0, 0.5):
                o1 = np.array(op.angularSpectrum(U, 1e-6, 1e-2, m * 1e-2, 150.0), copy=True)
                o2 = np.asarray(op.angularSpectrum(U, 1e-6, 1e-2, m * 1e-2, 150.0))
                if not np.array_equal(U, keep) or not np.array_equal(o1, o2):
                    run.violation("angularSpectrum:input-field-modified", dict(N=N, m=m), dict(kind="zero", N=N))
                    break
        # distance zero returns the input
        for N in sorted(fields):
            U = fields[N][0]
            out = np.asarray(op.angularSpectrum(U.copy(), 1e-6, 1e-2, 2e-2, 0))
            if out.shape != U.shape or not np.array_equal(out, U):
                run.violation("angularSpectrum:zero-distance-not-identity", dict(N=N), dict(kind="zero", N=N))
        # a distance reached through very many very short steps is the same distance (no step is "too short to matter"):
        # per-step Fresnel phase lam z / d^2 from 1e-9 to 1e-5, one to a few thousand steps
        n_fine = 0
        for (lam, d1, per_step, K) in ((1e-6, 1e-3, 0.9e-6, 2000), (1e-6, 1e-3, 1e-8, 3000), (500e-9, 1e-2, 1e-5, 1000), (1e-6, 1e-3, 1e-9, 1500)):
            N = 8
            U = fields[N][0] if N in fields else (rng.standard_normal((N, N)) + 1j * rng.standard_normal((N, N)))
            zs = per_step * d1 ** 2 / lam
            for sgn in (1, -1):
                W = U.copy()
                for _ in range(K):
                    W = np.asarray(op.angularSpectrum(W, lam, d1, d1, sgn * zs))
                one = np.asarray(op.angularSpectrum(U.copy(), lam, d1, d1, sgn * K * zs))
                n_fine += 1
                moved = float(np.abs(one - U).max())
                if W.shape != one.shape or not np.allclose(W, one, rtol=0, atol=1e-9 * np.abs(U).max()):
                    run.violation("angularSpectrum:group-law:many-short-steps", dict(lam=lam, d1=d1, step=sgn * zs, steps=K, err=float(np.abs(W - one).max()),
                                                                                    field_change_of_single_step=moved),
                                  dict(kind="fine", lam=lam, d1=d1, per_step=per_step, K=K, sgn=sgn))
                    break
        n_prog += n_fine
        # m then 1/m
        n_back = 0
        for c in backs:
            N = c["N"]
            for phys in PI.PHYS:
                lam, d1, z0 = phys
                U = fields[N][0]
                m = float(PI.rat(c["m"]))
                z = float(PI.rat(c["zm"])) * z0
                mid = op.angularSpectrum(U.copy(), lam, d1, m * d1, z)
                back = np.asarray(op.angularSpectrum(np.asarray(mid).copy(), lam, m * d1, d1, -z))
                n_back += 1
                ratio = back / U
                if back.shape != U.shape or not np.allclose(ratio, ratio.flat[0], rtol=0, atol=1e-8) or abs(abs(ratio.flat[0]) - 1) > 1e-8:
                    run.violation("angularSpectrum:magnify-back-not-constant-phase", dict(N=N, m=c["m"], zm=c["zm"], phys=phys), c)
                    break
                want = PI.interpret(c["stages"], N, phys, U, tables)
                if not np.allclose(back, want, rtol=0, atol=1e-8 * np.abs(U).max()):
                    run.violation("angularSpectrum:magnify-back-field", dict(N=N, m=c["m"], zm=c["zm"], phys=phys), c)
                    break
        # every propagator evaluates the Fresnel integral its pipeline describes (field values, incl. wavefront curvature)
        n_pipe = 0
        for c in pipes:
            bad, n = c10.check_pipeline(op, c, tables, rng, keyprefix="fresnel-integral:")
            n_pipe += n
            for key, detail in bad:
                run.violation(key, detail, dict(c, kind="pipeline"))
        # the laws that tie the propagators to one integral on ANY grid scale (near-unity magnifications on micron grids, short distances,
        # chains of steps): shared with C10
        badl, nl = c10.direct_laws(op, rng, 6)
        n_pipe += nl
        for key, detail in badl:
            run.violation("fresnel-integral:" + key, detail, dict(kind="direct"))
        # orientation: model says the two-step output is mirrored exactly when d2 != d1
        orient = []
        for m in (0.5, 1.0, 2.0, 1.5):
            for sign in (1, -1):
                a, t = orientation(op, m, sign)
                same = bool(np.all(np.sign(np.round(a, 1)) == np.sign(np.round(t, 1))) and np.abs(a - t).max() < 2.0)
                orient.append(dict(m=m, sign=sign, angularSpectrum=a.round(2).tolist(), twoStepFresnel=t.round(2).tolist(), same=same))
                if not same:
                    cls = "d2!=d1" if m != 1.0 else "d2==d1"
                    run.violation("twoStepFresnel:orientation-mirrored:%s" % cls, orient[-1], dict(kind="orientation", m=m, sign=sign))
    run.traces += n_prog + n_back + n_pipe
    run.sample(progs[min(50, len(progs) - 1)])
    run.sample(backs[0])
    run.aux.update(programs=len(progs), program_executions=n_prog, magnify_back_cases=n_back, pipeline_field_comparisons=n_pipe,
                   orientation=orient)
    run.assumptions += [
        "NOT decided: agreement of different propagators as different discretisations of the integral, Gaussian-beam width / "
        "curvature / Gouy phase, Airy pattern (approximation statements with no exact discrete counterpart)",
        "orientation is bound numerically through the intensity centroid of a resolved off-axis Gaussian beam (64 x 64)",
    ]


def replay(run, case):
    core.import_aotools()
    from aotools import opticalpropagation as op
    warnings.simplefilter("ignore")
    rng = np.random.default_rng(run.seed)
    k = case.get("kind")
    with np.errstate(all="ignore"):
        if k == "orientation":
            a, t = orientation(op, case["m"], case["sign"])
            if not (np.all(np.sign(np.round(a, 1)) == np.sign(np.round(t, 1))) and np.abs(a - t).max() < 2.0):
                run.violation("twoStepFresnel:orientation-mirrored", dict(a=a.tolist(), t=t.tolist()), case)
        elif k == "direct":
            for key, detail in c10.direct_laws(op, rng, 6)[0]:
                run.violation("fresnel-integral:" + key, detail, case)
        elif k == "pipeline":
            bad, _ = c10.check_pipeline(op, case, c10._tables(), rng, keyprefix="fresnel-integral:")
            for key, detail in bad:
                run.violation(key, detail, case)
        elif k == "fine":
            N = 8
            U = rng.standard_normal((N, N)) + 1j * rng.standard_normal((N, N))
            zs = case["per_step"] * case["d1"] ** 2 / case["lam"] * case["sgn"]
            W = U.copy()
            for _ in range(case["K"]):
                W = np.asarray(op.angularSpectrum(W, case["lam"], case["d1"], case["d1"], zs))
            one = np.asarray(op.angularSpectrum(U.copy(), case["lam"], case["d1"], case["d1"], case["K"] * zs))
            if not np.allclose(W, one, rtol=0, atol=1e-9 * np.abs(U).max()):
                run.violation("angularSpectrum:group-law:many-short-steps", dict(err=float(np.abs(W - one).max())), case)
        elif k == "program":
            for phys in PI.PHYS:
                lam, d1, z0 = phys
                N = case["N"]
                U = rng.standard_normal((N, N)) + 1j * rng.standard_normal((N, N))
                got = run_program(op, case["prog"], N, phys, U.copy())
                want = U if case["total"] == 0 else np.asarray(op.angularSpectrum(U.copy(), lam, d1, d1, case["total"] * z0))
                if not np.allclose(got, want, rtol=0, atol=1e-9 * np.abs(U).max() * 4):
                    run.violation("angularSpectrum:group-law", dict(phys=phys), case)
