"""C02 - the tomographic reconstructor is the minimum-variance linear estimator (spec/Tomo.tla).

Mode "gen": TLC enumerates a family of integer covariance matrices C = G G^T whose off-axis block is unimodular (the true
reconstructor is then an integer matrix), including the family where the on-axis rows duplicate the first off-axis sensor.
Each member is handed to the real create_tomographic_covariance_reconstructor (twice, on the same array) and to
make_tomographic_reconstructor on an object whose matrix is swapped between calls; the returned floats are rounded to
integers (a rounding residual above 1e-6 is itself a rejection) and written to a trace.
Mode "val": TLC reads the trace and decides, exactly, shape, normal equations, optimality against all unit perturbations and
the selector clause, one total verdict per case.  Conditioning > 0 and the end-to-end clause through the covariance builder
are auxiliary float checks."""
import json
import os
import shutil
import tempfile
import warnings

import numpy as np

from harness import core
from harness.checks import c03


def to_int(R):
    R = np.asarray(R, float)
    Ri = np.rint(R)
    return Ri.astype(int).tolist(), float(np.abs(R - Ri).max()) if R.size else 0.0


def holder(sc):
    """an object of the real class whose covariance matrix we can set (2 sub-apertures per sensor are not needed: n_on = 1)"""
    g = c03.geometry(2)
    cm = sc.CovarianceMatrix(g["n_wfs"], g["pupil_masks"], g["telescope_diameter"], g["subap_diameters"], g["gs_altitudes"],
                             g["gs_positions"], g["wfs_wavelengths"], g["n_layers"], g["layer_altitudes"], g["layer_r0s"], g["layer_L0s"])
    return cm


def end_to_end(sc, which, cond, threads=1, mixed=False, layers=(0.0, 7000.0), off_pos=None, vignetted=None):
    """on-axis sensor duplicating off-axis sensor `which` of a three-sensor system built by the real covariance builder
    (optionally by its multi-process path, optionally with a different wavelength per off-axis sensor)"""
    n = 4
    yy, xx = np.indices((n, n))
    ring = ((xx - 1.5) ** 2 + (yy - 1.5) ** 2 <= 4.1).astype(float)
    off_pos = off_pos or [[10.0, 0.0], [-6.0, 8.0], [-5.0, -9.0]]
    off_alt = [90000.0, 0.0, 90000.0]
    off_masks = [ring, ring, ring]
    if vignetted is not None:                 # one off-axis sensor sees a vignetted pupil: sensors with different numbers of sub-apertures
        vm = ring.copy()
        vm[np.argwhere(ring == 1)[0][0], np.argwhere(ring == 1)[0][1]] = 0
        vm[np.argwhere(ring == 1)[-1][0], np.argwhere(ring == 1)[-1][1]] = 0
        off_masks[vignetted] = vm
    masks = [off_masks[which]] + off_masks
    pos = [off_pos[which]] + off_pos
    alt = [off_alt[which]] + off_alt
    off_wl = [500e-9, 900e-9, 1650e-9] if mixed else [600e-9] * 3
    wl = [off_wl[which]] + off_wl
    cm = sc.CovarianceMatrix(4, np.array(masks), 4.0, np.array([1.0] * 4), np.array(alt), np.array(pos), np.array(wl),
                             2, np.array(layers), np.array([0.2, 0.35]), np.array([25.0, 30.0]), threads=threads)
    cm.make_covariance_matrix()
    R = np.asarray(cm.make_tomographic_reconstructor(cond), float)
    counts = [int(m_.sum()) for m_ in off_masks]
    ns = counts[which]
    want = np.zeros((2 * ns, 2 * sum(counts)))
    c0 = 2 * sum(counts[:which])
    want[:, c0:c0 + 2 * ns] = np.eye(2 * ns)
    if R.shape != want.shape:
        return float("inf"), cm
    return float(np.abs(R - want).max()), cm


def run(run):
    core.import_aotools()
    from aotools.turbulence import slopecovariance as sc
    quick = run.tier == "quick"
    r = run.tlc("Tomo", "Tomo_gen.cfg", label="Tomo/gen", require_actions=("BuildC",), timeout=1200)
    if r.violated:
        raise core.MachineryError("Tomo.tla (gen) violates %s" % r.violated)
    cases = r.printed
    rng = np.random.default_rng(run.seed)
    cap = 600 if quick else len(cases)
    if len(cases) > cap:
        dups = [c for c in cases if c["dup"]]
        rest = [c for c in cases if not c["dup"]]
        idx = rng.permutation(len(rest))[:cap - len(dups)]
        cases = dups + [rest[i] for i in idx]
    warnings.simplefilter("ignore")
    cm = holder(sc)
    trace = []
    meta = {}
    prev = None
    for k, c in enumerate(cases):
        C = np.array(c["C"], dtype=float)
        non = c["non"]
        keep = C.copy()
        R1 = sc.create_tomographic_covariance_reconstructor(C, non, 0)
        R2 = sc.create_tomographic_covariance_reconstructor(C, non, 0)           # same array again: no state, argument intact
        arg_ok = np.array_equal(C, keep)
        # through the class: the matrix on the object changes between two calls with the same conditioning
        cm.covariance_matrix = keep.copy()
        cm.n_subaps = np.array([non, (C.shape[0] - 2 * non) // 2])
        R3 = cm.make_tomographic_reconstructor(0)
        Ri, res = to_int(R1)
        for tag, Rx in (("second-call-on-same-matrix", R2), ("method-after-matrix-changed", R3)):
            if np.asarray(Rx).shape != np.asarray(R1).shape or not np.allclose(Rx, R1, rtol=0, atol=1e-9 * max(1.0, np.abs(R1).max())):
                run.violation("reconstructor:%s-differs" % tag, dict(case=c, first=np.asarray(R1).tolist(), other=np.asarray(Rx).tolist()),
                              dict(kind="case", case=c, prev=prev))
        if not arg_ok:
            run.violation("reconstructor:covariance-argument-modified", dict(case=c), dict(kind="case", case=c, prev=prev))
        if res > 1e-6:
            run.violation("reconstructor:not-the-integer-solution", dict(case=c, residual=res, got=np.asarray(R1).tolist()),
                          dict(kind="case", case=c, prev=prev))
            continue
        # the same problem with the off-axis slopes in very different units (every second one scaled by 2^-12): C_off,off is then
        # ill conditioned (cond ~ 1e7..1e8) but the estimator is the same up to that exact scaling
        m = C.shape[0] - 2 * non
        sv = np.array([1.0] * (2 * non) + [1.0 if j % 2 == 0 else 2.0 ** -12 for j in range(m)])
        C2 = keep * np.outer(sv, sv)
        Rs = np.asarray(sc.create_tomographic_covariance_reconstructor(C2.copy(), non, 0), float)
        if Rs.shape == np.asarray(R1).shape:
            Rsi, res2 = to_int(Rs * sv[2 * non:][None, :])
            if res2 > 1e-5 or Rsi != Ri:
                run.violation("reconstructor:ill-conditioned-offaxis-block", dict(case=c, residual=res2, got=Rsi, expected=Ri),
                              dict(kind="case", case=c, prev=prev))
        # an off-axis slope that carries nothing (zero variance, zero covariance: a dead sub-aperture): C_off,off is exactly
        # singular, the minimum-variance estimator of conditioning 0 is the same integer matrix on the live slopes (the weight of the dead one is immaterial)
        if k % 4 == 0:
            n_tot = C.shape[0]
            pos_dead = 2 * non + (k // 4) % (m + 1)
            keepi = [i for i in range(n_tot + 1) if i != pos_dead]
            Cd = np.zeros((n_tot + 1, n_tot + 1))
            Cd[np.ix_(keepi, keepi)] = keep
            try:
                Rd = np.asarray(sc.create_tomographic_covariance_reconstructor(Cd.copy(), non, 0), float)
                live = [i - 2 * non for i in keepi if i >= 2 * non]
                okd = Rd.shape == (2 * non, m + 1) and np.all(np.isfinite(Rd)) and \
                    np.allclose(Rd[:, live], np.asarray(Ri, float), rtol=0, atol=1e-6)       # (any finite weight on the dead slope gives the same variance)
            except np.linalg.LinAlgError as e:
                okd, Rd = False, repr(e)
            if not okd:
                run.violation("reconstructor:dead-offaxis-slope(singular-block,conditioning-0)", dict(case=c, dead=pos_dead, got=np.asarray(Rd).tolist() if not isinstance(Rd, str) else Rd),
                              dict(kind="dead", case=c, dead=pos_dead))
        trace.append(dict(id=k, non=non, dup=c["dup"], C=c["C"], R=Ri))
        meta[k] = c
        prev = c
    tmp = tempfile.mkdtemp(prefix="aoverif-c02-")
    try:
        path = os.path.join(tmp, "trace.json")
        json.dump(trace, open(path, "w"))
        rv = run.tlc("Tomo", "Tomo_val.cfg", label="Tomo/val", env={"TRACE_FILE": path}, timeout=2400)
    finally:
        shutil.rmtree(tmp, ignore_errors=True)
    verdicts = {p["id"]: p for p in rv.printed if p.get("kind") == "verdict"}
    if len(verdicts) != len(trace):
        raise core.MachineryError("Tomo val: %d verdicts for %d cases" % (len(verdicts), len(trace)))
    for t in trace:
        v = verdicts[t["id"]]
        for clause, key in (("shape", "reconstructor:shape"), ("normal", "reconstructor:normal-equations"),
                            ("optimal", "reconstructor:not-minimum-variance"), ("selector", "reconstructor:duplicate-sensor-not-selected")):
            if not v[clause]:
                run.violation(key, dict(case=t), dict(kind="case", case=meta[t["id"]]))
                break
    run.traces += len(trace)
    run.sample(trace[0])
    run.sample(trace[-1])
    # ---- auxiliary: conditioning > 0 on a singular family (two identical off-axis sensors): normal equations on the kept subspace
    n_sing = 0
    for c in cases[:60 if quick else 400]:
        C = np.array(c["C"], dtype=float)
        non = c["non"]
        m = C.shape[0] - 2 * non
        G = np.linalg.cholesky(C + 1e-12 * np.eye(C.shape[0])) if False else None
        big = np.zeros((2 * non + 2 * m, 2 * non + 2 * m))
        sel = list(range(2 * non)) + list(range(2 * non, 2 * non + m)) + list(range(2 * non, 2 * non + m))
        big = C[np.ix_(sel, sel)]                                     # the off-axis sensor appears twice: exactly singular
        for cond in (1e-3, 0.5):
            R = np.asarray(sc.create_tomographic_covariance_reconstructor(big.copy(), non, cond), float)
            off = big[2 * non:, 2 * non:]
            on_off = big[:2 * non, 2 * non:]
            u, s, vt = np.linalg.svd(off)
            kept = s > cond * s.max()
            P = (u[:, kept]).dot(u[:, kept].T)                         # projector on the retained singular subspace
            n_sing += 1
            if R.shape != on_off.shape or not np.allclose(R.dot(off).dot(P), on_off.dot(P), rtol=0, atol=1e-8 * max(1.0, np.abs(on_off).max())):
                run.violation("reconstructor:normal-equations-on-retained-subspace", dict(case=c, conditioning=cond),
                              dict(kind="singular", case=c, cond=cond))
                break
    # ---- the conditioning is RELATIVE to the largest singular value: the estimator does not depend on the units of the slopes
    for c in cases[:40]:
        C = np.array(c["C"], dtype=float)
        non = c["non"]
        for cond in (0.0, 1e-3, 0.05):
            R1 = np.asarray(sc.create_tomographic_covariance_reconstructor(C.copy(), non, cond), float)
            for scale in (1e-13, 1e-4, 1e3):
                Rs = np.asarray(sc.create_tomographic_covariance_reconstructor(C * scale, non, cond), float)
                n_sing += 1
                if Rs.shape != R1.shape or not np.allclose(Rs, R1, rtol=0, atol=1e-7 * max(1.0, np.abs(R1).max())):
                    run.violation("reconstructor:depends-on-the-units-of-the-covariance", dict(case=c, conditioning=cond, scale=scale,
                                  max_dev=float(np.abs(Rs - R1).max()) if Rs.shape == R1.shape else None), dict(kind="scale", case=c, cond=cond, scale=scale))
                    break
            else:
                continue
            break
        else:
            continue
        break
    # ---- auxiliary: end to end through the covariance builder, rebuilds on one object with the geometry changed in between
    e2e = []
    for which in (0, 1, 2):
        for threads, mixed in ((1, False), (1, True), (2, True), (3, False)):
            dev, cmo = end_to_end(sc, which, 0.0, threads, mixed)
            e2e.append(dict(duplicate_of=which, threads=threads, mixed_wavelengths=mixed, max_dev=dev))
            if not dev <= 1e-3:
                run.violation("reconstructor:end-to-end-duplicate-sensor" + (":multiprocess-build" if threads > 1 else "")
                              + (":mixed-wavelengths" if mixed else ""), dict(duplicate_of=which, max_dev=dev),
                              dict(kind="e2e", which=which, threads=threads, mixed=mixed))
    # sensors with different numbers of sub-apertures (a vignetted off-axis pupil), duplicate at every position
    for which in (0, 1, 2):
        for vg in (0, 1, 2):
            dev, cmo = end_to_end(sc, which, 0.0, 1, False, vignetted=vg)
            e2e.append(dict(duplicate_of=which, vignetted_sensor=vg, max_dev=dev))
            Cv = np.asarray(cmo.covariance_matrix, float)
            if not dev <= 1e-3 or not np.array_equal(Cv, Cv.T):
                run.violation("reconstructor:end-to-end-duplicate-sensor:unequal-sub-aperture-counts", dict(duplicate_of=which, vignetted=vg, max_dev=dev,
                              asymmetry=float(np.abs(Cv - Cv.T).max())), dict(kind="e2e", which=which, vignetted=vg))
                break
    # profile tables with MORE entries than n_layers (only the first n_layers are the atmosphere): same matrix, same reconstructor as with
    # truncated tables, single-process and pool
    for thr in (1, 2):
        dev_a, cm_a = end_to_end(sc, 1, 0.0, thr, False)
        n = 4
        cm_l = sc.CovarianceMatrix(cm_a.n_wfs, cm_a.pupil_masks, cm_a.telescope_diameter, cm_a.subap_diameters, cm_a.gs_altitudes, cm_a.gs_positions, cm_a.wfs_wavelengths,
                                   2, np.array([0.0, 7000.0, 11000.0, 15000.0, 3000.0]), np.array([0.2, 0.35, 0.1, 0.1, 0.1]), np.array([25.0, 30.0, 20.0, 20.0, 20.0]), threads=thr)
        Ml = np.asarray(cm_l.make_covariance_matrix(), float)
        Ma = np.asarray(cm_a.covariance_matrix, float)
        e2e.append(dict(tables_longer_than_n_layers=True, threads=thr))
        if Ml.shape != Ma.shape or not np.array_equal(Ml, Ma):
            run.violation("reconstructor:end-to-end:layers-beyond-n_layers-enter-the-matrix", dict(threads=thr, max_rel=float(np.abs(Ml - Ma).max() / np.abs(Ma).max()) if Ml.shape == Ma.shape else None),
                          dict(kind="longtables", threads=thr))
    # guide stars ON the coordinate axes of the field (one direction component exactly zero) are directions like any other
    for which in (0, 1, 2):
        dev, cmo = end_to_end(sc, which, 0.0, 1, False, off_pos=[[12.0, 0.0], [0.0, 9.0], [-11.0, 0.0]])
        e2e.append(dict(duplicate_of=which, asterism="axis-aligned", max_dev=dev))
        if not dev <= 1e-3:
            run.violation("reconstructor:end-to-end-duplicate-sensor:axis-aligned-guide-stars", dict(duplicate_of=which, max_dev=dev),
                          dict(kind="e2e", which=which, off_pos=[[12.0, 0.0], [0.0, 9.0], [-11.0, 0.0]]))
    # the matrix the reconstructor is built from must be the configured atmosphere's: with two ELEVATED layers it is the sum of the two
    # single-layer matrices (every layer sees every sensor displaced by its own altitude times the direction)
    for which in (1, 2):
        dev, cmo = end_to_end(sc, which, 0.0, 1, False, layers=(3000.0, 9000.0))
        e2e.append(dict(duplicate_of=which, layers=[3000.0, 9000.0], max_dev=dev))
        both = np.array(cmo.covariance_matrix, dtype=float)
        parts = np.zeros_like(both)
        for li, (alt, r0_, L0_) in enumerate(((3000.0, 0.2, 25.0), (9000.0, 0.35, 30.0))):
            one = sc.CovarianceMatrix(cmo.n_wfs, cmo.pupil_masks, cmo.telescope_diameter, cmo.subap_diameters, cmo.gs_altitudes, cmo.gs_positions,
                                      cmo.wfs_wavelengths, 1, np.array([alt]), np.array([r0_]), np.array([L0_]))
            parts += np.asarray(one.make_covariance_matrix(), float)
        if not dev <= 1e-3 or not np.allclose(both, parts, rtol=0, atol=2e-5 * np.abs(parts).max()):
            run.violation("reconstructor:end-to-end-duplicate-sensor:two-elevated-layers", dict(duplicate_of=which, max_dev=dev,
                          layer_additivity_err=float(np.abs(both - parts).max() / np.abs(parts).max())), dict(kind="e2e", which=which, layers=[3000.0, 9000.0]))
    # same object, science direction moved onto another off-axis sensor, same conditioning: the reconstructor must follow
    dev0, cmo = end_to_end(sc, 0, 0.01)
    gp = np.array(cmo.gs_positions, dtype=float)
    ga = np.array(cmo.gs_altitudes, dtype=float)
    gp[0], ga[0] = gp[2], ga[2]
    cmo.gs_positions, cmo.gs_altitudes = gp, ga
    cmo.make_covariance_matrix()
    R = np.asarray(cmo.make_tomographic_reconstructor(0.01), float)
    Cb = np.array(cmo.covariance_matrix, copy=True)               # same dtype (float32) as the object's own matrix
    non = int(cmo.n_subaps[0])
    fresh = np.asarray(sc.create_tomographic_covariance_reconstructor(Cb, non, 0.01), float)
    if R.shape != fresh.shape or not np.allclose(R, fresh, rtol=0, atol=1e-9 * max(1.0, np.abs(fresh).max())):
        run.violation("reconstructor:stale-after-rebuild", dict(max_dev=float(np.abs(R - fresh).max()) if R.shape == fresh.shape else None),
                      dict(kind="rebuild"))
    # ... and it must be the reconstructor of the NEW geometry: the science direction now duplicates the second off-axis sensor, and a fresh
    # object given that geometry from the start holds the same matrix
    R0 = np.asarray(cmo.make_tomographic_reconstructor(0.0), float)
    ns_ = int(cmo.n_subaps[0])
    want = np.zeros_like(R0)
    want[:, 1 * 2 * ns_:2 * 2 * ns_] = np.eye(2 * ns_)          # gp[2] is the second off-axis sensor (index 0 is the science direction)
    _, fresh_obj = end_to_end(sc, 1, 0.0)
    Cf = np.asarray(fresh_obj.covariance_matrix, float)
    if np.abs(R0 - want).max() > 1e-3 or Cf.shape != Cb.shape or not np.array_equal(Cf, np.asarray(Cb, float)):
        run.violation("reconstructor:stale-geometry-after-rebuild", dict(max_dev=float(np.abs(R0 - want).max()),
                      matrix_differs_from_fresh_object=bool(Cf.shape != Cb.shape or not np.array_equal(Cf, np.asarray(Cb, float)))), dict(kind="rebuild"))
    # ---- the object's life cycle (spec/CovProtocol.tla): attribute assignments, worker counts, builds and reconstructors in any order
    from harness import protocol
    run.aux["life_cycle_histories"] = protocol.check_cov(run, sc, rng, 250 if quick else 2500)
    run.traces += n_sing + 4
    run.aux.update(integer_cases=len(trace), singular_cases=n_sing, end_to_end=e2e)
    run.bounds = dict(gen_cfg="Tomo_gen.cfg", cases=len(cases), n_onaxis=1, off_axis_slopes=[2, 4])
    run.assumptions += [
        "optimality for non-integer covariances and arbitrary conditioning is not decided by TLC; conditioning > 0 (retained "
        "subspace) and the end-to-end duplicate-sensor clause are auxiliary float checks (1e-8 / 1e-3)",
        "the integer family has one on-axis sub-aperture (2 slopes) and 2 or 4 off-axis slopes",
    ]


def replay(run, case):
    core.import_aotools()
    from aotools.turbulence import slopecovariance as sc
    warnings.simplefilter("ignore")
    k = case.get("kind")
    if k == "case":
        for c in [case.get("prev"), case["case"]]:
            if c is None:
                continue
            C = np.array(c["C"], dtype=float)
            keep = C.copy()
            R1 = np.asarray(sc.create_tomographic_covariance_reconstructor(C, c["non"], 0), float)
            R2 = np.asarray(sc.create_tomographic_covariance_reconstructor(C, c["non"], 0), float)
        off, on_off = keep[2 * c["non"]:, 2 * c["non"]:], keep[:2 * c["non"], 2 * c["non"]:]
        if not np.array_equal(C, keep) or R1.shape != on_off.shape or not np.allclose(R1.dot(off), on_off, atol=1e-8) \
                or not np.allclose(R1, R2, atol=1e-9):
            run.violation("reconstructor:normal-equations", dict(case=c), case)
    elif k == "dead":
        c = case["case"]
        C = np.array(c["C"], dtype=float)
        non, n_tot = c["non"], C.shape[0]
        keepi = [i for i in range(n_tot + 1) if i != case["dead"]]
        Cd = np.zeros((n_tot + 1, n_tot + 1))
        Cd[np.ix_(keepi, keepi)] = C
        R0 = np.asarray(sc.create_tomographic_covariance_reconstructor(C.copy(), non, 0), float)
        try:
            Rd = np.asarray(sc.create_tomographic_covariance_reconstructor(Cd, non, 0), float)
            live = [i - 2 * non for i in keepi if i >= 2 * non]
            ok = np.all(np.isfinite(Rd)) and np.allclose(Rd[:, live], R0, rtol=0, atol=1e-6)
        except np.linalg.LinAlgError:
            ok = False
        if not ok:
            run.violation("reconstructor:dead-offaxis-slope(singular-block,conditioning-0)", dict(case=c), case)
    elif k == "scale":
        c = case["case"]
        C = np.array(c["C"], dtype=float)
        R1 = np.asarray(sc.create_tomographic_covariance_reconstructor(C.copy(), c["non"], case["cond"]), float)
        Rs = np.asarray(sc.create_tomographic_covariance_reconstructor(C * case["scale"], c["non"], case["cond"]), float)
        if Rs.shape != R1.shape or not np.allclose(Rs, R1, rtol=0, atol=1e-7 * max(1.0, np.abs(R1).max())):
            run.violation("reconstructor:depends-on-the-units-of-the-covariance", dict(case=c), case)
    elif k == "e2e":
        dev, _ = end_to_end(sc, case["which"], 0.0, case.get("threads", 1), case.get("mixed", False), tuple(case.get("layers", (0.0, 7000.0))), case.get("off_pos"), case.get("vignetted"))
        if not dev <= 1e-3:
            run.violation("reconstructor:end-to-end-duplicate-sensor", dict(max_dev=dev), case)
