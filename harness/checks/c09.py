"""C09 - scaled Fourier transforms are exact inverse pairs obeying Parseval (spec/Fourier.tla, spec/Namespace.tla).

Fourier.tla describes every transform as roll o DFT o roll with an integer exponent table and decides inverse-pair,
Parseval (scaled unitarity), centring and the shift theorem exactly on the tables for every length in scope.  The real
functions - both as exported by the package and by the Fourier module - are compared with the operator the tables
define, on every basis impulse and on random inputs, for every length, batch shape and spacing.  Namespace.tla replays
the package's import statements (recorded from the real package) and decides which implementation each exported
Fourier name is bound to."""
import ast
import importlib
import json
import os
import shutil
import tempfile
import warnings

import numpy as np

from harness import core

_NP_IFFT2 = np.fft.ifft2          # captured before any library call


class PlannedFFT:
    """a user-supplied accelerated inverse transform of the kind phase-screen functions accept as FFT= (fixed signature, 2-D)"""

    def __call__(self, a):
        return _NP_IFFT2(a)


def other_fourier_users(ao):
    """library calls that use Fourier machinery of their own, made BETWEEN transform checks: the pair must not notice"""
    from aotools.turbulence import phasescreen as ps
    f = PlannedFFT()
    ps.ft_phase_screen(0.2, 8, 0.1, 20.0, 0.01, FFT=f, seed=3)
    ps.ft_sh_phase_screen(0.2, 8, 0.1, 20.0, 0.01, FFT=f, seed=3)
    ps.ft_phase_screen(0.2, 8, 0.1, 20.0, 0.01, seed=3)
    ao.opticalpropagation.angularSpectrum(np.ones((8, 8), complex), 500e-9, 0.01, 0.01, 10.0)
    ao.image_processing.correlation_centroid(np.arange(16.0).reshape(4, 4) % 5, (np.arange(16.0).reshape(4, 4) % 3) + 1)


FOURIER_API = ["ft", "ift", "ft2", "ift2", "rft", "irft", "rft2", "irft2"]
BATCHES = [(), (2,), (1, 2)]
DELTAS = [0.5, 1.0, 2.0]


def op_matrix(E, N, fwd, delta, forward_scale):
    z = np.exp(-2j * np.pi / N)
    M = z ** np.array(E, dtype=float)
    if not fwd:
        M = M / N                           # numpy's ifft carries the 1/N
    return M * forward_scale


def scal(fn, N, delta):
    return delta if fn in ("ft", "ft2") else N * (1.0 / (N * delta))       # ift is called with delta_f = 1/(N delta)


def check_pair(mod, label, tabs, N, rng):
    """mod: namespace providing ft/ift/ft2/ift2 ; returns list of (key, detail)"""
    bad = []
    T = {fn: tabs[(fn, N)] for fn in ("ft", "ift")}
    for delta in DELTAS:
        df = 1.0 / (N * delta)
        A = op_matrix(T["ft"]["E"], N, True, delta, delta)
        Ai = op_matrix(T["ift"]["E"], N, False, delta, N * df)
        tol = 1e-11 * max(1, N)
        for batch in BATCHES:
            x = rng.standard_normal(batch + (N,)) + 1j * rng.standard_normal(batch + (N,))
            X = np.asarray(mod.ft(x.copy(), delta))
            tag = "%s.ft" % label
            if X.shape != x.shape:
                return [(tag + ":shape", dict(N=N, batch=list(batch), got=list(X.shape)))]
            want = x.dot(A.T)
            parity = ":odd-N" if N % 2 else ""
            if not np.allclose(X, want, rtol=0, atol=tol * np.abs(want).max()):
                bad.append((tag + ":centred-scaled-dft" + parity, dict(N=N, batch=list(batch), delta=delta,
                                                                      err=float(np.abs(X - want).max()))))
            xi = np.asarray(mod.ift(X.copy(), df))
            if xi.shape != x.shape or not np.allclose(xi, x, rtol=0, atol=tol * np.abs(x).max()):
                bad.append(("%s.ift(ft):inverse-pair%s" % (label, parity), dict(N=N, batch=list(batch), delta=delta)))
            Xi = np.asarray(mod.ift(x.copy(), df))
            wanti = x.dot(Ai.T)
            if Xi.shape != x.shape or not np.allclose(Xi, wanti, rtol=0, atol=tol * max(np.abs(wanti).max(), 1e-300)):
                bad.append(("%s.ift:centred-scaled-dft%s" % (label, parity), dict(N=N, batch=list(batch), delta=delta)))
            back = np.asarray(mod.ft(Xi.copy(), delta))
            if back.shape != x.shape or not np.allclose(back, x, rtol=0, atol=tol * np.abs(x).max()):
                bad.append(("%s.ft(ift):inverse-pair%s" % (label, parity), dict(N=N, batch=list(batch), delta=delta)))
            p1, p2 = (np.abs(x) ** 2).sum(-1) * delta, (np.abs(X) ** 2).sum(-1) * df
            if not np.allclose(p1, p2, rtol=1e-10):
                bad.append((tag + ":parseval", dict(N=N, delta=delta, lhs=np.ravel(p1).tolist(), rhs=np.ravel(p2).tolist())))
            y = rng.standard_normal(batch + (N,)) + 0j
            if not np.allclose(mod.ft(2 * x + 1j * y, delta), 2 * X + 1j * np.asarray(mod.ft(y.copy(), delta)), rtol=0, atol=10 * tol * np.abs(X).max()):
                bad.append((tag + ":linear", dict(N=N)))
            # ---- 2-D on the last two axes
            x2 = rng.standard_normal(batch + (N, N)) + 1j * rng.standard_normal(batch + (N, N))
            X2 = np.asarray(mod.ft2(x2.copy(), delta))
            want2 = np.einsum("ja,...ab,kb->...jk", A, x2, A)
            t2 = tol * N * np.abs(want2).max()
            if X2.shape != x2.shape or not np.allclose(X2, want2, rtol=0, atol=t2):
                bad.append(("%s.ft2:centred-scaled-dft%s" % (label, parity), dict(N=N, batch=list(batch), delta=delta)))
            xb = np.asarray(mod.ift2(X2.copy(), df))
            if xb.shape != x2.shape or not np.allclose(xb, x2, rtol=0, atol=tol * N * np.abs(x2).max()):
                cls = parity + (":batched" if batch else "")
                bad.append(("%s.ift2(ft2):inverse-pair%s" % (label, cls), dict(N=N, batch=list(batch), delta=delta,
                                                                             err=float(np.abs(xb - x2).max()) if xb.shape == x2.shape else None)))
            Xi2 = np.asarray(mod.ift2(x2.copy(), df))
            wanti2 = np.einsum("ja,...ab,kb->...jk", Ai, x2, Ai)
            if Xi2.shape != x2.shape or not np.allclose(Xi2, wanti2, rtol=0, atol=tol * N * max(np.abs(wanti2).max(), 1e-300)):
                cls = parity + (":batched" if batch else "")
                bad.append(("%s.ift2:centred-scaled-dft%s" % (label, cls), dict(N=N, batch=list(batch), delta=delta)))
            q1, q2 = (np.abs(x2) ** 2).sum((-1, -2)) * delta ** 2, (np.abs(X2) ** 2).sum((-1, -2)) * df ** 2
            if not np.allclose(q1, q2, rtol=1e-10):
                bad.append(("%s.ft2:parseval" % label, dict(N=N, delta=delta)))
        if bad:
            break
    # long batches (33, 70 frames): every frame of the cube is the transform of that frame alone
    if 2 <= N <= 5:
        for nb in (33, 70):
            cube = rng.standard_normal((nb, N, N)) + 1j * rng.standard_normal((nb, N, N))
            line = rng.standard_normal((nb, N)) + 1j * rng.standard_normal((nb, N))
            for fn, arr, sp in (("ft2", cube, 0.5), ("ift2", cube, 1.0 / (N * 0.5)), ("ft", line, 0.5), ("ift", line, 1.0 / (N * 0.5))):
                whole = np.asarray(getattr(mod, fn)(arr.copy(), sp))
                each = np.array([np.asarray(getattr(mod, fn)(arr[i].copy(), sp)) for i in range(nb)])
                if whole.shape != each.shape or not np.allclose(whole, each, rtol=0, atol=1e-12 * N * N * max(1.0, np.abs(each).max())):
                    wrong = [int(i) for i in range(nb) if whole.shape == each.shape and not np.allclose(whole[i], each[i], rtol=0, atol=1e-10)]
                    bad.append(("%s.%s:batch-of-%d-frames" % (label, fn, nb), dict(N=N, frames_wrong=wrong[:8])))
                    break
            if bad:
                break
    # a shape this process has not transformed before, narrow dtypes FIRST (whatever an earlier call left behind must not matter)
    if N >= 2:
        from harness import prop_interp as PI_
        r_, c_ = N + 3, N + 5
        Ar, Ac = PI_.centred_dft(r_) * 0.5, PI_.centred_dft(c_) * 0.5
        base = rng.integers(-3, 4, size=(r_, c_))
        seq = [("int64-mask", (base > 0).astype(np.int64)), ("float32", (base * 0.37).astype(np.float32)), ("float64", base * 0.37 + 0.011),
               ("complex128", base * 0.37 + 1j * rng.standard_normal((r_, c_)))]
        for nm, arr in seq:
            got = np.asarray(mod.ft2(arr.copy(), 0.5))
            want = Ar.dot(np.asarray(arr, complex)).dot(Ac.T)
            tl = 3e-5 if nm == "float32" else 1e-11
            if got.shape != want.shape or not np.allclose(got, want, rtol=0, atol=tl * r_ * c_ * max(1.0, np.abs(want).max())):
                bad.append(("%s.ft2:depends-on-dtype-of-an-earlier-call-with-this-shape" % label, dict(shape=[r_, c_], dtype=nm,
                                                                                                       err=float(np.abs(got - want).max()) if got.shape == want.shape else None)))
                break
    # real-dtype arrays are complex arrays with zero imaginary part, for EVERY function (a real spectrum has a complex inverse)
    if N >= 1:
        xr1 = rng.standard_normal((2, N))
        xr2 = rng.standard_normal((2, N, N))
        df_ = 1.0 / (N * 0.5)
        for fn, arg, sp in (("ft", xr1, 0.5), ("ift", xr1, df_), ("ft2", xr2, 0.5), ("ift2", xr2, df_)):
            g_r = np.asarray(getattr(mod, fn)(arg.copy(), sp))
            g_c = np.asarray(getattr(mod, fn)(arg.astype(complex), sp))
            if g_r.shape != g_c.shape or not np.allclose(g_r, g_c, rtol=0, atol=1e-12 * N * N * max(1.0, np.abs(g_c).max())):
                bad.append(("%s.%s:input-dtype-float64" % (label, fn), dict(N=N, imaginary_part_lost=bool(np.isrealobj(g_r) and np.abs(g_c.imag).max() > 1e-9))))
                break
    # narrow integer / single-precision samples with integer-valued spacings, and nested sequences instead of arrays: the
    # transform of the same numbers (values up to 200, so that value * delta^2 does not fit the narrow types)
    if N >= 2:
        xs = rng.integers(0, 201, size=(N, N))
        for dlt in (2, 3.0, np.int64(2)):
            dff = 1.0 / (N * float(dlt))
            ref2 = np.asarray(mod.ft2(xs.astype(complex), float(dlt)))
            ref1 = np.asarray(mod.ft(xs[0].astype(complex), float(dlt)))
            for nm, arr in (("uint8", xs.astype(np.uint8)), ("int16", xs.astype(np.int16)), ("float32", xs.astype(np.float32)),
                            ("nested-list", xs.tolist()), ("tuple-of-tuples", tuple(map(tuple, xs.tolist())))):
                keep = np.array(arr, copy=True)
                g2 = np.asarray(mod.ft2(arr, dlt))
                gb = np.asarray(mod.ift2(g2.copy(), dff))
                g1 = np.asarray(mod.ft(arr[0], dlt))
                tl = 3e-5 if nm == "float32" else 1e-11
                if g2.shape != ref2.shape or not np.allclose(g2, ref2, rtol=0, atol=tl * N * np.abs(ref2).max()) \
                        or not np.allclose(gb, xs, rtol=0, atol=tl * N * 200) or not np.allclose(g1, ref1, rtol=0, atol=tl * N * np.abs(ref1).max()) \
                        or not np.array_equal(np.asarray(arr), keep):
                    bad.append(("%s.ft2:input-type-%s:integer-spacing" % (label, nm), dict(N=N, delta=repr(dlt))))
                    break
            if bad:
                break
    # real, integer and single-precision inputs: the transform of the same numbers
    if N >= 2:
        xr = rng.integers(-4, 5, size=(2, N, N))
        ref = np.asarray(mod.ft2(xr.astype(complex), 0.5))
        for nm, arr, tol_ in (("int64", xr.astype(np.int64), 1e-11), ("float64", xr.astype(float), 1e-11), ("complex64", xr.astype(np.complex64), 2e-5)):
            g2 = np.asarray(mod.ft2(arr.copy(), 0.5))
            g1 = np.asarray(mod.ift2(np.asarray(mod.ft2(arr.copy(), 0.5)), 1.0 / (N * 0.5)))
            if g2.shape != ref.shape or not np.allclose(g2, ref, rtol=0, atol=tol_ * N * max(1.0, np.abs(ref).max())) \
                    or not np.allclose(g1, xr, rtol=0, atol=tol_ * N * 10):
                bad.append(("%s.ft2:input-dtype-%s" % (label, nm), dict(N=N)))
                break
        x1 = xr[0, 0]
        if not np.allclose(np.asarray(mod.ft(x1.astype(np.int64), 0.5)), np.asarray(mod.ft(x1.astype(complex), 0.5)), rtol=0, atol=1e-11 * N):
            bad.append(("%s.ft:input-dtype-int64" % label, dict(N=N)))
    # the spacing may be handed over as a numpy scalar / 0-d / 1-element array: same numbers, argument untouched, no drift
    if N >= 2:
        for mk in (np.float64, np.array, lambda v: np.array([v])):
            d_arr, df_arr = mk(0.5), mk(1.0 / (N * 0.5))
            x = rng.standard_normal((N, N)) + 1j * rng.standard_normal((N, N))
            for rep in range(3):
                back = np.asarray(mod.ift2(np.asarray(mod.ft2(x.copy(), d_arr)), df_arr))
                b1 = np.asarray(mod.ift(np.asarray(mod.ft(x.copy(), d_arr)), df_arr))
                if float(np.ravel(d_arr)[0]) != 0.5 or abs(float(np.ravel(df_arr)[0]) - 1.0 / (N * 0.5)) > 0:
                    bad.append(("%s:spacing-argument-modified" % label, dict(N=N, repetition=rep, delta=np.ravel(d_arr).tolist(), delta_f=np.ravel(df_arr).tolist())))
                    break
                if not np.allclose(back, x, rtol=0, atol=1e-10 * N) or not np.allclose(b1, x, rtol=0, atol=1e-10 * N):
                    bad.append(("%s:inverse-pair:array-valued-spacing" % label, dict(N=N, repetition=rep)))
                    break
            if bad:
                break
    # impulses: every basis vector (centring and shift theorem, literally)
    for i in range(N):
        e = np.zeros(N, complex)
        e[i] = 1
        X = np.asarray(mod.ft(e, 1.0))
        want = op_matrix(T["ft"]["E"], N, True, 1.0, 1.0)[:, i]
        if not np.allclose(X, want, rtol=0, atol=1e-12):
            parity = ":odd-N" if N % 2 else ""
            bad.append(("%s.ft:impulse-phase%s" % (label, parity), dict(N=N, impulse_at=i, centre=N // 2)))
            break
    return bad


def check_large(mod, label, rng):
    """sizes of a few hundred samples, odd and even (256, 257, 300, 301): the four transforms against the centred-DFT operator"""
    from harness import prop_interp as PI_
    bad = []
    for N in (256, 257, 300, 301):
        F = PI_.centred_dft(N)
        x = rng.standard_normal((N, N)) + 1j * rng.standard_normal((N, N))
        xr = rng.standard_normal((2, N, N))
        d = 0.5
        df = 1.0 / (N * d)
        A, Ai = F * d, np.conj(F) / N * (N * df)
        for fn, arr, want in (("ft2", x, A.dot(x).dot(A.T)), ("ift2", x, Ai.dot(x).dot(Ai.T)), ("ft2", xr, np.matmul(np.matmul(A, xr), A.T)),
                              ("ift2", xr, np.matmul(np.matmul(Ai, xr), Ai.T)), ("ft", x[:3], x[:3].dot(A.T)), ("ift", x[:3], x[:3].dot(Ai.T))):
            got = np.asarray(getattr(mod, fn)(arr.copy(), d if fn in ("ft", "ft2") else df))
            if got.shape != want.shape or not np.allclose(got, want, rtol=0, atol=1e-10 * N * np.abs(want).max()):
                bad.append(("%s.%s:centred-scaled-dft:large-%s-N" % (label, fn, "odd" if N % 2 else "even"), dict(N=N, real_input=bool(np.isrealobj(arr)), batch=arr.ndim == 3,
                                                                                                      err=float(np.abs(got - want).max() / np.abs(want).max()) if got.shape == want.shape else None)))
                return bad
    return bad


def check_real(mod, label, N, rng):
    """the real-input variants: inverse pair on the half spectrum.  Failures are classified by their exact signature, so
    that only the recorded defect (and not some other breakage of the same call site) can match a known finding."""
    bad = []
    delta = 0.5
    df = 1.0 / (N * delta)
    M = N // 2 + 1
    x = rng.standard_normal(N)
    try:
        xb = np.asarray(mod.irft(np.asarray(mod.rft(x.copy(), delta)).copy(), df))
        if xb.shape == x.shape and np.allclose(xb, x, rtol=0, atol=1e-10):
            sig = None
        elif N % 2 == 0 and xb.shape == x.shape and np.allclose(xb, x * M / N, rtol=0, atol=1e-10):
            sig = "even-N:result-scaled-by-(N/2+1)/N"
        elif N % 2 == 1 and xb.shape == (N - 1,):
            sig = "odd-N:result-has-length-N-1"
        else:
            sig = "other"
    except ValueError as ex:
        sig = "N=1:raises-ValueError" if N == 1 and "FFT data points" in str(ex) else "other-exception"
    except Exception:  # noqa
        sig = "other-exception"
    if sig:
        bad.append(("%s.irft(rft):inverse-pair:%s" % (label, sig), dict(N=N)))
    x2 = rng.standard_normal((N, N))
    try:
        xb2 = np.asarray(mod.irft2(np.asarray(mod.rft2(x2.copy(), delta)).copy(), df))
        if xb2.shape == x2.shape and np.allclose(xb2, x2, rtol=0, atol=1e-10):
            sig = None
        elif N >= 3 and xb2.shape == (2 * (N - 1), M):
            sig = "N>=3:result-has-shape-(2(N-1),N/2+1)"
        else:
            sig = "other"
    except ValueError as ex:
        sig = "N=1:raises-ValueError" if (N == 1 and "FFT data points" in str(ex)) else "other-exception"
    except Exception:  # noqa
        sig = "other-exception"
    if sig:
        bad.append(("%s.irft2(rft2):inverse-pair:%s" % (label, sig), dict(N=N)))
    return bad


# ---------------------------------------------------------------- namespace recording
def origin(obj):
    import types
    if isinstance(obj, types.ModuleType):
        return "module:" + obj.__name__
    m = getattr(obj, "__module__", None)
    if isinstance(m, str):
        return m
    return "value:" + type(obj).__name__


def public_names(mod):
    if hasattr(mod, "__all__"):
        return list(mod.__all__)
    return [n for n in vars(mod) if not n.startswith("_")]


def record_namespace(ao):
    src = (core.REPO / "aotools" / "__init__.py").read_text()
    tree = ast.parse(src)
    stmts = []
    for node in tree.body:
        if isinstance(node, ast.ImportFrom) and node.level == 1:
            names, dels = [], []
            if node.module is None:                       # from . import a, b
                for al in node.names:
                    m = importlib.import_module("aotools." + al.name)
                    names.append([al.asname or al.name, origin(m)])
                stmts.append(dict(module=".", names=names, dels=dels))
                continue
            m = importlib.import_module("aotools." + node.module)
            top = node.module.split(".")[0]
            names.append([top, origin(importlib.import_module("aotools." + top))])      # side effect of importing a submodule
            if any(al.name == "*" for al in node.names):
                for n in public_names(m):
                    names.append([n, origin(getattr(m, n))])
            else:
                for al in node.names:
                    names.append([al.asname or al.name, origin(getattr(m, al.name))])
            stmts.append(dict(module=node.module, names=names, dels=dels))
        elif isinstance(node, ast.Delete):
            stmts.append(dict(module="del", names=[], dels=[t.id for t in node.targets if isinstance(t, ast.Name)]))
        elif isinstance(node, ast.Assign):
            for t in node.targets:
                if isinstance(t, ast.Name):
                    stmts.append(dict(module="assign", names=[[t.id, origin(getattr(ao, t.id, None))]], dels=[]))
    bound = set()
    for s in stmts:
        for n, _ in s["names"]:
            bound.add(n)
        for n in s["dels"]:
            bound.discard(n)
    deleted = {n for s in stmts for n in s["dels"]}
    observed = [[n, origin(vars(ao)[n])] for n in sorted(vars(ao)) if n in bound or n in deleted and n in vars(ao)]
    observed = [[n, o] for n, o in observed if n in vars(ao)]
    return dict(statements=stmts, observed=observed, fourier=[n for n in FOURIER_API if n in vars(ao)])


def namespace_check(run, ao):
    prog = record_namespace(ao)
    tmp = tempfile.mkdtemp(prefix="aoverif-c09-")
    try:
        path = os.path.join(tmp, "ns.json")
        with open(path, "w") as fh:
            json.dump(prog, fh)
        r = run.tlc("Namespace", "Namespace.cfg", label="Namespace/recorded", env={"NS_FILE": path}, workers=1,
                    require_actions=("Import",), timeout=600)
    finally:
        shutil.rmtree(tmp, ignore_errors=True)
    rep = [p for p in r.printed if p.get("kind") == "namespace"]
    return prog, r, rep


def run(run):
    ao = core.import_aotools()
    from aotools import fouriertransform as FT
    quick = run.tier == "quick"
    cfg = "Fourier_quick.cfg" if quick else "Fourier_thorough.cfg"
    r = run.tlc("Fourier", cfg, require_actions=("Build",), timeout=3000)
    if r.violated:
        raise core.MachineryError("Fourier.tla violates its own invariant %s" % r.violated)
    tabs = {(c["fn"], c["N"]): c for c in r.printed}
    maxlen = max(c["N"] for c in r.printed)
    run.bounds = dict(cfg=cfg, lengths=[1, maxlen], batches=[list(b) for b in BATCHES], deltas=DELTAS)
    rng = np.random.default_rng(run.seed)
    warnings.simplefilter("ignore")
    # ---- namespace
    prog, rn, rep = namespace_check(run, ao)
    if rn.violated == "FourierAPIUnshadowed":
        who = {n: origin(vars(ao)[n]) for n in prog["fourier"]}
        shadowed = sorted(n for n, o in who.items() if o != "aotools.fouriertransform")
        for n in shadowed:
            run.violation("package-export:%s-bound-to:%s" % (n, who[n]), dict(name=n, origin=who[n]), dict(kind="namespace", name=n))
    elif rn.violated:
        raise core.MachineryError("Namespace.tla: recorded import program not explained by the model (%s)" % rn.violated)
    run.traces += 1
    run.sample(dict(import_statements=[dict(module=s["module"], n_names=len(s["names"])) for s in prog["statements"]],
                    fourier_bindings=rep[-1]["fourier"] if rep else None))
    # ---- operators
    class Pkg:
        pass
    pkg = Pkg()
    for n in FOURIER_API:
        setattr(pkg, n, getattr(ao, n))
    for N in range(1, maxlen + 1):
        if N in (1, 4):
            with np.errstate(all="ignore"):
                other_fourier_users(ao)
        for label, mod in (("fouriertransform", FT), ("aotools", pkg)):
            with np.errstate(all="ignore"):
                bad = check_pair(mod, label, tabs, N, rng)
                bad += check_real(mod, label, N, rng) if label == "fouriertransform" else []
            run.traces += 1
            for key, detail in bad:
                run.violation(key, detail, dict(kind="pair", label=label, N=N))
    with np.errstate(all="ignore"):
        for key, detail in check_large(FT, "fouriertransform", rng):
            run.violation(key, detail, dict(kind="largeN"))
    run.traces += 1
    c = tabs[("ft", min(5, maxlen))]
    run.sample(dict(kind="table", fn="ft", N=c["N"], E=c["E"]))
    run.assumptions += [
        "2-D transforms are checked on square arrays (one spacing for both axes), with 0-2 leading batch axes",
        "'approximates the continuous transform' is decided only as centring + shift theorem (exact on the DFT); nothing more",
        "numerical comparison of the real functions with the model's operator: 1e-11 * N relative",
    ]


def replay(run, case):
    ao = core.import_aotools()
    from aotools import fouriertransform as FT
    warnings.simplefilter("ignore")
    if case.get("kind") == "namespace":
        n = case["name"]
        o = origin(vars(ao)[n])
        if o != "aotools.fouriertransform":
            run.violation("package-export:%s-bound-to:%s" % (n, o), dict(name=n, origin=o), case)
        return
    if case.get("kind") == "largeN":
        for key, detail in check_large(FT, "fouriertransform", np.random.default_rng(run.seed)):
            run.violation(key, detail, case)
        return
    r = core.run_tlc("Fourier", "Fourier_quick.cfg", coverage=False, timeout=600)
    tabs = {(c["fn"], c["N"]): c for c in r.printed}

    class Pkg:
        pass
    pkg = Pkg()
    for n in FOURIER_API:
        setattr(pkg, n, getattr(ao, n))
    mod = FT if case["label"] == "fouriertransform" else pkg
    rng = np.random.default_rng(run.seed)
    other_fourier_users(ao)
    bad = check_pair(mod, case["label"], tabs, case["N"], rng)
    bad += check_real(mod, case["label"], case["N"], rng) if case["label"] == "fouriertransform" else []
    for key, detail in bad:
        run.violation(key, detail, case)
