"""C03 - covariance construction is independent of process count and scheduling (spec/CovSched.tla, CovSchedTrace.tla).

TLC explores every interleaving of task starts and completions for every worker count and every rebuild history within the
bounds and checks that each build accumulates every block exactly as the sequential loop does.  Binding:
 (A) every build record TLC prints (worker count, completion order per layer, earlier builds on the same object) is replayed
     into the real CovarianceMatrix with `slopecovariance.multiprocessing` pointed at a CONTROLLED pool that implements the
     pool contract (map, map_async, imap, imap_unordered, starmap, apply_async, ready/get/wait) over a deterministic scheduler
     which completes tasks exactly in the scripted order - a collection bug that needs a particular schedule is therefore
     certain, not rare.  Every build must be bit-identical to a fresh single-process build.
 (B) real multiprocessing pools with per-task delays injected through the module-level wfs_covariance (inherited by fork);
     worker-side Start/Finish events (ordered by a shared sequence counter) are validated by CovSchedTrace.tla and the matrix
     compared bit for bit."""
import itertools
import json
import gc
import multiprocessing as real_mp
import os
import shutil
import tempfile
import time
import warnings

import sys
from pathlib import Path

sys.path.insert(0, str(Path(__file__).resolve().parent.parent.parent))

import numpy as np

from harness import core


# ------------------------------------------------------------------ geometry used for the builds
def geometry(nw):
    n = 4
    yy, xx = np.indices((n, n))
    full = np.ones((n, n))
    ring = ((xx - 1.5) ** 2 + (yy - 1.5) ** 2 <= 4.1).astype(float)
    lshape = full.copy()
    lshape[0, 2:] = 0
    lshape[1, 3] = 0
    masks = [ring, lshape, full][:nw]
    return dict(n_wfs=nw, pupil_masks=np.array(masks), telescope_diameter=4.0, subap_diameters=np.array([1.0] * nw),
                gs_altitudes=np.array([0.0, 90000.0, 0.0][:nw]),                       # an off-axis NGS, an LGS, (an on-axis NGS)
                gs_positions=np.array([[12.0, -7.0], [-9.0, 4.0], [0.0, 0.0]][:nw]),
                wfs_wavelengths=np.array([500e-9, 589e-9, 700e-9][:nw]), n_layers=2,
                layer_altitudes=np.array([0.0, 8000.0]), layer_r0s=np.array([0.15, 0.3]), layer_L0s=np.array([25.0, 40.0]))


def new_object(sc, nw, threads=1, mod=None):
    g = geometry(nw)
    if mod:
        g.update(mod)
    return sc.CovarianceMatrix(g["n_wfs"], g["pupil_masks"], g["telescope_diameter"], g["subap_diameters"], g["gs_altitudes"],
                               g["gs_positions"], g["wfs_wavelengths"], g["n_layers"], g["layer_altitudes"], g["layer_r0s"],
                               g["layer_L0s"], threads=threads)


# ------------------------------------------------------------------ controlled pool
class Scheduler:
    """Deterministic completion order for every task submitted to any pool of this run."""

    def __init__(self, npairs, per_layer_orders, layer_rank):
        self.npairs = npairs
        self.orders = per_layer_orders            # list over layers of a permutation of 1..npairs (completion order)
        self.layer_rank = layer_rank              # which layer's tasks complete first
        self.g = 0
        self.pending = {}                         # g -> task record
        self.log = []

    def rank(self, g):
        layer, pos = divmod(g, self.npairs)
        order = self.orders[layer % len(self.orders)]
        lr = self.layer_rank[layer % len(self.layer_rank)] if layer < len(self.layer_rank) else layer
        return (lr, order.index(pos + 1) if (pos + 1) in order else pos, g)

    def submit(self, func, args, on_done):
        rec = dict(g=self.g, func=func, args=args, done=False, value=None, error=None, on_done=on_done)
        self.pending[self.g] = rec
        self.g += 1
        return rec

    def step(self):
        if not self.pending:
            return False
        g = min(self.pending, key=self.rank)
        rec = self.pending.pop(g)
        try:
            rec["value"] = rec["func"](*rec["args"])
        except Exception as ex:  # noqa
            rec["error"] = ex
        rec["done"] = True
        self.log.append(g)
        if rec["on_done"]:
            rec["on_done"](rec)
        return True

    def run_until(self, pred):
        while not pred():
            if not self.step():
                raise core.MachineryError("controlled pool: waiting for a task that was never submitted")


class AsyncRes:
    def __init__(self, sch, recs, single=False, callback=None, error_callback=None):
        self.sch, self.recs, self.single = sch, recs, single
        self.callback, self.error_callback, self._cb_done = callback, error_callback, False

    def _all(self):
        return all(r["done"] for r in self.recs)

    def _fire(self):
        if self._all() and not self._cb_done:
            self._cb_done = True
            err = next((r["error"] for r in self.recs if r["error"] is not None), None)
            if err is None and self.callback:
                self.callback(self._value())
            if err is not None and self.error_callback:
                self.error_callback(err)

    def _value(self):
        vals = [r["value"] for r in self.recs]
        return vals[0] if self.single else vals

    def ready(self):
        if not self._all():
            self.sch.step()               # polling lets simulated time advance by one completion
        self._fire()
        return self._all()

    def successful(self):
        return self._all() and all(r["error"] is None for r in self.recs)

    def wait(self, timeout=None):
        self.sch.run_until(self._all)
        self._fire()

    def get(self, timeout=None):
        self.wait()
        for r in self.recs:
            if r["error"] is not None:
                raise r["error"]
        return self._value()


class ControlledPool:
    def __init__(self, sch, processes=None):
        self.sch, self.processes, self.closed = sch, processes, False

    def _batch(self, func, iterable, star=False, **kw):
        recs = []
        res = AsyncRes(self.sch, recs, callback=kw.get("callback"), error_callback=kw.get("error_callback"))
        for a in list(iterable):
            recs.append(self.sch.submit(func, tuple(a) if star else (a,), lambda rec, res=res: res._fire()))
        return res

    def map(self, func, iterable, chunksize=None):
        return self._batch(func, iterable).get()

    def map_async(self, func, iterable, chunksize=None, callback=None, error_callback=None):
        return self._batch(func, iterable, callback=callback, error_callback=error_callback)

    def starmap(self, func, iterable, chunksize=None):
        return self._batch(func, iterable, star=True).get()

    def starmap_async(self, func, iterable, chunksize=None, callback=None, error_callback=None):
        return self._batch(func, iterable, star=True, callback=callback, error_callback=error_callback)

    def apply(self, func, args=(), kwds=None):
        return self.apply_async(func, args, kwds).get()

    def apply_async(self, func, args=(), kwds=None, callback=None, error_callback=None):
        kwds = kwds or {}
        recs = []
        res = AsyncRes(self.sch, recs, single=True, callback=callback, error_callback=error_callback)
        recs.append(self.sch.submit(lambda *a: func(*a, **kwds), tuple(args), lambda rec, res=res: res._fire()))
        return res

    def imap(self, func, iterable, chunksize=1):
        recs = self._batch(func, iterable).recs
        for r in recs:
            self.sch.run_until(lambda r=r: r["done"])
            if r["error"] is not None:
                raise r["error"]
            yield r["value"]

    def imap_unordered(self, func, iterable, chunksize=1):
        recs = self._batch(func, iterable).recs
        yielded = set()
        while len(yielded) < len(recs):
            self.sch.run_until(lambda: any(r["done"] and r["g"] not in yielded for r in recs))
            for g in list(self.sch.log):
                for r in recs:
                    if r["g"] == g and g not in yielded:
                        yielded.add(g)
                        if r["error"] is not None:
                            raise r["error"]
                        yield r["value"]

    def close(self):
        self.closed = True

    def terminate(self):
        self.closed = True

    def join(self):
        self.sch.run_until(lambda: not self.sch.pending)

    def __enter__(self):
        return self

    def __exit__(self, *a):
        self.terminate()


class FakeMP:
    """what the name `multiprocessing` resolves to inside slopecovariance during a controlled build"""

    def __init__(self, sch):
        self._sch = sch
        self.pools = 0

    def Pool(self, processes=None, initializer=None, initargs=(), maxtasksperchild=None, **k):
        self.pools += 1
        if initializer is not None:
            # a real pool runs the initializer once in every worker before its first task; the controlled pool's "workers" are
            # this process, so it runs here, once, before any task - whatever it sets up (worker globals) the tasks then find
            initializer(*initargs)
        return ControlledPool(self._sch, processes)

    def get_context(self, *a, **k):
        return self

    def __getattr__(self, name):
        return getattr(real_mp, name)


def controlled_build(sc, cm, k, npairs, orders, layer_rank):
    cm.threads = k
    sch = Scheduler(npairs, orders, layer_rank)
    fake = FakeMP(sch)
    orig = getattr(sc, "multiprocessing", None)     # a library that gets its workers elsewhere (concurrent.futures ...) is simply not
    if orig is not None:                            # scheduled by this harness: its builds are then real ones (mode B decides)
        sc.multiprocessing = fake
    try:
        out = np.array(cm.make_covariance_matrix(), copy=True)
    finally:
        if orig is not None:
            sc.multiprocessing = orig
    return out, fake.pools, sch.log


def _hash(a):
    import hashlib
    a = np.ascontiguousarray(a)
    return hashlib.sha256(a.tobytes() + str(a.shape).encode() + str(a.dtype).encode()).hexdigest()[:24]


def pristine_hashes(nw):
    """matrix hashes of the two equal-valued systems (single / double precision profile), each built ALONE single-process in a fresh interpreter"""
    import subprocess
    import sys
    out = {}
    procs = {k: subprocess.Popen([sys.executable, "-B", os.path.abspath(__file__), "--pristine", k, str(nw)], stdout=subprocess.PIPE, stderr=subprocess.PIPE, text=True)
             for k in ("single", "double")}
    for k, p in procs.items():
        o, e = p.communicate(timeout=600)
        if p.returncode != 0:
            raise core.MachineryError("pristine covariance worker failed: " + e[-400:])
        out[k] = o.strip().splitlines()[-1]
    return out


def same_bits(a, b):
    return a.shape == b.shape and a.dtype == b.dtype and a.tobytes() == b.tobytes()


# ------------------------------------------------------------------ mode B: real pools
_SEQ = None
_LOGPATH = None
_DELAYS = {}
_ORIG = None


def _delayed_wfs_covariance(n1, n2, p1, p2, d1, d2, r0, L0):
    key = (round(float(r0), 6), int(n1), int(n2), round(float(np.sum(p1)), 6), round(float(np.sum(p2)), 6))
    with _SEQ.get_lock():
        _SEQ.value += 1
        s = _SEQ.value
    with open(_LOGPATH, "a") as fh:
        fh.write(json.dumps(dict(seq=s, op="start", key=list(key), pid=os.getpid())) + "\n")
    time.sleep(_DELAYS.get(key, 0.0))
    out = _ORIG(n1, n2, p1, p2, d1, d2, r0, L0)
    with _SEQ.get_lock():
        _SEQ.value += 1
        s = _SEQ.value
    with open(_LOGPATH, "a") as fh:
        fh.write(json.dumps(dict(seq=s, op="finish", key=list(key), pid=os.getpid())) + "\n")
    return out


def task_keys(sc, nw):
    """the (layer, pair) identity of every task, keyed the same way the worker-side logger keys it"""
    cm = new_object(sc, nw)
    cm.make_covariance_matrix()
    keys = {}
    for l in range(cm.n_layers):
        t = 0
        for i in range(cm.n_wfs):
            for j in range(i + 1):
                t += 1
                p1, p2 = cm.subap_layer_positions[l][i], cm.subap_layer_positions[l][j]
                keys[(round(float(cm.layer_r0s[l]), 6), int(cm.n_subaps[i]), int(cm.n_subaps[j]),
                      round(float(np.sum(p1)), 6), round(float(np.sum(p2)), 6))] = (l + 1, t)
    return keys


def real_pool_build(sc, nw, k, delays, keys):
    global _SEQ, _LOGPATH, _DELAYS, _ORIG
    tmp = tempfile.mkdtemp(prefix="aoverif-c03-")
    _LOGPATH = os.path.join(tmp, "events.ndjson")
    _SEQ = real_mp.Value("i", 0)
    inv = {v: kk for kk, v in keys.items()}
    _DELAYS = {inv[lt]: d for lt, d in delays.items() if lt in inv}
    _ORIG = sc.wfs_covariance
    sc.wfs_covariance = _delayed_wfs_covariance
    before = set(p.pid for p in real_mp.active_children())
    try:
        cm = new_object(sc, nw, threads=k)
        out = np.array(cm.make_covariance_matrix(), copy=True)
    finally:
        sc.wfs_covariance = _ORIG
    # the library never closes its pools: let the pool objects that are no longer referenced be finalised the regular way
    # (Pool's own finaliser stops its workers).  Workers are NOT terminated behind a pool's back: a pool the library keeps on
    # purpose (on the object, in a module global) would hang in its finaliser later on.  What is still alive is the library's.
    cm = None
    gc.collect()
    t_end = time.time() + 5.0
    while time.time() < t_end and any(p.pid not in before for p in real_mp.active_children()):
        time.sleep(0.05)
    evs = [json.loads(x) for x in open(_LOGPATH)] if os.path.exists(_LOGPATH) else []
    shutil.rmtree(tmp, ignore_errors=True)
    evs.sort(key=lambda e: e["seq"])
    pids = {}
    events = []
    for e in evs:
        lt = keys.get(tuple(e["key"]))
        if lt is None:
            continue
        w = pids.setdefault(e["pid"], len(pids) + 1)
        events.append(dict(op=e["op"], layer=lt[0], task=lt[1], w=w))
    return out, events


def run(run):
    core.import_aotools()
    from aotools.turbulence import slopecovariance as sc
    quick = run.tier == "quick"
    cfg = "CovSched_quick.cfg" if quick else "CovSched_thorough.cfg"
    r = run.tlc("CovSched", cfg, require_actions=("StartBuild", "Start", "Finish", "Gather", "Consume", "NextLayer", "Return", "SetThreads"),
                timeout=3400)
    if r.violated:
        raise core.MachineryError("CovSched.tla violates its own property %s" % r.violated)
    rl = run.tlc("CovSched", "CovSched_live.cfg", label="CovSched/liveness", timeout=600)
    if rl.violated:
        raise core.MachineryError("CovSched.tla: liveness property %s fails" % rl.violated)
    npairs = 3 if quick else 6
    nw = 2 if quick else 3
    run.bounds = dict(cfg=cfg, text=(core.SPEC / cfg).read_text(), sensors=nw, layers=2)
    warnings.simplefilter("ignore")
    ref = np.array(new_object(sc, nw).make_covariance_matrix(), copy=True)
    builds = r.printed
    rng = np.random.default_rng(run.seed)
    if len(builds) > (700 if quick else 3000):
        idx = rng.permutation(len(builds))[:(700 if quick else 3000)]
        builds = [builds[i] for i in idx]
    n_builds = 0
    pools_seen = 0
    layer_ranks = [[0, 1], [1, 0], [0, 0]]          # layer-major, later layer first, interleaved by pair rank
    for rec in builds:
        cm = new_object(sc, nw)
        hist = list(rec["prevK"]) + [rec["k"]]
        for bi, kk in enumerate(hist):
            last = bi == len(hist) - 1
            orders = rec["sched"] if last else [list(range(1, npairs + 1))] * 2
            for lr in (layer_ranks if last else layer_ranks[:1]):
                out, pools, log = controlled_build(sc, cm, kk, npairs, orders, lr)
                n_builds += 1
                pools_seen += pools
                if not same_bits(out, ref):
                    cls = "rebuild" if bi > 0 else "first-build"
                    mode = "single-process" if kk == 1 else "pool"
                    run.violation("covariance-build:not-bit-identical:%s:%s" % (cls, mode),
                                  dict(k=kk, history=hist[:bi + 1], schedule=orders, layer_rank=lr, completion_log=log,
                                       n_diff=int((out != ref).sum()) if out.shape == ref.shape else None),
                                  dict(kind="controlled", rec=rec, layer_rank=lr, nw=nw, npairs=npairs))
                    break
            else:
                continue
            break
    # ---- histories in which the CONFIGURATION changes between builds on the same object (a build is a function of the
    #      configuration it finds, not of what earlier builds left behind); and profiles given in other dtypes / containers
    g0 = geometry(nw)
    changes = [dict(layer_altitudes=np.array([2000.0, 11000.0])),
               dict(gs_positions=g0["gs_positions"][::-1].copy() * 1.5),
               dict(layer_r0s=np.array([0.22, 0.11]), layer_L0s=np.array([30.0, 18.0])),
               dict(n_layers=1, layer_altitudes=np.array([6000.0]), layer_r0s=np.array([0.2]), layer_L0s=np.array([25.0]))]
    n_reconf = 0
    for kk in (1, 2):
        cm = new_object(sc, nw)
        controlled_build(sc, cm, kk, npairs, [list(range(1, npairs + 1))] * 2, [0, 1])
        acc = {}
        for ch in changes:
            acc.update(ch)
            for name, val in ch.items():
                setattr(cm, name, val)
            out, _, _ = controlled_build(sc, cm, kk, npairs, [list(range(npairs, 0, -1))] * 2, [1, 0])
            fresh = np.array(new_object(sc, nw, mod=acc).make_covariance_matrix(), copy=True)
            n_reconf += 1
            if not same_bits(out, fresh):
                run.violation("covariance-build:stale-configuration-after-reconfigure", dict(k=kk, changed=sorted(ch), n_diff=int((out != fresh).sum())
                                                                                             if out.shape == fresh.shape else None),
                              dict(kind="reconfigure", nw=nw))
                break
    for label, mod in (("float32-profile", dict(layer_r0s=g0["layer_r0s"].astype("float32"), layer_L0s=g0["layer_L0s"].astype("float32"),
                                                 layer_altitudes=g0["layer_altitudes"].astype("float32"))),
                       ("list-profile", dict(layer_r0s=list(g0["layer_r0s"]), layer_L0s=list(g0["layer_L0s"]),
                                             gs_positions=[list(x) for x in g0["gs_positions"]], subap_diameters=list(g0["subap_diameters"]))),
                       ("float32-sensors", dict(wfs_wavelengths=g0["wfs_wavelengths"].astype("float32"),
                                                subap_diameters=g0["subap_diameters"].astype("float32"))),
                       # configurations in which the two transcriptions of the pair loop could part company
                       ("fewer-layers-than-profile-entries", dict(n_layers=1)),
                       ("three-entry-profile-two-layers-used", dict(n_layers=2, layer_altitudes=np.array([0.0, 8000.0, 14000.0]),
                                                                    layer_r0s=np.array([0.15, 0.3, 0.5]), layer_L0s=np.array([25.0, 40.0, 30.0]))),
                       ("three-layers", dict(n_layers=3, layer_altitudes=np.array([0.0, 8000.0, 14000.0]),
                                             layer_r0s=np.array([0.15, 0.3, 0.5]), layer_L0s=np.array([25.0, 40.0, 30.0]))),
                       ("layer-above-rayleigh-guide-star", dict(gs_altitudes=np.array([0.0, 6000.0, 12000.0][:nw]),
                                                                layer_altitudes=np.array([0.0, 8000.0]))),
                       ("nearly-equal-guide-star-altitudes", dict(gs_altitudes=np.array([90000.0, 90005.0, 90010.0][:nw]), layer_altitudes=np.array([0.0, 5000.0]))),
                       ("identical-masks", dict(pupil_masks=np.array([g0["pupil_masks"][0]] * nw))),
                       # equal sub-aperture COUNTS, different masks (a mask and its mirror image), with a layer on the ground
                       ("mirrored-masks-equal-counts", dict(pupil_masks=np.array([g0["pupil_masks"][1], g0["pupil_masks"][1][::-1, ::-1].copy(), g0["pupil_masks"][1].T.copy()][:nw]))),
                       # beams further apart than the outer scale at altitude (small telescope, wide field, small L0)
                       ("footprints-further-apart-than-L0", dict(gs_positions=np.array([[150.0, -100.0], [-120.0, 90.0], [0.0, 0.0]][:nw]),
                                                                 layer_altitudes=np.array([0.0, 12000.0]), layer_L0s=np.array([25.0, 6.0]))),
                       ("equal-wavelengths-unequal-diameters", dict(wfs_wavelengths=np.array([600e-9] * nw),
                                                                    subap_diameters=np.array([1.0, 0.5, 1.0][:nw])))):
        ref2 = np.array(new_object(sc, nw, mod=mod).make_covariance_matrix(), copy=True)
        for kk in (2, 3):
            cm = new_object(sc, nw, mod=mod)
            out, _, _ = controlled_build(sc, cm, kk, npairs, [list(range(npairs, 0, -1))] * 2, [0, 1])
            out2, _, _ = controlled_build(sc, cm, 1, npairs, [list(range(1, npairs + 1))] * 2, [0, 1])
            n_reconf += 2
            if not same_bits(out, ref2) or not same_bits(out2, ref2):
                run.violation("covariance-build:not-bit-identical:%s" % label, dict(k=kk), dict(kind="dtype", nw=nw, label=label))
                break
    # ---- nothing is carried from one OBJECT to another either: a system whose profile is given in single precision is built first,
    #      then the same numbers in double precision - each must be bit-identical to what a fresh interpreter builds for it alone
    r0_32 = np.array([0.17, 0.31], dtype=np.float32)
    L0_32 = np.array([22.0, 37.0], dtype=np.float32)
    mods = dict(single=dict(layer_r0s=r0_32, layer_L0s=L0_32), double=dict(layer_r0s=r0_32.astype(float), layer_L0s=L0_32.astype(float)))
    pristine = pristine_hashes(nw)
    cm_a = new_object(sc, nw, mod=mods["single"])
    out_a, _, _ = controlled_build(sc, cm_a, 2, npairs, [list(range(1, npairs + 1))] * 2, [0, 1])
    out_a1 = np.array(new_object(sc, nw, mod=mods["single"]).make_covariance_matrix(), copy=True)
    out_b = np.array(new_object(sc, nw, mod=mods["double"]).make_covariance_matrix(), copy=True)
    out_b2, _, _ = controlled_build(sc, new_object(sc, nw, mod=mods["double"]), 3, npairs, [list(range(npairs, 0, -1))] * 2, [1, 0])
    n_builds += 4
    for label, arr, key in (("single-precision-profile:pool", out_a, "single"), ("single-precision-profile", out_a1, "single"),
                            ("double-precision-profile-after-single", out_b, "double"), ("double-precision-profile-after-single:pool", out_b2, "double")):
        if _hash(arr) != pristine[key]:
            run.violation("covariance-build:differs-from-fresh-interpreter:" + label, dict(note="state carried between objects / builds of one process"),
                          dict(kind="pristine", nw=nw))
            break
    n_builds += n_reconf
    # ---- regimes of the task list (real pools): one sensor with more workers than tasks and three layers; a sensor with more than a
    #      hundred sub-apertures (blocks beyond 64 KiB); workers = None (cpu_count) - the bits of the single-process build every time
    n12 = 12
    yy, xx = np.indices((n12, n12))
    big = (((xx - 5.5) ** 2 + (yy - 5.5) ** 2) <= 36.5).astype(float)
    regimes = [("one-sensor-many-workers", dict(n_wfs=1, pupil_masks=np.array([geometry(1)["pupil_masks"][0]]), n_layers=3, layer_altitudes=np.array([0.0, 4000.0, 9000.0]),
                                                layer_r0s=np.array([0.15, 0.3, 0.22]), layer_L0s=np.array([25.0, 40.0, 12.0])), 1, (2, 3, 5)),
               ("two-sensors-more-workers-than-tasks", dict(), 2, (6, 8)),
               ("more-than-a-hundred-sub-apertures", dict(n_wfs=1, pupil_masks=np.array([big]), telescope_diameter=12.0), 1, (2, 3))]
    for label, mod_, nw_, ks in regimes:
        try:
            ref_r = np.array(new_object(sc, nw_, mod=mod_).make_covariance_matrix(), copy=True)
        except Exception:  # noqa - a regime the library cannot build at all is not this check's business
            continue
        for kk in ks:
            before = set(p.pid for p in real_mp.active_children())
            cm_r = new_object(sc, nw_, threads=kk, mod=mod_)
            out_r = np.array(cm_r.make_covariance_matrix(), copy=True)
            cm_r = None
            gc.collect()
            n_builds += 1
            if not same_bits(out_r, ref_r):
                run.violation("covariance-build:not-bit-identical:real-pool:" + label,
                              dict(k=kk, n_diff=int((out_r != ref_r).sum()) if out_r.shape == ref_r.shape else None,
                                   max_rel=float(np.abs(out_r - ref_r).max() / np.abs(ref_r).max()) if out_r.shape == ref_r.shape else None),
                              dict(kind="regime", label=label, k=kk))
                break
    if pools_seen == 0:
        run.notes.append("the library never asked for a pool during controlled builds (threads > 1 path changed?)")
    run.traces += n_builds
    run.sample(builds[0])
    run.sample(builds[-1])
    # ---- mode B: real pools with injected delays
    keys = task_keys(sc, nw)
    traces, orders_seen = [], set()
    n_real = 6 if quick else 60
    for t in range(n_real):
        kk = int(rng.integers(2, 5 if quick else 9))
        delays = {}
        slow = list(itertools.product(range(1, 3), range(1, npairs + 1)))
        for lt in slow:
            delays[lt] = float(rng.choice([0.0, 0.01, 0.03, 0.06]))
        out, events = real_pool_build(sc, nw, kk, delays, keys)
        fin = tuple((e["layer"], e["task"]) for e in events if e["op"] == "finish")
        orders_seen.add(fin)
        if not same_bits(out, ref):
            run.violation("covariance-build:not-bit-identical:real-pool", dict(k=kk, delays={str(a): b for a, b in delays.items()}, finish_order=fin),
                          dict(kind="real", k=kk, nw=nw))
        traces.append(dict(k=kk, events=events))
    if traces:
        tmp = tempfile.mkdtemp(prefix="aoverif-c03t-")
        try:
            path = os.path.join(tmp, "traces.json")
            json.dump(traces, open(path, "w"))
            cfgt = (core.SPEC / "CovSchedTrace.cfg").read_text().replace("NPairs = 3", "NPairs = %d" % npairs).replace("MaxK = 4", "MaxK = 8")
            rt = run.tlc("CovSchedTrace", cfg_text=cfgt, label="CovSchedTrace/real-pools", env={"TRACE_FILE": path}, workers=1, dfs=True,
                         timeout=1200)
        finally:
            shutil.rmtree(tmp, ignore_errors=True)
        acc = {p["tid"] for p in rt.printed if p.get("kind") == "accepted"}
        rejected = [i for i in range(1, len(traces) + 1) if i not in acc]
        # a rejected worker trace with a bit-identical matrix means the library schedules differently from the model
        # (e.g. overlaps layers): the property is about the RESULT, so this is recorded as drift, not as a violation
        for i in rejected[:3]:
            run.drift("real-pool-trace-not-explained-by-model", dict(trace=i, k=traces[i - 1]["k"], events=traces[i - 1]["events"][:12]))
        run.traces += len(acc)
        run.aux.update(real_pool_traces=len(traces), real_pool_traces_accepted=len(acc), distinct_real_finish_orders=len(orders_seen))
    run.aux.update(controlled_builds=n_builds, model_build_records=len(builds), pools_created_by_library=pools_seen)
    run.assumptions += [
        "bit-identity is compared with tobytes(); the reference is a fresh object built single-process",
        "the controlled pool makes the scripted completion order certain; real pools only add evidence (their schedules are "
        "whatever the OS produces under the injected delays)",
    ]


def replay(run, case):
    core.import_aotools()
    from aotools.turbulence import slopecovariance as sc
    warnings.simplefilter("ignore")
    nw = case.get("nw", 2)
    if case.get("kind") == "regime":
        sub = core.Run("C03", "quick", run.seed)
        sub.known = []
        globals()["run"](sub)
        run.violations += [v for v in sub.violations if ":real-pool:" in v.get("key", "")] if sub.violations and isinstance(sub.violations[0], dict) else sub.violations
        return
    if case.get("kind") == "pristine":
        r0_32, L0_32 = np.array([0.17, 0.31], dtype=np.float32), np.array([22.0, 37.0], dtype=np.float32)
        pr = pristine_hashes(nw)
        a1 = np.array(new_object(sc, nw, mod=dict(layer_r0s=r0_32, layer_L0s=L0_32)).make_covariance_matrix(), copy=True)
        b1 = np.array(new_object(sc, nw, mod=dict(layer_r0s=r0_32.astype(float), layer_L0s=L0_32.astype(float))).make_covariance_matrix(), copy=True)
        if _hash(a1) != pr["single"] or _hash(b1) != pr["double"]:
            run.violation("covariance-build:differs-from-fresh-interpreter", {}, case)
        return
    ref = np.array(new_object(sc, nw).make_covariance_matrix(), copy=True)
    if case.get("kind") == "controlled":
        rec, npairs = case["rec"], case["npairs"]
        cm = new_object(sc, nw)
        hist = list(rec["prevK"]) + [rec["k"]]
        for bi, kk in enumerate(hist):
            last = bi == len(hist) - 1
            orders = rec["sched"] if last else [list(range(1, npairs + 1))] * 2
            out, _, log = controlled_build(sc, cm, kk, npairs, orders, case["layer_rank"] if last else [0, 1])
            if not same_bits(out, ref):
                run.violation("covariance-build:not-bit-identical", dict(build=bi + 1, k=kk, log=log), case)
    else:
        keys = task_keys(sc, nw)
        out, _ = real_pool_build(sc, nw, case["k"], {(2, 1): 0.05}, keys)
        if not same_bits(out, ref):
            run.violation("covariance-build:not-bit-identical:real-pool", {}, case)


if __name__ == "__main__":
    import sys
    if len(sys.argv) == 4 and sys.argv[1] == "--pristine":
        sys.path.insert(0, str(core.VERIF))
        warnings.simplefilter("ignore")
        core.import_aotools()
        from aotools.turbulence import slopecovariance as _sc
        r0_32, L0_32 = np.array([0.17, 0.31], dtype=np.float32), np.array([22.0, 37.0], dtype=np.float32)
        mod_ = dict(layer_r0s=r0_32, layer_L0s=L0_32) if sys.argv[2] == "single" else dict(layer_r0s=r0_32.astype(float), layer_L0s=L0_32.astype(float))
        print(_hash(np.array(new_object(_sc, int(sys.argv[3]), mod=mod_).make_covariance_matrix(), copy=True)))
