"""C17 - atmospheric and photometric conversions are mutually inverse and scale right (spec/Units.tla).

Code -> spec: the monomial of every real converter is MEASURED (exponents from scaling experiments at three seeded base points,
accepted only if they agree to 1e-9 and are within 1e-9 of a rational with denominator <= 30; coefficient as round(1e6 log10 c))
and written to a file; Units.tla decides the diagram the statement requires (inverse pairs, composites, scaling laws,
single-layer reductions, five magnitudes = x100, all twelve bands in both directions) on those monomials - identities between
monomials hold for all positive arguments.  Spec -> code: TLC enumerates every array shape of rank 1-3 and every axis
(positive and negative) with the set of input cells that must be summed into each output cell; the profile integrals are run on
power-of-two profiles and must equal the per-profile loop (1e-13 relative; the sums themselves are exact)."""
import json
import math
import os
import shutil
import tempfile
import warnings
from fractions import Fraction

import numpy as np

from harness import core

ARCSEC = 180.0 * 3600.0 / math.pi


class NotMonomial(Exception):
    pass


def measure(f, syms, rng, name):
    """f(**kwargs) -> positive float.  Returns dict(logc=int, exps={sym: [num, den]})"""
    results = []
    for trial in range(3):
        base = {s: float(10 ** rng.uniform(lo, hi)) for s, (lo, hi) in syms.items()}
        f0 = float(f(**base))
        if not (f0 > 0 and math.isfinite(f0)):
            raise NotMonomial("%s: non-positive value at %s" % (name, base))
        exps = {}
        for s in syms:
            es = []
            for fac in (2.0, 8.0):
                b2 = dict(base)
                b2[s] = base[s] * fac
                es.append(math.log(float(f(**b2)) / f0) / math.log(fac))
            if abs(es[0] - es[1]) > 1e-9:
                raise NotMonomial("%s: not a power law in %s (%r)" % (name, s, es))
            fr = Fraction(es[0]).limit_denominator(30)
            if abs(float(fr) - es[0]) > 1e-9:
                raise NotMonomial("%s: exponent of %s = %r is not a small rational" % (name, s, es[0]))
            exps[s] = fr
        logc = math.log10(f0) - sum(float(e) * math.log10(base[s]) for s, e in exps.items())
        results.append((exps, logc))
    e0, l0 = results[0]
    for e, l in results[1:]:
        if e != e0 or abs(l - l0) > 2e-9 * max(1.0, abs(l0)) + 1e-9:
            raise NotMonomial("%s: base points disagree (%r vs %r)" % (name, results[0], (e, l)))
    return dict(logc=int(round(1e6 * l0)), exps={s: [fr.numerator, fr.denominator] for s, fr in e0.items() if fr != 0})


def record(ao, rng):
    from aotools.turbulence import atmos_conversions as ac
    from aotools.astronomy import _astronomy as ast
    L = (-7.0, -5.5)     # wavelengths
    fns = {}
    fns["cn2_to_r0"] = measure(lambda cn2, lamda: ac.cn2_to_r0(cn2, lamda), dict(cn2=(-15, -12), lamda=L), rng, "cn2_to_r0")
    fns["r0_to_cn2"] = measure(lambda r0, lamda: ac.r0_to_cn2(r0, lamda), dict(r0=(-2, 0), lamda=L), rng, "r0_to_cn2")
    fns["r0_to_seeing"] = measure(lambda r0, lamda: ac.r0_to_seeing(r0, lamda), dict(r0=(-2, 0), lamda=L), rng, "r0_to_seeing")
    fns["seeing_to_r0"] = measure(lambda seeing, lamda: ac.seeing_to_r0(seeing, lamda), dict(seeing=(-1, 1), lamda=L), rng, "seeing_to_r0")
    fns["cn2_to_seeing"] = measure(lambda cn2, lamda: ac.cn2_to_seeing(cn2, lamda), dict(cn2=(-15, -12), lamda=L), rng, "cn2_to_seeing")
    fns["seeing_to_cn2"] = measure(lambda seeing, lamda: ac.seeing_to_cn2(seeing, lamda), dict(seeing=(-1, 1), lamda=L), rng, "seeing_to_cn2")
    fns["slope_variance_from_r0"] = measure(lambda r0, wavelength, subapDiam: ac.slope_variance_from_r0(r0, wavelength, subapDiam),
                                            dict(r0=(-2, 0), wavelength=L, subapDiam=(-1.5, 0.5)), rng, "slope_variance_from_r0")
    pat = np.array([[1.0, -1.0, 1.0, -1.0], [-1.0, 1.0, -1.0, 1.0], [1.0, 1.0, -1.0, -1.0]])      # unit variance along the last axis
    fns["r0_from_slopes"] = measure(lambda slopevar, wavelength, subapDiam: ac.r0_from_slopes(math.sqrt(slopevar) * pat, wavelength, subapDiam),
                                    dict(slopevar=(-16, -10), wavelength=L, subapDiam=(-1.5, 0.5)), rng, "r0_from_slopes")
    fns["isoplanaticAngle"] = measure(lambda cn2, h, lamda: ac.isoplanaticAngle(np.array([cn2]), np.array([h]), lamda),
                                      dict(cn2=(-15, -12), h=(2, 4.3), lamda=L), rng, "isoplanaticAngle")
    fns["iso_reference"] = measure(lambda cn2, h, lamda: 0.314 * ac.cn2_to_r0(cn2, lamda) / h * ARCSEC,
                                   dict(cn2=(-15, -12), h=(2, 4.3), lamda=L), rng, "iso_reference")
    fns["coherenceTime"] = measure(lambda cn2, v, lamda: ac.coherenceTime(np.array([cn2]), np.array([v]), lamda),
                                   dict(cn2=(-15, -12), v=(0, 2), lamda=L), rng, "coherenceTime")
    fns["tau_reference"] = measure(lambda cn2, v, lamda: 0.314 * ac.cn2_to_r0(cn2, lamda) / v,
                                   dict(cn2=(-15, -12), v=(0, 2), lamda=L), rng, "tau_reference")
    bands = []
    mask = np.ones((4, 4))
    mask2 = np.ones((4, 8))
    for band in ast.FLUX_DICTIONARY:
        f0, f5, f10 = (float(ast.magnitude_to_flux(m, band)) for m in (0.0, 5.0, 10.0))
        s1, s2 = (math.log10(f5) - math.log10(f0)) / 5, (math.log10(f10) - math.log10(f5)) / 5
        m1, m10, m1000 = (float(ast.flux_to_magnitude(fl, band)) for fl in (1.0, 10.0, 1000.0))
        t1, t2 = m10 - m1, (m1000 - m10) / 2
        if abs(s1 - s2) > 1e-9 or abs(t1 - t2) > 1e-9:
            raise NotMonomial("magnitude/flux of band %s is not affine in log10" % band)
        fs, ft = Fraction(s1).limit_denominator(30), Fraction(t1).limit_denominator(30)
        if abs(float(fs) - s1) > 1e-9 or abs(float(ft) - t1) > 1e-9:
            raise NotMonomial("magnitude/flux slope of band %s is not a small rational (%r, %r)" % (band, s1, t1))
        pb = measure(lambda pxl, t, b=band: ast.photons_per_band(7.0, mask, pxl, t, b), dict(pxl=(-2, 0), t=(-3, 0)), rng, "photons_per_band")
        n1 = float(ast.photons_per_band(7.0, mask, 0.1, 0.01, band))
        n2 = float(ast.photons_per_band(7.0, mask2, 0.1, 0.01, band))
        area = Fraction(math.log(n2 / n1) / math.log(2.0)).limit_denominator(30)
        # the count must be the band's flux times area times time (composite of the elementary converter)
        ratio = n1 / (float(ast.magnitude_to_flux(7.0, band)) * 0.01 * mask.sum() * 0.1 ** 2)
        bands.append(dict(band=band, m2f=dict(slope=[fs.numerator, fs.denominator], off=int(round(1e6 * math.log10(f0)))),
                          f2m=dict(slope=[ft.numerator, ft.denominator], off=int(round(1e6 * m1))),
                          area=[area.numerator, area.denominator], time=pb["exps"].get("t", [0, 1]), pxl=pb["exps"].get("pxl", [0, 1]),
                          composite_ratio=ratio))
    ppm = measure(lambda pxl, t, w: ast.photons_per_mag(6.0, mask, pxl, w, t), dict(pxl=(-2, 0), t=(-3, 0), w=(1, 3)), rng, "photons_per_mag")
    r5 = float(ast.photons_per_mag(1.0, mask, 0.1, 100.0, 0.01)) / float(ast.photons_per_mag(6.0, mask, 0.1, 100.0, 0.01))
    return dict(fns=fns, bands=bands), dict(photons_per_mag=ppm, photons_per_mag_5mag_ratio=r5)


def invariances(ao):
    """exact consequences of the diagram that a monomial fit on clean inputs cannot see: the photon count is proportional to the
    collecting area for ANY mask (grey / partially illuminated pixels included), and the slope-variance <-> r0 pair is an
    inverse pair whatever static offset the slopes ride on (a variance does not depend on the mean)"""
    from aotools.turbulence import atmos_conversions as ac
    from aotools.astronomy import _astronomy as ast
    bad = []
    n = 0
    ones = np.ones((6, 6))
    grey = np.array([[0.0, 0.25, 0.5, 0.5, 0.25, 0.0], [0.25, 1, 1, 1, 1, 0.25], [0.5, 1, 0, 0, 1, 0.5],
                     [0.5, 1, 0, 0, 1, 0.5], [0.25, 1, 1, 1, 1, 0.25], [0.0, 0.25, 0.5, 0.5, 0.25, 0.0]])
    parts = [np.where((np.indices((6, 6))[1] < 3), grey, 0.0), np.where((np.indices((6, 6))[1] >= 3), grey, 0.0)]
    for band in list(ast.FLUX_DICTIONARY)[:12]:
        full = float(ast.photons_per_band(8.0, ones, 0.05, 0.02, band))
        for label, m in (("grey-pupil", grey), ("half-transmission", 0.5 * ones), ("integer-mask", ones.astype(int)), ("boolean-mask", grey > 0.9)):
            got = float(ast.photons_per_band(8.0, m, 0.05, 0.02, band))
            n += 1
            want = full * float(np.asarray(m, float).sum()) / ones.sum()
            if not abs(got - want) <= 1e-12 * abs(want):
                bad.append(("conversion:band:%s:photons-not-proportional-to-collecting-area:%s" % (band, label), dict(got=got, expected=want)))
                return bad, n
        tot = sum(float(ast.photons_per_band(8.0, p_, 0.05, 0.02, band)) for p_ in parts)
        whole = float(ast.photons_per_band(8.0, grey, 0.05, 0.02, band))
        if not abs(tot - whole) <= 1e-12 * abs(whole):
            bad.append(("conversion:band:%s:photons-not-additive-over-sub-apertures" % band, dict(sum_of_parts=tot, whole=whole)))
            return bad, n
    a = float(ast.photons_per_mag(6.0, grey, 0.05, 100.0, 0.02))
    b = float(ast.photons_per_mag(6.0, ones, 0.05, 100.0, 0.02))
    n += 1
    if not abs(a / b - grey.sum() / ones.sum()) <= 1e-12:
        bad.append(("conversion:photons_per_mag:not-proportional-to-collecting-area", dict(ratio=a / b, expected=float(grey.sum() / ones.sum()))))
    pat = np.array([1.0, -1.0] * 32)
    for r0 in (0.05, 0.15, 0.6):
        for wl, d in ((500e-9, 0.2), (1.65e-6, 0.5)):
            sig = math.sqrt(float(ac.slope_variance_from_r0(r0, wl, d)))
            for off in (0.0, 1e-4, 0.01, 0.1, 0.3, -0.3):
                for dt in (np.float64,):
                    sl = (off + sig * pat).astype(dt)
                    # the record really has mean `off` and variance sig^2 up to rounding of the samples themselves
                    true_var = float(np.var(sl.astype(np.longdouble)))
                    want = float(ac.r0_from_slopes(np.sqrt(true_var) * pat, wl, d))
                    got = float(np.ravel(ac.r0_from_slopes(sl, wl, d))[0])
                    n += 1
                    if not abs(got - want) <= 1e-9 * want or not abs(want - r0) <= 1e-6 * r0:
                        bad.append(("conversion:diagram:r0_from_slopes(slope_variance_from_r0)-inverse-pair:static-offset",
                                    dict(r0=r0, wavelength=wl, subapDiam=d, offset=off, got=got, expected=want)))
                        return bad, n
    # altitudes / wind speeds tabulated as integers (metres, whole m/s; int64 and int32): the numbers they are
    h_f = np.array([0.0, 500.0, 2000.0, 6208.0, 6209.0, 10000.0, 16000.0, 22000.0])
    v_f = np.array([5.0, 8.0, 12.0, 20.0, 35.0, 30.0, 15.0, 10.0])
    cn = (1.0 + np.arange(8) % 3) * 1e-15
    for it in (np.int64, np.int32):
        for name, f, arr in (("isoplanaticAngle", lambda a, w: ac.isoplanaticAngle(a, w, 5e-7), h_f), ("rytov_variance", lambda a, w: ac.rytov_variance(a, w, 5e-7), h_f),
                             ("coherenceTime", lambda a, w: ac.coherenceTime(a, w, 5e-7), v_f)):
            want = float(f(cn.copy(), arr.copy()))
            got = float(f(cn.copy(), arr.astype(it)))
            single = float(f(cn[5:6].copy(), arr[5:6].astype(it)))
            n += 1
            if not abs(got - want) <= 1e-12 * abs(want) or not abs(single - float(f(cn[5:6].copy(), arr[5:6].copy()))) <= 1e-12 * abs(single):
                bad.append(("%s:integer-%s-profile" % (name, "altitude" if arr is h_f else "wind"), dict(dtype=np.dtype(it).name, got=got, expected=want)))
                return bad, n
    # whole magnitudes from a catalogue column of any integer type, signed or unsigned, as arrays and as numpy scalars
    for band in list(ast.FLUX_DICTIONARY)[:12]:
        for m_ in (0, 5, 12):
            want = float(ast.magnitude_to_flux(float(m_), band))
            for it in (np.uint8, np.uint16, np.uint32, np.uint64, np.int8, np.int32, np.float32):
                g1 = float(np.ravel(ast.magnitude_to_flux(np.array([m_], dtype=it), band))[0])
                g2 = float(ast.magnitude_to_flux(it(m_), band))
                n += 1
                if not abs(g1 - want) <= 1e-6 * want or not abs(g2 - want) <= 1e-6 * want:
                    bad.append(("conversion:band:%s:magnitude-of-integer-type" % band, dict(dtype=np.dtype(it).name, magnitude=m_, got=[g1, g2], expected=want)))
                    return bad, n
    # long slope records (several thousand frames) with a slow drift of the mean: the variance of the whole record
    for nfr in (4097, 5000, 9001):
        t_ = np.arange(nfr)
        rec = 1e-7 * ((-1.0) ** t_) + 3e-7 * np.sin(2 * np.pi * t_ / nfr) + 2e-7 * t_ / nfr
        tv = float(np.var(rec.astype(np.longdouble)))
        want = float(ac.r0_from_slopes(np.sqrt(tv) * pat, 500e-9, 0.2))
        got = float(np.ravel(ac.r0_from_slopes(rec.copy(), 500e-9, 0.2))[0])
        n += 1
        if not abs(got - want) <= 1e-9 * want:
            bad.append(("conversion:diagram:r0_from_slopes(slope_variance_from_r0)-inverse-pair:long-record", dict(frames=nfr, got=got, expected=want)))
            break
    # a masked slope record (flagged frames): the flagged samples do not enter the variance
    for r0 in (0.1, 0.4):
        sig = math.sqrt(float(ac.slope_variance_from_r0(r0, 500e-9, 0.2)))
        good = sig * pat
        junk = np.concatenate([good, [1e3 * sig, -7e2 * sig, 5e2 * sig, 0.0]])
        msk = np.concatenate([np.zeros(good.size, bool), [True, True, True, True]])
        got = float(np.ravel(ac.r0_from_slopes(np.ma.MaskedArray(junk, mask=msk), 500e-9, 0.2))[0])
        n += 1
        if not abs(got - r0) <= 1e-9 * r0:
            bad.append(("conversion:diagram:r0_from_slopes(slope_variance_from_r0)-inverse-pair:masked-record", dict(r0=r0, got=got)))
            break
    return bad, n


def axis_cases(ao, printed):
    from aotools.turbulence import atmos_conversions as ac
    bad = []
    n = 0
    for c in printed:
        shape, axis = tuple(c["shape"]), c["axis"]
        size = int(np.prod(shape))
        cn2 = (2.0 ** np.arange(size)).reshape(shape) * 1e-3
        ones = np.ones(shape)
        for name, f in (("coherenceTime", lambda a, w, ax: ac.coherenceTime(a, w, 5e-7, axis=ax)),
                        ("isoplanaticAngle", lambda a, w, ax: ac.isoplanaticAngle(a, w, 5e-7, axis=ax)),
                        ("rytov_variance", lambda a, w, ax: ac.rytov_variance(a, w, 5e-7, axis=ax))):
            for aux_name, aux in (("scalar", 1.0), ("array", ones)):
                got = np.asarray(f(cn2.copy(), aux if aux_name == "scalar" else aux.copy(), axis))
                n += 1
                out_shape = tuple(s for i, s in enumerate(shape) if i != (axis % len(shape)))
                if got.shape != out_shape:
                    bad.append(("%s:axis-argument:shape" % name, dict(shape=list(shape), axis=axis, got=list(got.shape), expected=list(out_shape))))
                    break
                ok = True
                for g in c["groups"]:
                    cells = sorted(g["cells"], key=lambda ix: ix[axis % len(shape)])
                    prof = np.array([cn2[tuple(ix)] for ix in cells])
                    want = f(prof, 1.0 if aux_name == "scalar" else np.ones(len(cells)), -1)
                    gv = got[tuple(g["out"])] if out_shape else got[()]
                    # the sums are exact (powers of two); the final power may differ in the last ulp between NumPy's array and
                    # scalar code paths, so 1e-13 relative - a wrong grouping changes the value by a factor >= 2^(-3/5)
                    if not (abs(float(want) - float(gv)) <= 1e-13 * abs(float(want))):
                        ok = False
                        bad.append(("%s:axis-argument:values" % name, dict(shape=list(shape), axis=axis, out=g["out"], got=float(gv), expected=float(want))))
                        break
                if not ok:
                    break
    # operands of different rank (numpy broadcasting): ONE Cn2 profile against a stack of wind / altitude profiles, and a stack of
    # Cn2 profiles against one wind / altitude profile - the default axis is the LAYER axis (the last one) of the broadcast product,
    # and every entry is what the call on that profile alone returns
    rng = np.random.default_rng(3)
    for L, T in ((4, 3), (3, 3), (5, 2)):
        cn1 = (1.0 + rng.random(L)) * 1e-15
        cnT = (1.0 + rng.random((T, L))) * 1e-15
        w1 = 5.0 + 10 * rng.random(L)
        wT = 5.0 + 10 * rng.random((T, L))
        for name, f in (("coherenceTime", lambda a, w: ac.coherenceTime(a, w, 5e-7)), ("isoplanaticAngle", lambda a, w: ac.isoplanaticAngle(a, 100.0 * w, 5e-7)),
                        ("rytov_variance", lambda a, w: ac.rytov_variance(a, 100.0 * w, 5e-7))):
            for label, a_, w_ in (("one-profile-against-a-stack", cn1, wT), ("stack-against-one-profile", cnT, w1), ("stack-against-stack", cnT, wT)):
                got = np.asarray(f(a_.copy(), w_.copy()), float)
                want = np.array([float(f((a_[t] if a_.ndim == 2 else a_).copy(), (w_[t] if w_.ndim == 2 else w_).copy())) for t in range(T)])
                n += 1
                if got.shape != want.shape or not np.allclose(got, want, rtol=1e-12, atol=0):
                    bad.append(("%s:axis-argument:operands-of-different-rank" % name, dict(case=label, layers=L, profiles=T, got_shape=list(got.shape))))
                    return bad, n
    return bad, n


def reuse_cases(ao):
    """the same altitude / wind grid object reused for several wavelengths and profiles: every call must stand on its own"""
    from aotools.turbulence import atmos_conversions as ac
    bad = []
    h = np.linspace(100.0, 15000.0, 6)
    v = np.linspace(5.0, 30.0, 6)
    cn2 = np.array([5.0, 3.0, 2.0, 1.0, 1.0, 0.5]) * 1e-15
    n = 0
    for name, f, grid in (("coherenceTime", ac.coherenceTime, v), ("isoplanaticAngle", ac.isoplanaticAngle, h), ("rytov_variance", ac.rytov_variance, h)):
        keep = grid.copy()
        for lam in (5e-7, 1e-6, 5e-7):
            for prof in (cn2, 2 * cn2):
                got = float(f(prof, grid, lam))
                want = float(f(prof.copy(), keep.copy(), lam))
                n += 1
                if not np.array_equal(grid, keep):
                    bad.append(("%s:grid-argument-modified" % name, dict(lam=lam)))
                    return bad, n
                if abs(got - want) > 1e-13 * abs(want):
                    bad.append(("%s:depends-on-earlier-calls" % name, dict(lam=lam, got=got, expected=want)))
                    return bad, n
    return bad, n


def run(run):
    ao = core.import_aotools()
    quick = run.tier == "quick"
    rng = np.random.default_rng(run.seed)
    warnings.simplefilter("ignore")
    try:
        mono, extra = record(ao, rng)
    except NotMonomial as ex:
        run.violation("conversion:not-a-power-law", dict(error=str(ex)), dict(kind="measure", error=str(ex)))
        mono, extra = None, {}
    if mono is not None:
        tmp = tempfile.mkdtemp(prefix="aoverif-c17-")
        try:
            path = os.path.join(tmp, "mono.json")
            lite = dict(fns=mono["fns"], bands=[{k: v for k, v in b.items() if k != "composite_ratio"} for b in mono["bands"]])
            json.dump(lite, open(path, "w"))
            r = run.tlc("Units", "Units_diagram.cfg", label="Units/diagram", env={"MONO_FILE": path}, workers=1,
                        require_actions=("NextClause",), timeout=600)
        finally:
            shutil.rmtree(tmp, ignore_errors=True)
        verdicts = [p for p in r.printed if p.get("kind") in ("clause", "band")]
        if len(verdicts) < 15 + len(mono["bands"]):
            raise core.MachineryError("Units diagram: only %d verdicts" % len(verdicts))
        for v in verdicts:
            run.traces += 1
            if not v["ok"]:
                what = "band:%s:magnitude-flux-photons" % v["id"] if v["kind"] == "band" else "diagram:" + v["id"]
                run.violation("conversion:" + what, dict(clause=v["id"], measured={k: mono["fns"][k] for k in mono["fns"] if k.split("(")[0] in v["id"]}
                                                         if v["kind"] == "clause" else [b for b in mono["bands"] if b["band"] == v["id"]]),
                              dict(kind="diagram", clause=v["id"]))
        for b in mono["bands"]:
            if abs(b["composite_ratio"] - 1) > 1e-12:
                run.violation("conversion:band:%s:photons_per_band-is-not-flux*area*time" % b["band"], dict(ratio=b["composite_ratio"]),
                              dict(kind="diagram", clause=b["band"]))
        ppm = extra["photons_per_mag"]
        if ppm["exps"] != {"pxl": [2, 1], "t": [1, 1], "w": [1, 1]} or abs(extra["photons_per_mag_5mag_ratio"] - 100.0) > 1e-9:
            run.violation("conversion:photons_per_mag:scaling", dict(measured=ppm, five_mag_ratio=extra["photons_per_mag_5mag_ratio"]),
                          dict(kind="diagram", clause="photons_per_mag"))
        run.sample(dict(measured_monomials={k: mono["fns"][k] for k in ("cn2_to_r0", "r0_to_seeing", "isoplanaticAngle")}))
        run.sample(dict(band=mono["bands"][3]))
    cfg = (core.SPEC / "Units_axis.cfg").read_text()
    if not quick:
        cfg = cfg.replace("MaxExtent = 3", "MaxExtent = 4")
    ra = run.tlc("Units", cfg_text=cfg, label="Units/axis", require_actions=("AxisDone",), timeout=1200)
    if ra.violated:
        raise core.MachineryError("Units.tla (axis) violates %s" % ra.violated)
    badi, ni = invariances(ao)
    run.traces += ni
    run.aux["invariance_evaluations"] = ni
    for key, detail in badi:
        run.violation(key, detail, dict(kind="invariance", detail=detail))
    badr, nr = reuse_cases(ao)
    run.traces += nr
    for key, detail in badr:
        run.violation(key, detail, dict(kind="reuse", detail=detail))
    bad, n = axis_cases(ao, ra.printed)
    run.traces += n
    for key, detail in bad:
        run.violation(key, detail, dict(kind="axis", detail=detail))
    run.aux.update(axis_function_calls=n, bands=len(mono["bands"]) if mono else 0)
    run.bounds = dict(base_points=3, scaling_factors=[2, 8], max_denominator=30, axis_max_extent=3 if quick else 4)
    run.assumptions += [
        "a converter is accepted as a monomial when three random base points and two scaling factors agree to 1e-9",
        "the 1 % tolerance on the single-layer reductions is the rounding of the published constants 0.314 / 0.0581",
    ]


def replay(run, case):
    ao = core.import_aotools()
    warnings.simplefilter("ignore")
    sub = core.Run(run.prop, "quick", run.seed)
    sub.known = []
    globals()["run"](sub)
    run.violations += sub.violations
