"""Numerical interpreter of the stage lists emitted by spec/Propagation.tla, and access to the real propagators."""
from fractions import Fraction

import numpy as np

from harness import core

# (wavelength, d1, z0): alpha0 = d1^2/(lam z0) = 1, 0.2, 0.05 (the last one samples finer than the wavelength)
PHYS = [(1e-6, 1e-2, 1e2), (500e-9, 0.01, 1000.0), (2e-3, 1e-3, 0.01)]


def phys_sets(tier, rng):
    """quick: the three fixed sets; thorough: plus random ones (alpha0 between 0.02 and 20, one in three sub-wavelength sampled)"""
    out = list(PHYS)
    if tier == "thorough":
        for k in range(6):
            lam = float(10 ** rng.uniform(-7, -3))
            d1 = lam * (float(rng.uniform(0.15, 0.6)) if k % 3 == 0 else float(10 ** rng.uniform(1, 4)))
            alpha0 = float(10 ** rng.uniform(-1.7, 1.3))
            out.append((lam, d1, d1 * d1 / (lam * alpha0)))
    return out


def rat(r):
    return Fraction(int(r[0]), int(r[1]))


def centred_dft(N, tables=None):
    """matrix of the centred forward DFT (unscaled); from the model's exponent table when given"""
    if tables and ("ft", N) in tables:
        E = np.array(tables[("ft", N)]["E"], float)
    else:
        c = N // 2
        idx = np.arange(N)
        E = np.outer(idx - c, idx - c) % N
    return np.exp(-2j * np.pi * E / N)


def interpret(stages, N, phys, U, tables=None):
    lam, d1, z0 = phys
    alpha0 = d1 ** 2 / (lam * z0)
    n = np.arange(-N // 2, N // 2)
    r2 = n[None, :] ** 2 + n[:, None] ** 2
    F = centred_dft(N, tables)
    Fi = np.conj(F) / N
    out = np.array(U, dtype=complex)
    for st in stages:
        t = st["t"]
        if t == "scal":
            m = st["mono"]
            out = out * (float(rat(st["coef"])) * lam ** m["lam"] * z0 ** m["z0"] * d1 ** m["d1"] * float(N) ** m["N"] * (1j) ** st["i4"])
        elif t == "diag":
            c = float(rat(st["c"]))
            ph = c * alpha0 * r2 if st["dom"] == "x" else c * r2 / (alpha0 * N * N)
            out = out * np.exp(2j * np.pi * ph)
        elif t == "const":
            out = out * np.exp(2j * np.pi * float(rat(st["c"])) * alpha0 * 1e-10 / d1 ** 2)
        elif t == "dft":
            M = F if st["fwd"] else Fi
            out = M.dot(out).dot(M.T)
        else:
            raise core.MachineryError("unknown stage " + t)
    return out


def spacing(sp, N, phys):
    lam, d1, z0 = phys
    g = float(rat(sp["g"]))
    return g * d1 if sp["unit"] == "d1" else g * lam * z0 / (N * d1)


def real_call(op, prop, U, N, phys, m, zm):
    lam, d1, z0 = phys
    z = float(rat(zm)) * z0
    mm = float(rat(m))
    if prop == "angularSpectrum":
        return op.angularSpectrum(U, lam, d1, mm * d1, z)
    if prop == "oneStepFresnel":
        return op.oneStepFresnel(U, lam, d1, z)
    if prop == "twoStepFresnel":
        return op.twoStepFresnel(U, lam, d1, mm * d1, z)
    if prop == "lensAgainst":
        return op.lensAgainst(U, lam, d1, z)
    raise ValueError(prop)


def inputs(N, rng, all_impulses=True):
    ins = []
    idx = [(i, j) for i in range(N) for j in range(N)]
    if not all_impulses and len(idx) > 16:
        idx = [idx[k] for k in rng.choice(len(idx), 16, replace=False)]
    for (i, j) in idx:
        e = np.zeros((N, N), complex)
        e[i, j] = 1.0
        ins.append(("impulse", e))
    for coef in (1.0, 1j, -1.0):
        e = np.zeros((N, N), complex)
        e[0, N - 1] = 1.0
        e[N // 2, N // 2 - 1 if N > 1 else 0] += coef
        ins.append(("two-impulse", e))
    ins.append(("random", rng.standard_normal((N, N)) + 1j * rng.standard_normal((N, N))))
    if N >= 2:
        # fields whose rows / columns sum to exactly zero although they are not empty (a 0 / pi phase step, a +-1 checkerboard)
        ii, jj = np.indices((N, N))
        ins.append(("checkerboard", ((-1.0) ** (ii + jj)).astype(complex)))
        step = np.ones((N, N), complex)
        step[:, N // 2:] = -1.0
        ins.append(("phase-step", step))
    return ins
