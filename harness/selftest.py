"""./check --selftest : non-vacuity of the specifications and of the binding.

1. Each module's Bug_* constant switches one action to a plausible wrong design; TLC must reject it with the named property.
2. A recorded trace with one corrupted field must be rejected by the trace specification that accepts the original.
These never touch /repo verdicts."""
import copy
import json
import os
import shutil
import tempfile

import numpy as np

from harness import core


def bug(module, cfg, subs, expect, drop=("INVARIANT EmitCase\n", "INVARIANT EmitBuild\n", "INVARIANT EmitProgram\n", "INVARIANT EmitBehaviour\n")):
    text = (core.SPEC / cfg).read_text()
    for a, b in subs:
        assert a in text, (cfg, a)
        text = text.replace(a, b)
    for d in drop:
        text = text.replace(d, "")
    r = core.run_tlc(module, cfg_text=text, coverage=False, timeout=900)
    ok = r.violated == expect
    print("  %-12s %-34s -> TLC reports %-28s %s" % (module, subs[0][1].strip(), r.violated, "ok" if ok else "EXPECTED " + expect))
    return ok


def trace_case(name, fn):
    try:
        ok = fn()
    except core.MachineryError as ex:
        print("  trace %-30s MACHINERY: %s" % (name, str(ex)[:200]))
        return False
    print("  trace %-30s %s" % (name, "ok (original accepted, corrupted rejected)" if ok else "FAILED"))
    return ok


def infscreen_trace():
    from harness.checks import c05
    ips = c05._ips()
    rng = np.random.default_rng(1)
    traces, _ = c05.record_traces(ips, rng, 6, [3, 4, 5], [1, 2])
    bad = copy.deepcopy(traces)
    ev = next(e for e in bad[2]["events"] if e["op"] == "add_row")
    ev["exposed"][1][0] += 1                                  # one cell of the shifted screen is not the old cell
    bad[4]["events"] = [e for e in bad[4]["events"]]
    k = next(i for i, e in enumerate(bad[4]["events"]) if e["op"] == "add_row")
    del bad[4]["events"][k]                                   # a removed hook: one add_row event is missing
    run = core.Run("C05", "quick", 1)
    _, rej0 = c05.validate_traces(run, traces, "selftest/original")
    _, rej1 = c05.validate_traces(run, bad, "selftest/corrupted")
    return rej0 == [] and sorted(t for t, _ in rej1) == [3, 5]


def purity_trace():
    from harness.checks import c20
    ao = core.import_aotools()
    entries, _ = c20.catalogue(ao)
    rng = np.random.default_rng(2)
    progs = [[("call", 5, [0]), ("call", 9, [1, 0]), ("mutate", None, [0]), ("call", 5, [0]), ("call", 5, [0])] for _ in range(3)]
    traces = [c20.execute(entries, p, rng).events for p in progs]
    bad = copy.deepcopy(traces)
    calls0 = [ev for ev in bad[0] if ev["op"] == "call" and ev["after"]]
    calls0[0]["after"][0] += 1000                              # an argument changed under a call
    calls1 = [ev for ev in bad[1] if ev["op"] == "call"]
    calls1[-1]["res"] += 1000                                  # same call, same arguments, different result
    run = core.Run("C20", "quick", 1)
    _, rej0 = c20.validate(run, traces, "selftest/original")
    _, rej1 = c20.validate(run, bad, "selftest/corrupted")
    return rej0 == [] and sorted(t for t, _ in rej1) == [1, 2]


def tomo_trace():
    tmp = tempfile.mkdtemp(prefix="aoverif-st-")
    try:
        G = np.array([[1, 1], [0, 1], [1, 0], [1, 1]])                          # B on top of a unit lower-triangular A
        C = G.dot(G.T).tolist()
        Cn = np.array(C, float)
        R = np.rint(Cn[:2, 2:].dot(np.linalg.inv(Cn[2:, 2:]))).astype(int).tolist()
        good = dict(id=0, non=1, dup=False, C=C, R=R)
        wrong = dict(id=1, non=1, dup=False, C=C, R=[[R[0][0] + 1, R[0][1]], R[1]])
        path = os.path.join(tmp, "t.json")
        json.dump([good, wrong], open(path, "w"))
        r = core.run_tlc("Tomo", "Tomo_val.cfg", env={"TRACE_FILE": path}, coverage=False, timeout=300)
    finally:
        shutil.rmtree(tmp, ignore_errors=True)
    v = {p["id"]: p for p in r.printed if p.get("kind") == "verdict"}
    return v[0]["normal"] and v[0]["optimal"] and not v[1]["normal"] and not v[1]["optimal"]


def main():
    ok = True
    print("model bugs that TLC must reject:")
    ok &= bug("RngIso", "RngIso_quick.cfg", [("BugGlobalFallback = FALSE", "BugGlobalFallback = TRUE")], "GlobalUntouched")
    ok &= bug("RngIso", "RngIso_quick.cfg", [("BugSharedInstance = FALSE", "BugSharedInstance = TRUE")], "Reproducible")
    ok &= bug("RngIso", "RngIso_quick.cfg", [("BugCloneShares = FALSE", "BugCloneShares = TRUE")], "Isolated")
    ok &= bug("RngIso", "RngIso_quick.cfg", [("BugShCoupled = FALSE", "BugShCoupled = TRUE")], "NoDeviateUsedTwice")
    ok &= bug("RngIso", "RngIso_quick.cfg", [("BugRowsFromSeed = FALSE", "BugRowsFromSeed = TRUE")], "ObjectNeverReusesADeviate")
    ok &= bug("Purity", "Purity_quick.cfg", [("BugInPlace = FALSE", "BugInPlace = TRUE")], "ArgsUnchanged")
    ok &= bug("Purity", "Purity_quick.cfg", [("BugSharedResult = FALSE", "BugSharedResult = TRUE")], "NoHiddenState")
    ok &= bug("CovSched", "CovSched_quick.cfg", [("BugUnordered = FALSE", "BugUnordered = TRUE")], "SameAsSequential")
    ok &= bug("CovSched", "CovSched_quick.cfg", [("BugNoReset = FALSE", "BugNoReset = TRUE")], "NoCarryOver")
    ok &= bug("SlopeCov", "SlopeCov_quick.cfg", [('Variant = "repaired"', 'Variant = "snapshot"')], "EntryIsDef")
    ok &= bug("ProfileComp", "ProfileComp_quick.cfg", [("ArangeEdges = FALSE", "ArangeEdges = TRUE"), ("MaxN = 5", "MaxN = 3"), ("BigN = {6, 7}", "BigN = {}")],
              "ELTotalConserved")
    ok &= bug("Fourier", "Fourier_quick.cfg", [("ClaimReal = FALSE", "ClaimReal = TRUE")], "RealPairLengthOK")
    print("corrupted traces that the trace specifications must reject:")
    ok &= trace_case("InfScreenTrace", infscreen_trace)
    ok &= trace_case("PurityTrace", purity_trace)
    ok &= trace_case("Tomo (val)", tomo_trace)
    print("selftest:", "ok" if ok else "FAILED")
    return 0 if ok else 2
