"""Base class of every scripted / recording / indexed generator the checks hand to the library as `seed` / `random_seed`.

numpy builds the children of Generator.spawn as type(self)(bit_generator); a subclass whose __init__ takes something else would
make a library that legitimately spawns a child stream from the caller's generator raise inside the harness' class - which the
harness would then report as the library raising.  Subclasses keep ALL their state in `self.sh` (a namespace); children share it
by reference, so deviates requested through a child stream are scripted / recorded / counted exactly like the parent's."""
import contextlib
import types

import numpy as np


def is_bitgen(x):
    return isinstance(x, np.random.BitGenerator)


class HarnessGenerator(np.random.Generator):
    def __init__(self, seed=0, **state):
        super().__init__(seed if is_bitgen(seed) else np.random.PCG64(seed))
        self.sh = types.SimpleNamespace(**state)

    def spawn(self, n_children):
        kids = super().spawn(n_children)
        for k in kids:
            k.sh = self.sh
        return kids


class Recording(HarnessGenerator):
    """a Generator that hands out ordinary deviates and remembers every one of them, in order (child streams included)"""

    def __init__(self, seed=0):
        super().__init__(seed, log=[])

    log = property(lambda self: self.sh.log)

    def normal(self, loc=0.0, scale=1.0, size=None):
        v = super().standard_normal(size)
        self.sh.log.append(np.ravel(v).copy())
        return loc + scale * v

    def standard_normal(self, size=None, *a, **k):
        v = super().standard_normal(size, *a, **k)
        self.sh.log.append(np.ravel(v).copy())
        return v


@contextlib.contextmanager
def recorded_default_rng():
    """inside the block every generator numpy.random.default_rng creates (from an int, a SeedSequence, None ...) records the
    deviates it hands out into ONE log - the streams are the ordinary ones, bit for bit.  Lets a check see which deviates a
    library call consumed without assuming from which generator or in which order it asks for them."""
    log = []
    orig = np.random.default_rng

    def patched(seed=None):
        if isinstance(seed, np.random.Generator):
            return seed
        g = Recording(seed if seed is not None else np.random.SeedSequence())
        g.sh.log = log
        return g

    np.random.default_rng = patched
    try:
        yield log
    finally:
        np.random.default_rng = orig
