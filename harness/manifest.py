"""Regenerates /verif/MANIFEST.json from the table below (run: /venv/bin/python harness/manifest.py)."""
import json
from pathlib import Path

VERIF = Path(__file__).resolve().parent.parent

BASELINE_OFF = ("cd /repo && env -u AOTOOLS_VERIF /venv/bin/python -m pytest -ra -q -p no:cacheprovider "
                "--timeout=900 --continue-on-collection-errors")

# property -> dict(engine, technique, text, note, design_ref)
CLAIMED = {
    "C14": dict(
        engine="tlc+replay", design_ref="DESIGN.md §3 C14",
        technique="TLA+ spec Pupil.tla (Def vs transcribed Impl) model-checked by TLC; every TLC-enumerated case replayed into circle/findActiveSubaps/computeFillFactor/make_subaps_2d with exact comparison",
        text="Exhaustive model checking of the indicator/selection/scatter definitions and of the transcribed algorithms on a "
             "quarter-pixel lattice (all sizes, radii, half-pixel centres, both origins; all 0/1 masks to 3x3 and circular masks "
             "above; seven thresholds), then one implementation run per TLC state with exact equality. Boundary cases "
             "(distance == radius, odd/even n, off-centre, non-dividing sub-aperture counts) are inside the scope by construction.",
        note="Bounded scope (sizes in the cfg files); trusted: TLC, NumPy float exactness on binary fractions. "
             "Area -> pi r^2 is asymptotic and not decided."),
    "C15": dict(
        engine="tlc+replay", design_ref="DESIGN.md §3 C15",
        technique="TLA+ spec ImageOps.tla (exact rational centroid operators, one action per code stage) model-checked by TLC for SinglePixel/Scale/Shift/Stack/CorrelationDisplacement/QuadMirror; every TLC state replayed into the real centroiders (2-D and N-D paths) and the relations evaluated on the real outputs",
        text="Exhaustive model checking over all 3x3 images with values 0..2 (x thresholds x brightest-pixel counts), windowed 4x5 "
             "images at every offset, 2x2 contents displaced in 4..7 pixel frames with paddings 1..3 and backgrounds, all 2x2 quad "
             "cells; each TLC state is one implementation test in which scale, shift, stack-vs-frame, single-pixel and displacement "
             "laws are checked on the real outputs and the value is compared with the model's exact rational.",
        note="Bounded scope (cfg constants). Trusted: TLC, NumPy FFT to 1e-8 for the correlation. For thresholded centre of gravity "
             "only the relations decide (value differences with all relations intact are impl_drift)."),
    "C16": dict(
        engine="tlc+replay", design_ref="DESIGN.md §3 C16",
        technique="TLA+ spec ImageRed.tla: token-set semantics of the two binning passes, ring sets of the azimuthal average, node-circle membership of encircled energy for recorded radii, zoom grid coincidences; model-checked by TLC and replayed into binImgs/azimuthal_average/encircled_energy/zoom/zoom_rbs",
        text="TLC computes for every shape/bin factor, every size and every recorded encircled-energy case the exact set of input "
             "pixels behind each output value and checks block-sum, flux, ring and monotonicity invariants; the real functions are "
             "run on token-valued (powers of two) and integer images and must reproduce those sets exactly (interpolated EE curve "
             "and diameter to 1e-12).",
        note="Bounded scope. Spline values between nodes are FITPACK numerics (trusted): only identity, node pass-through, polynomial "
             "exactness and complex split are asserted for zoom/zoom_rbs."),
    "C19": dict(
        engine="tlc+replay", design_ref="DESIGN.md §3 C19",
        technique="TLA+ spec Estimators.tla: lag loop over exact rationals (alloc + one action per lag) and the FFT/half/abs2/mean pipeline over Z[i] and Z[zeta_8]; TLC checks Impl = Def, RampLaw, Quadratic, Parseval, PeakAtBin; every state replayed into calculate_structure_function / calc_slope_temporalps / get_tps_time_axis",
        text="Exhaustive over all 3x3 phase arrays with values 0..2, ramps with impulses up to 6x6 (9x9 thorough) with steps 1..3 and "
             "three lag counts, all slope arrays over -1..1 for 2 and 4 frames (8 frames sparse / exhaustive in thorough), exact "
             "sinusoids; each TLC state is one implementation test (exact rational / Z[sqrt 2] expected values, 1e-9).",
        note="Bounded scope. The statistical clause (estimator on generated screens follows the analytic curve) is not decided."),
    "C12": dict(
        engine="tlc+replay", design_ref="DESIGN.md §3 C12",
        technique="TLA+ spec Zernike.tla: Noll-index walk (state machine over the (n,|m|) enumeration) vs the integer arithmetic of zernIndex; exact integer radial coefficients and Cartesian mode polynomials; the transcribed gamma rules proved to be the x/y gradients by exact polynomial identity; all tables replayed into zernIndex/zernikeRadialFunc/zernike_nm/zernikeArray/phaseFromZernikes/makegammas",
        text="TLC checks NollImpl = NollDef, membership/parity and ordering for every index up to the bound, R(1)=1 and continuum "
             "orthogonality of the radial polynomials, and dP_j/dx = sum rho P_j' exactly for every mode up to the radial-order bound; "
             "the real functions are compared with those tables at every index, every pixel of every grid size 2..9 (odd and even), "
             "with rotations, list/count slices, p2v/rms normalisations and linear combinations.",
        note="Bounded (MaxJ, MaxRad in cfg). Gram -> identity as the grid is refined is a limit and is not decided."),
    "C18": dict(
        engine="tlc+replay", design_ref="DESIGN.md §3 C18",
        technique="TLA+ spec ProfileComp.tla: optimal_grouping transcribed function by function (vicinity, cost, first-argmin, minimisation loop, restarts) with every numpy.random.choice outcome as nondeterministic choice; equivalent-layers slabs over exact rationals; TLC checks ExactlyL/TotalConserved/HeightsIncreasing/GroupsPartition/NoWorseThanEqualSplit/Terminates; every terminal state replayed into the real code with the restart outcomes forced",
        text="TLC quantifies over all profiles in scope (2..5 layers, three height families, strengths {0,1,3}; thorough 6 layers, "
             "{0,1,2,5}), all L, R in 0..2 and ALL restart outcomes; the real optimal_grouping is run on every terminal state with "
             "numpy.random.choice forced to the model's outcome (plus real global seeds whose draws must be outcomes the model "
             "allows), equivalent_layers on every profile and on a 400 x 40 (range, L) scan; the statement's conservation laws are "
             "evaluated on the real outputs.",
        note="Bounded scope. GCTM: only 'exactly L, non-negative' (moment reproduction is optimiser accuracy, not decided). Heights "
             "of empty (zero-strength) slabs are not judged."),
    "C04": dict(
        engine="tlc+replay", design_ref="DESIGN.md §3 C04",
        technique="TLA+ spec InfGeom.tla (new-row and stencil coordinates for both variants, integer squared-separation matrix, block structure, closed-form stencil count, constant-shift dataflow) checked by TLC; real objects must reproduce the model's geometry exactly; effective A and B are measured through add_row with a scripted Generator and the two covariance identities evaluated on the model's geometry with an independent SciPy von Karman covariance",
        text="TLC decides the discrete skeleton for every size 2..17 (thorough to 33), n_columns 1..3(4) and stencil factors 1,2,4: "
             "which cells form the stencil, in which order, at which squared separations from the new row; each configuration is then "
             "one implementation test on 4 (pixel scale, r0, L0) triples: coordinates/separations exact, A/B measured through the "
             "public add_row after the object has already stepped, reference-pixel and constant-shift laws to 1e-9, identities to a "
             "float32-aware tolerance.",
        note="The matrix identities are real-number facts: they are asserted numerically in the conformance layer (trusted: SciPy "
             "kv/gamma, LAPACK); TLC supplies the geometry. Working-array contents are loaded through _scrn. Configurations whose "
             "construction raises are outside the property."),
    "C05": dict(
        engine="tlc+replay+trace", design_ref="DESIGN.md §3 C05",
        technique="TLA+ state machine InfScreen.tla over cell identities (AddRow/Read/Repr; ShiftByOne, NothingElseChanges, ReadsArePure, StreamAdvance as action properties) model-checked by TLC over all histories to the depth bound; every TLC state replayed into real screen objects (mode A) and recorded random programs validated by InfScreenTrace.tla (mode B)",
        text="All operation histories of length <= 6 (8 thorough) for requested sizes 2..6 (2..9), both variants, stencil factors 1..2 "
             "(1..3), including sizes whose internal working size is larger than requested; each state is executed on a real object "
             "and the exposed cell identities and generator position compared; 400 (4000) recorded programs of 5-40 public calls on "
             "sizes 2..9 are validated event by event against the model with all invariants and action properties on.",
        note="Cell identities are read through _scrn and .scrn; generator position is inferred from the bit-generator state against a "
             "reference stream. The stability clause is a spectral statement evaluated numerically on the measured one-step operator "
             "(auxiliary, outside TLC)."),
    "C06": dict(
        engine="tlc+replay", design_ref="DESIGN.md §3 C06",
        technique="TLA+ spec RngIso.tla: generators as (stream, position), every produced array carries its provenance (token intervals); all interleavings of finite-screen calls (int / None / Generator seeds), three screen instances (two twins), unrelated calls and global-stream actions; Reproducible/SeedsDiffer/GlobalUntouched/Isolated checked by TLC; simulated behaviours executed against the real library with hash-pattern = provenance-pattern",
        text="Exhaustive exploration (abstract view) of all interleavings to depth 4 (5), plus 1500 (15000) distinct simulated "
             "behaviours of depth 10 executed in order on the real library: after every step the returned array and numpy's global "
             "state are hashed; equal provenance must mean bit-identical output, different provenance different output, and the "
             "global state may change only on global steps. Seeds include 0, None and a caller-owned Generator; model bugs "
             "(global fallback, shared instance generator) are rejected by TLC (self-test).",
        note="Bounded depth; a fixed pair of parameter sets and three instance configurations. Bit-identity observed via SHA-256."),
    "C20": dict(
        engine="tlc+trace", design_ref="DESIGN.md §3 C20",
        technique="TLA+ spec Purity.tla (object store, Call leaves the store unchanged and agrees with the memo of all earlier calls, declared hidden-input users exempt) model-checked by TLC, which also enumerates all call/mutate programs to a depth; every program is instantiated with concrete entry points from a 110-entry catalogue of the public API, executed on shared arrays with every argument hashed before/after, and the recorded trace validated by PurityTrace.tla",
        text="All programs of <= 3 (4) call/mutate steps over two shared array pools from TLC, each bound to concrete entry points in "
             "rotation, plus 150 (1500) seeded random programs of 30 steps, so that every one of the 110 catalogue entries (every "
             "public function of every module that can run here) is called at least 10 times on shared data with other calls "
             "interleaved; trace validation checks ArgsUnchanged (bytes, shape, dtype, strides, flags), determinism across the "
             "whole history (memo keyed by content), absence of global-RNG use outside the declared entry points, and item-wise "
             "agreement of batched calls.",
        note="Entry points that cannot run here are listed in the evidence (unrunnable_entry_points), never silently skipped. "
             "Array sizes are fixed (8x8 pools); purity for other shapes is not explored."),
    "C09": dict(
        engine="tlc+replay+trace", design_ref="DESIGN.md §3 C09",
        technique="TLA+ spec Fourier.tla: each transform as roll o DFT o roll with an integer exponent table; inverse pair, scaled unitarity (Parseval), centring and shift theorem decided exactly on the tables by the vanishing rule for sums of roots of unity; Namespace.tla replays the package's recorded import statements (last writer wins) to decide which implementation each exported Fourier name is bound to; the real functions (module and package exports) are compared with the tables' operator for every length, batch shape and spacing",
        text="TLC decides the four laws for every length 1..16 (32) including odd lengths, and that the screen module's private "
             "inverse transform is an inverse of ft2 only for even sizes; the real ft/ift/ft2/ift2 - as exported by the package and by "
             "the Fourier module - are compared with the model's operator on random complex inputs with 0-2 batch axes and three "
             "spacings, on every basis impulse, plus round trips, Parseval and linearity; the import trace of aotools/__init__.py is "
             "validated against the star-import model and the final bindings of the eight Fourier names checked.",
        note="Known findings (recorded, not repaired): rft/irft and rft2/irft2 are not inverse pairs (exact failure signatures in "
             "known_findings.json). 2-D transforms on square arrays only. 'Approximates the continuous transform' = centring + shift "
             "theorem only."),
    "C07": dict(
        engine="tlc+replay", design_ref="DESIGN.md §3 C07",
        technique="TLA+ spec FFTScreen.tla: frequency grid, DC removal, the exponent table of the draw->pixel linear map derived from the screen module's shift/inverse-DFT/shift pipeline (FourierOps, shared with Fourier.tla), sub-harmonic phase tables and mean removal; DCRemoved/Stationary/HermitianPairing/sub-harmonic geometry checked by TLC; real ft_phase_screen / ft_sh_phase_screen probed with every unit draw through a scripted Generator and compared with amplitude x root-of-unity pattern",
        text="For every even size in scope TLC fixes which draw feeds which pixel with which phase, which coefficient is removed and "
             "that the covariance is stationary; every one of the 2N^2 + 54 unit draws of the real generators (4 parameter sets, "
             "including a large inner scale and the same geometry with two r0) must reproduce that pattern times the independently "
             "evaluated spectrum amplitude to 1e-11, composite draws must superpose, r0 scaling must be exactly r0^(-5/6) for fixed "
             "seeds across interleaved calls, the sub-harmonic part must be mean-free and add to the high-frequency part on disjoint "
             "draws; the same-seed coupling of the two generators is evaluated exactly on the model's maps.",
        note="The spectrum value is an atom in the model (trusted: NumPy exp/sqrt in the harness). The two convergence clauses are "
             "asymptotic numerics and not decided."),
    "C10": dict(
        engine="tlc+replay", design_ref="DESIGN.md §3 C10",
        technique="TLA+ spec Propagation.tla: each propagator as a pipeline of typed stages (exact rational chirp coefficients, scalar monomials in lam/z0/d1/N, centred DFTs from FourierOps); the power ledger (unit-modulus stages, scaled-unitary DFT tables by the exact root-of-unity test, scalar x spacing monomials = 1) decided by TLC for every size, magnification and signed distance; each pipeline interpreted numerically and compared with the real propagator on a basis",
        text="Operator-level decision: conservation holds for ALL inputs iff the pipeline is a scaled unitary, which TLC decides "
             "exactly for 150 pipelines (4 propagators x sizes 2,4,8 x magnifications 1/2,1,3/2,2 x distances -2..3 z0). The real "
             "functions must equal the interpreted pipeline (2e-9) on every unit impulse, interference inputs and a random field for "
             "three physical parameter sets (one sampling finer than the wavelength), conserve sum|U|^2 d^2 and be linear; the same "
             "two laws are evaluated on 60 (600) random off-lattice parameter sets.",
        note="Even square grids. The numeric binding trusts NumPy FFT/exp to 1e-9."),
    "C11": dict(
        engine="tlc+replay", design_ref="DESIGN.md §3 C11",
        technique="Propagation.tla: all programs of unit-magnification steps (<= 4, thorough 6, distances -2..3 z0) collapse to the transfer function of the total distance on exact rationals, with the DFT cancellation checked on the exponent tables; m then 1/m cancels chirp by chirp; signed-spacing bookkeeping decides orientation; every program replayed on the real angularSpectrum, every propagator compared with its Fresnel-integral pipeline",
        text="TLC enumerates 2340 (thorough ~56000) programs grouped by total distance and decides Additive/Inverse/ZeroIsIdentity, "
             "MagnifyBack and the orientation of each method; each program is executed on the real code with two fields and three "
             "physical parameter sets (consecutive programs alternate spacing and wavelength) and compared with the single direct step.",
        note="NOT decided (no exact discrete counterpart): equality of different propagators as discretisations where their grids "
             "coincide, Gaussian-beam width/curvature/Gouy phase, Airy pattern. Known finding: twoStepFresnel is mirrored for d2 != d1."),
    "C01": dict(
        engine="tlc+replay", design_ref="DESIGN.md §3 C01, Appendix A.1",
        technique="TLA+ spec SlopeCov.tla: every matrix entry derived from first principles as a bag of structure-function atoms (Def) vs the transcribed projection, stencils, block placement and bitwise-OR mirror (Impl, one action per (layer, sensor pair) loop body); EntryIsDef/Symmetric/NoGarbage checked by TLC on an integer lattice; every configuration replayed into CovarianceMatrix with a pseudo-random probe structure function (randomised identity test of every integer coefficient) and with the real one against an independent von Karman evaluation",
        text="TLC enumerates 1378 (thorough ~8000) geometries: all 2x2 masks against five representative masks, asymmetric 3x3 masks, "
             "NGS/LGS mixes (cone factor 1/2 at the upper layer), guide-star offsets, one or two layers (three sensors in thorough), "
             "and decides Impl = Def entry by entry; each geometry is built with the real class twice (probe and physical run, the "
             "multi-process path on a sample) and every entry compared; symmetry bit for bit, eigenvalues, r0^(-5/3) and "
             "wavelength-product scaling on a sample.",
        note="Lattice scope: equal ground diameters, cone factors 1 and 1/2. Trusted in the physical run: scipy.special.kv/gamma, "
             "LAPACK eigvalsh. The 'snapshot' variant of the model (code as first read) violates EntryIsDef - kept as a self-test."),
    "C03": dict(
        engine="tlc+replay+trace", design_ref="DESIGN.md §3 C03",
        technique="TLA+ spec CovSched.tla: pool of k workers, independently enabled Start/Finish (every completion order), ordered Gather (pool.map), positional Consume, per-block accumulation ORDER as the meaning of bit-identity, rebuild histories with thread-count toggles; SameAsSequential/NoCarryOver/EveryTaskConsumedOnce and liveness checked by TLC; every build record replayed into the real class through a controlled pool that realises the scripted completion order; real-pool worker traces validated by CovSchedTrace.tla",
        text="All interleavings of 3 (6) tasks x 2 layers on 1..3 (1..4) workers and all rebuild histories of length <= 3 (2) are "
             "explored; each of the 689 build records (worker count, completion order per layer, earlier thread counts) is executed "
             "on the real class with `slopecovariance.multiprocessing` replaced by a deterministic pool implementing map/map_async/"
             "imap/imap_unordered/starmap/apply_async/ready/get, under three cross-layer completion rankings, and must be "
             "bit-identical (tobytes) to a fresh single-process build - including an off-axis NGS whose positions must not carry "
             "over between builds; 6 (60) real pools with injected per-task delays add recorded worker traces.",
        note="Model bugs (unordered collection, matrix not re-zeroed) are rejected by TLC (self-test). Real-pool traces that the model "
             "does not explain but whose matrix is bit-identical are recorded as impl_drift, not as violations (the property is about "
             "the result)."),
    "C02": dict(
        engine="tlc+trace", design_ref="DESIGN.md §3 C02",
        technique="TLA+ spec Tomo.tla: mode gen enumerates integer PSD covariance matrices C = G G^T with unimodular off-axis block (plus the duplicate-sensor family); the real reconstructor's output on each is recorded (rounded to integers, residual-checked) and mode val decides shape, normal equations R C_off,off = C_on,off, optimality against all unit perturbations and the selector clause exactly in integer arithmetic, one total verdict per case",
        text="2460 integer covariance matrices (600 sampled in quick, all duplicate-sensor members always) with 2 on-axis and 2 or 4 "
             "off-axis slopes: the real function is called twice on the same array and once through the class after the object's "
             "matrix changed (no state, argument intact), and every returned reconstructor is judged by TLC in exact arithmetic. "
             "Auxiliary float checks: conditioning 1e-3 and 0.5 on exactly singular (duplicated off-axis sensor) matrices - normal "
             "equations on the retained singular subspace; end to end through the real covariance builder with the on-axis sensor "
             "duplicating each of three off-axis sensors; a rebuild with the science direction moved, same conditioning.",
        note="Optimality for arbitrary real PSD matrices follows from the normal equations (a theorem, not re-proved here); TLC "
             "decides it on the integer family only."),
    "C17": dict(
        engine="tlc+trace", design_ref="DESIGN.md §3 C17",
        technique="TLA+ spec Units.tla: converters as monomials with exact rational exponents; the statement's diagram (six inverse pairs, two composites, scaling laws, slope-variance pair, single-layer reductions, per-band affine log10 maps with slope -2/5, photon counts of degree 1 in area and time) decided by TLC on the MEASURED monomials of the real functions, one verdict per clause; axis argument decided as index-level dataflow by TLC for every shape of rank 1-3 and every axis and replayed",
        text="Identities between monomials hold for all positive arguments, so deciding the diagram on the measured exponent vectors "
             "and coefficients decides the laws for the whole domain; measurement uses three random base points and two scaling "
             "factors per argument (agreement to 1e-9, rational with denominator <= 30). All twelve bands, both directions. The axis "
             "clause: 204 (shape, axis) cases (thorough: extents to 4) on three profile integrals with scalar and array altitude/wind, "
             "compared with the per-profile loop.",
        note="Coefficients are compared as round(1e6 log10 c) with a tolerance of 3e-6 (12e-6 for band offsets); the 0.314 reductions "
             "within 1 % as the statement says."),
}

NOT_APPLICABLE = {
    "C08": "identities, limits and inequalities between real special functions (K_5/6, Gamma, Hankel transform); no state and no "
           "discrete or exactly-algebraic content for a TLA+ model to decide (DESIGN.md §3 C08)",
    "C13": "properties of numerically computed eigenvectors of dense real matrices and of bilinear resampling error; only the "
           "eigenvalue selection logic is discrete, which is a small part of the statement (DESIGN.md §3 C13)",
}

NOT_YET = "check not built yet in this round (planned: DESIGN.md §3); not claimed until it runs"


def main():
    props = [json.loads(l)["id"] for l in (VERIF / "properties.jsonl").read_text().splitlines() if l.strip()]
    checks = []
    for pid in props:
        if pid not in CLAIMED:
            continue
        c = CLAIMED[pid]
        checks.append(dict(
            property_id=pid,
            quick_cmd="./check %s --tier quick" % pid,
            thorough_cmd="./check %s --tier thorough" % pid,
            evidence_file="/verif/evidence/%s.json" % pid,
            replay_cmd_template="./check --replay {path}",
            engine=c["engine"],
            level_claimed=dict(category="model_checking", text=c["text"], design_ref=c["design_ref"]),
            level_note=c["note"],
            technique=c["technique"],
        ))
    na = []
    for pid in props:
        if pid in CLAIMED:
            continue
        na.append(dict(property_id=pid, reason=NOT_APPLICABLE.get(pid, NOT_YET)))
    hooks_file = VERIF / "hooks.json"
    hook_commits = json.loads(hooks_file.read_text())["source_commits"] if hooks_file.exists() else []
    m = dict(
        version=1,
        setup_cmd="./check --setup",
        hooks=dict(guard="AOTOOLS_VERIF",
                   enable="AOTOOLS_VERIF=1 in the environment of ./check (set by the launcher); no build step, pure Python",
                   baseline_off_cmd=BASELINE_OFF, source_commits=hook_commits, add_only=True),
        engines=[dict(name="tlc+replay", path="/verif/harness", serves_properties=[p for p in props if p in CLAIMED],
                      kind_free_text="explicit TLA+ specifications under /verif/spec checked by TLC 1.8; conformance by replaying "
                                     "TLC-enumerated states/behaviours into the real code (mode A) and validating recorded "
                                     "ndjson traces with *Trace.tla specs (mode B)")],
        checks=checks,
        not_applicable=na,
        notes="All checks: exit 0 held / KNOWN-FINDING only, exit 1 VIOLATION, exit 2 machinery failure. "
              "known_findings.json is read-only at run time.",
    )
    (VERIF / "MANIFEST.json").write_text(json.dumps(m, indent=1) + "\n")
    print("MANIFEST.json: %d checks, %d not_applicable" % (len(checks), len(na)))


if __name__ == "__main__":
    main()
