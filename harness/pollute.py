"""A prelude for every property check: before the check's own calls, the process uses the REST of the library the way some other
program would have - every catalogue entry of the purity check (harness/checks/c20.py), first with narrow dtypes (float32 /
complex64 / integer views of the pooled arrays), then as catalogued.  Whatever those calls leave behind (work buffers whose dtype
or size was fixed by the first caller, caches keyed on too little, module-level defaults, class attributes, numpy error state,
rebound names) is then in place when the property is checked.  Exceptions are ignored: this is somebody else's program."""
import contextlib
import io
import warnings

import numpy as np

from harness import core


def _narrow(a):
    if not isinstance(a, np.ndarray):
        return a
    if a.dtype.kind == "c":
        return a.astype(np.complex64)
    if a.dtype.kind == "f":
        return a.astype(np.float32)
    return a


def run(skip=()):
    ao = core.import_aotools()
    from harness.checks import c20
    entries, _ = c20.catalogue(ao)
    pool = c20.make_pool(np.random.default_rng(4711))
    saved_rng = np.random.get_state()
    saved_err = np.geterr()
    n = 0
    for narrow in (True, False):
        for e in entries:
            if any(s in e["name"] for s in skip):
                continue
            args = [np.array(pool[nm], copy=True) for nm in e["arrs"]]
            if narrow:
                args = [_narrow(a) for a in args]
            try:
                with warnings.catch_warnings():
                    warnings.simplefilter("ignore")
                    with np.errstate(all="ignore"), contextlib.redirect_stdout(io.StringIO()):
                        e["call"](e["fn"], args)
                n += 1
            except Exception:  # noqa
                pass
    np.random.set_state(saved_rng)       # the global stream and error state belong to the harness
    np.seterr(**saved_err)
    return n
