"""Which object each public name of a package is bound to (spec/Namespace.tla): the package's import statements are recorded
from the real package and replayed by TLC; the invariant APIUnshadowed says that every public function / class defined in a
star-imported sub-module is still that sub-module's own object at package level (the last writer wins in Python, so a later
`from .other import *` that happens to export the same name silently replaces it).  Every property check calls `check` for the
modules its statement is anchored in: "the function" a user calls is usually the package-level name."""
import ast
import importlib
import json
import os
import shutil
import tempfile
import types

from harness import core


def origin(obj):
    if isinstance(obj, types.ModuleType):
        return "module:" + obj.__name__
    m = getattr(obj, "__module__", None)
    if isinstance(m, str):
        return m
    return "value:" + type(obj).__name__


def public_names(mod):
    if hasattr(mod, "__all__"):
        return list(mod.__all__)
    return [n for n in vars(mod) if not n.startswith("_")]


def record(pkgname):
    pkg = importlib.import_module(pkgname)
    tree = ast.parse(open(pkg.__file__).read())
    stmts, api = [], []
    for node in tree.body:
        if isinstance(node, ast.ImportFrom) and node.level == 1:
            names, dels = [], []
            if node.module is None:                       # from . import a, b
                for al in node.names:
                    m = importlib.import_module(pkgname + "." + al.name)
                    names.append([al.asname or al.name, origin(m)])
                stmts.append(dict(module=".", names=names, dels=dels))
                continue
            m = importlib.import_module(pkgname + "." + node.module)
            top = node.module.split(".")[0]
            names.append([top, origin(importlib.import_module(pkgname + "." + top))])      # side effect of importing a submodule
            if any(al.name == "*" for al in node.names):
                for n in public_names(m):
                    o = getattr(m, n)
                    names.append([n, origin(o)])
                    if isinstance(o, (types.FunctionType, type)) and getattr(o, "__module__", None) == m.__name__:
                        api.append([n, m.__name__])
            else:
                for al in node.names:
                    names.append([al.asname or al.name, origin(getattr(m, al.name))])
            stmts.append(dict(module=node.module, names=names, dels=dels))
        elif isinstance(node, ast.Delete):
            stmts.append(dict(module="del", names=[], dels=[t.id for t in node.targets if isinstance(t, ast.Name)]))
        elif isinstance(node, ast.Assign):
            for t in node.targets:
                if isinstance(t, ast.Name):
                    stmts.append(dict(module="assign", names=[[t.id, origin(getattr(pkg, t.id, None))]], dels=[]))
    bound = set()
    for s in stmts:
        for n, _ in s["names"]:
            bound.add(n)
        for n in s["dels"]:
            bound.discard(n)
    observed = [[n, origin(vars(pkg)[n])] for n in sorted(vars(pkg)) if n in bound]
    return dict(statements=stmts, observed=observed, fourier=[], api=api)


def check(run, owners):
    """owners: module names (e.g. "aotools.turbulence.atmos_conversions").  Returns [(key, detail)] for every public function / class
    of those modules that some package of the library exports under its name but bound to another object."""
    core.import_aotools()
    pkgs = ["aotools"] + sorted({o.rsplit(".", 1)[0] for o in owners if o.count(".") >= 2})
    bad = []
    for pkgname in pkgs:
        prog = record(pkgname)
        tmp = tempfile.mkdtemp(prefix="aoverif-ns-")
        try:
            path = os.path.join(tmp, "ns.json")
            with open(path, "w") as fh:
                json.dump(prog, fh)
            r = run.tlc("Namespace", "NamespaceAPI.cfg", label="Namespace/%s" % pkgname, env={"NS_FILE": path}, workers=1,
                        require_actions=("Import",), timeout=600)
        finally:
            shutil.rmtree(tmp, ignore_errors=True)
        if r.violated == "APIUnshadowed":
            pkg = importlib.import_module(pkgname)
            for n, owner in prog["api"]:
                actual = origin(vars(pkg).get(n))
                if actual != owner and owner in owners:
                    bad.append(("package-export:%s.%s-bound-to:%s" % (pkgname, n, actual), dict(name=n, defined_in=owner, bound_to=actual)))
        elif r.violated:
            raise core.MachineryError("Namespace.tla: recorded import program of %s not explained by the model (%s)" % (pkgname, r.violated))
        run.traces += 1
    return bad
