"""Shared machinery: run TLC, parse what it printed, book-keep verdicts, write evidence.

Exit codes of a check:  0 held / only known findings, 1 VIOLATION, 2 machinery failure.
"""
import fnmatch
import json
import math
import os
import re
import shutil
import subprocess
import sys
import tempfile
import time
from pathlib import Path

VERIF = Path(__file__).resolve().parent.parent
REPO = Path(os.environ.get("AOTOOLS_REPO", "/repo"))
SPEC = VERIF / "spec"
OUT = VERIF / "out"
TLA_CP = "/opt/veriftools/tla/tla2tools.jar:/opt/veriftools/tla/CommunityModules-deps.jar"
NCPU = os.cpu_count() or 4


class MachineryError(Exception):
    pass


# --------------------------------------------------------------------------- TLC

class TLCResult:
    def __init__(self):
        self.ok = False            # finished without error
        self.violated = None       # name of violated invariant / property, if any
        self.generated = 0
        self.distinct = 0
        self.depth = 0
        self.printed = []          # decoded PrintT(ToJson(..)) payloads
        self.coverage = {}         # action name -> (distinct, total)
        self.raw = ""
        self.wall = 0.0
        self.cmd = ""
        self.error_text = ""

    def summary(self):
        return dict(generated=self.generated, distinct=self.distinct, depth=self.depth,
                    printed=len(self.printed), wall_s=round(self.wall, 2), violated=self.violated)


_RE_STATES = re.compile(r"^(\d+) states generated, (\d+) distinct states found")
_RE_DEPTH = re.compile(r"depth of the complete state graph search is (\d+)")
_RE_INV = re.compile(r"^Error: Invariant (\S+) is violated")
_RE_PROP = re.compile(r"^Error: (?:Action|Temporal) propert(?:y|ies) (\S+)? ?.*violated")
_RE_COV = re.compile(r"^<(\w+) line \d+, col \d+ to line \d+, col \d+ of module (\w+)>: (\d+):(\d+)")
_RE_SIM = re.compile(r"^The number of states generated: (\d+)")


def run_tlc(module, cfg=None, *, cfg_text=None, workers=None, simulate=None, depth=None,
            seed=None, env=None, timeout=900, coverage=True, deadlock=None, dfs=False,
            keep=False, extra=()):
    """Run TLC on spec/<module>.tla.  cfg: file name under spec/; cfg_text: literal config.
    simulate: dict(num=..., file=...) -> `-simulate`.  Returns TLCResult; raises MachineryError on
    tool failure that is not an invariant/property violation."""
    tmp = Path(tempfile.mkdtemp(prefix="aoverif-tlc-"))
    try:
        if cfg_text is not None:
            cfgp = tmp / (module + ".cfg")
            cfgp.write_text(cfg_text)
        else:
            cfgp = SPEC / cfg
        workers = workers or min(NCPU, 8)   # measured: more than 8 workers slows these small models down
        jopts = ["-XX:+UseParallelGC", "-XX:ParallelGCThreads=4", "-Xms1g", "-Xmx8g", "-Xss16m"]
        if dfs:
            jopts.append("-Dtlc2.tool.queue.IStateQueue=StateDeque")
        cmd = ["java", *jopts, "-cp", TLA_CP, "tlc2.TLC", "-workers", str(workers),
               "-metadir", str(tmp / "meta"), "-noGenerateSpecTE", "-config", str(cfgp)]
        if coverage and not simulate:
            cmd += ["-coverage", "1"]
        if simulate:
            s = "num=%d" % simulate.get("num", 100)
            if simulate.get("file"):
                s = "file=%s,%s" % (simulate["file"], s)
            cmd += ["-simulate", s]
        if depth:
            cmd += ["-depth", str(depth)]
        if seed is not None:
            cmd += ["-seed", str(seed)]
        if deadlock is False:
            cmd += ["-deadlock"]
        cmd += list(extra)
        cmd.append(str(SPEC / (module + ".tla")))
        e = dict(os.environ)
        e.pop("JAVA_TOOL_OPTIONS", None)
        if env:
            e.update({k: str(v) for k, v in env.items()})
        t0 = time.time()
        try:
            p = subprocess.run(cmd, cwd=str(SPEC), env=e, stdout=subprocess.PIPE,
                               stderr=subprocess.STDOUT, timeout=timeout, text=True, errors="replace")
        except subprocess.TimeoutExpired as ex:
            raise MachineryError("TLC timeout after %ss: %s" % (timeout, " ".join(cmd))) from ex
        r = TLCResult()
        r.wall = time.time() - t0
        r.raw = p.stdout
        r.cmd = " ".join(cmd)
        errs = []
        for line in p.stdout.splitlines():
            if line.startswith('"') and line.endswith('"') and len(line) > 1:
                try:
                    s = json.loads(line)
                    if s[:1] in "{[":
                        r.printed.append(json.loads(s))
                    continue
                except Exception:
                    pass
            m = _RE_STATES.match(line)
            if m:
                r.generated, r.distinct = int(m.group(1)), int(m.group(2))
                continue
            m = _RE_SIM.match(line)
            if m:
                r.generated = int(m.group(1))
                r.distinct = max(r.distinct, 1)
                continue
            m = _RE_DEPTH.search(line)
            if m:
                r.depth = int(m.group(1))
                continue
            m = _RE_INV.match(line)
            if m:
                r.violated = m.group(1)
                continue
            if line.startswith("Error: Action property") or line.startswith("Error: Temporal propert"):
                mm = re.search(r"propert(?:y|ies) (\w+)", line)
                r.violated = mm.group(1) if mm else "temporal"
                continue
            m = _RE_COV.match(line)
            if m:
                name = m.group(1)
                d, t = int(m.group(3)), int(m.group(4))
                od, ot = r.coverage.get(name, (0, 0))
                r.coverage[name] = (od + d, ot + t)
                continue
            if line.startswith("Error:"):
                errs.append(line)
        r.error_text = "\n".join(errs)
        finished = ("Model checking completed. No error has been found." in p.stdout) or \
                   (simulate and p.returncode == 0)
        r.ok = bool(finished)
        if not r.ok and r.violated is None:
            tail = "\n".join(p.stdout.splitlines()[-40:])
            if keep:
                (OUT / "tlc-fail.log").write_text(p.stdout)
            raise MachineryError("TLC failed (rc=%s) on %s/%s:\n%s" % (p.returncode, module, cfg or "<inline>", tail))
        return r
    finally:
        shutil.rmtree(tmp, ignore_errors=True)


def sany(module):
    cmd = ["java", "-cp", TLA_CP, "tla2sany.SANY", str(SPEC / (module + ".tla"))]
    p = subprocess.run(cmd, cwd=str(SPEC), stdout=subprocess.PIPE, stderr=subprocess.STDOUT, text=True)
    ok = p.returncode == 0 and "Semantic errors" not in p.stdout and "***Parse Error***" not in p.stdout \
        and "Fatal errors" not in p.stdout and "Could not find" not in p.stdout
    return ok, p.stdout


# --------------------------------------------------------------------------- findings

def load_findings():
    p = VERIF / "known_findings.json"
    if not p.exists():
        return []
    return json.loads(p.read_text()).get("findings", [])


class Run:
    """One execution of one property's check."""

    def __init__(self, prop, tier, seed):
        self.prop, self.tier, self.seed = prop, tier, seed
        self.t0 = time.time()
        self.states = 0
        self.transitions = 0
        self.traces = 0              # cases replayed into / traces recorded from the real code
        self.evaluations = 0
        self.samples = []
        self.tlc_runs = []
        self.bounds = {}
        self.actions = {}
        self.aux = {}
        self.notes = []
        self.assumptions = []
        self.violations = []         # (key, detail, case)
        self.known_seen = {}         # finding key -> count
        self.impl_drift = []
        self.unrunnable = []
        self.exhaustive = True
        self.known = [f for f in load_findings() if f.get("property") == prop and f.get("status") == "known"]
        self._replay_n = 0

    # -- TLC bookkeeping
    def tlc(self, module, cfg=None, label=None, expect_violation=None, require_actions=(), **kw):
        kw.setdefault("seed", self.seed if kw.get("simulate") else None)
        if kw.get("seed") is None:
            kw.pop("seed")
        r = run_tlc(module, cfg, **kw)
        label = label or ("%s/%s" % (module, cfg or "inline"))
        self.tlc_runs.append(dict(label=label, **r.summary()))
        self.states += r.distinct
        self.transitions += r.generated
        if kw.get("simulate"):
            self.exhaustive = False
        for a, (d, t) in r.coverage.items():
            od, ot = self.actions.get(a, (0, 0))
            self.actions[a] = (od + d, ot + t)
        for a in require_actions:
            if r.coverage.get(a, (0, 0))[1] == 0:
                raise MachineryError("vacuity: action %s of %s never taken in %s" % (a, module, label))
        if expect_violation is None and r.violated:
            # design-level failure: the model itself violates a property.  Reported by caller.
            pass
        return r

    def sample(self, obj, limit=4):
        if len(self.samples) < limit:
            self.samples.append(obj)

    # -- verdicts
    def violation(self, key, detail, case=None):
        """The real code disagrees with Def (or a model invariant fails for the real trace)."""
        for f in self.known:
            if fnmatch.fnmatchcase(key, f["key"]):
                self.known_seen.setdefault(f["key"], [0, f, detail])[0] += 1
                return "known"
        self.violations.append((key, detail, case))
        return "violation"

    def drift(self, key, detail):
        if len(self.impl_drift) < 50:
            self.impl_drift.append(dict(key=key, detail=detail))

    def write_replay(self, key, detail, case):
        d = OUT / "replay"
        d.mkdir(parents=True, exist_ok=True)
        self._replay_n += 1
        safe = re.sub(r"[^A-Za-z0-9_.-]+", "_", key)[:60]
        p = d / ("%s-%s-%d.json" % (self.prop, safe, self._replay_n))
        p.write_text(json.dumps(dict(property=self.prop, key=key, detail=detail, case=case,
                                     seed=self.seed, tier=self.tier,
                                     rerun="./check --replay %s" % p), indent=1, default=str))
        return p

    def finish(self):
        wall = time.time() - self.t0
        for key, (n, f, detail) in sorted(self.known_seen.items()):
            print("KNOWN-FINDING: property=%s %s -- %s (%d case(s) this run)" %
                  (self.prop, key, f.get("description", ""), n))
        seen_keys = {}
        for key, detail, case in self.violations:
            if key in seen_keys:
                seen_keys[key] += 1
                continue
            seen_keys[key] = 1
            p = self.write_replay(key, detail, case)
            print("VIOLATION property=%s replay=%s" % (self.prop, p))
            print("  key=%s detail=%s" % (key, json.dumps(detail, default=str)[:600]))
        cov = dict(
            states=int(self.states), transitions=int(self.transitions),
            traces_validated_against_impl=int(self.traces),
            evaluations=int(self.evaluations or self.traces),
            samples=self.samples or [{"note": "no case recorded"}],
            exhaustive=bool(self.exhaustive),
            tlc_runs=self.tlc_runs, bounds=self.bounds,
            actions_covered={k: list(v) for k, v in sorted(self.actions.items())},
            aux_numeric_checks=self.aux,
            known_findings_seen={k: v[0] for k, v in self.known_seen.items()},
            violation_keys=seen_keys,
            impl_drift=self.impl_drift,
            unrunnable_entry_points=self.unrunnable,
            notes=self.notes,
            explanation="states/transitions: distinct states / successor states generated as printed by TLC in this run, "
                        "summed over the listed tlc_runs; traces_validated_against_impl: TLC-enumerated cases replayed "
                        "into the real code plus recorded traces accepted by a trace spec.",
        )
        ev = dict(property_id=self.prop, tier=self.tier, seed=int(self.seed), level="model_checking",
                  coverage=cov, assumptions=self.assumptions, wall_s=round(wall, 2),
                  violations=len(self.violations))
        evdir = Path(os.environ.get("AOVERIF_EVIDENCE_DIR", str(VERIF / "evidence")))      # seedtool wdetect redirects this
        evdir.mkdir(exist_ok=True)
        (evdir / (self.prop + ".json")).write_text(json.dumps(_strict(ev), indent=1, default=str) + "\n")
        status = "VIOLATED" if self.violations else "held"
        print("%s %s tier=%s seed=%d states=%d transitions=%d replayed=%d known=%d wall=%.1fs" %
              (self.prop, status, self.tier, self.seed, self.states, self.transitions, self.traces,
               len(self.known_seen), wall))
        return 1 if self.violations else 0


# --------------------------------------------------------------------------- helpers

def _strict(o):
    """evidence files are strict JSON: non-finite floats become strings"""
    if isinstance(o, float) and not math.isfinite(o):
        return repr(o)
    if isinstance(o, dict):
        return {str(k): _strict(v) for k, v in o.items()}
    if isinstance(o, (list, tuple)):
        return [_strict(v) for v in o]
    return o


def import_aotools():
    """Import aotools from the working tree of REPO (never from site-packages)."""
    sp = str(REPO)
    if sp in sys.path:
        sys.path.remove(sp)
    sys.path.insert(0, sp)
    import aotools  # noqa
    f = Path(aotools.__file__).resolve()
    if REPO.resolve() not in f.parents:
        raise MachineryError("aotools imported from %s, not from %s" % (f, REPO))
    return aotools


def frac(p):
    """<<num, den>> from TLC -> Fraction"""
    from fractions import Fraction
    return Fraction(int(p[0]), int(p[1]))
