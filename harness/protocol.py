"""Replay of spec/ObjProtocol.tla histories into real infinite-screen objects (used by `./check growth` and by C04)."""
import numpy as np

from harness import core


def check(run, ips, rng, cap):
    """returns the number of histories replayed; violations are reported on `run` with keys screen-protocol:*"""
    kinds = {}
    r4 = run.tlc("ObjProtocol", "ObjProtocol.cfg", require_actions=("Next",), timeout=1200)
    if r4.violated:
        raise core.MachineryError("ObjProtocol.tla violates its own property %s" % r4.violated)
    hists = r4.printed
    if len(hists) > cap:
        hists = [hists[i] for i in rng.permutation(len(hists))[:cap]]
    VERS = {1: (0.2, 20.0), 2: (0.1, 35.0), 3: (0.35, 12.0)}
    makers = {"vk": lambda v: ips.PhaseScreenVonKarman(4, 0.5, VERS[v][0], VERS[v][1], random_seed=3),
              "fried": lambda v: ips.PhaseScreenKolmogorov(3, 0.5, VERS[v][0], VERS[v][1], random_seed=3, stencil_length_factor=1)}
    with np.errstate(all="ignore"):
        refs = {vn: {v: mk(v) for v in VERS} for vn, mk in makers.items()}
        for hi, c in enumerate(hists):
            vn = "vk" if hi % 2 == 0 else "fried"
            obj = makers[vn](1)
            kinds["protocol"] = kinds.get("protocol", 0) + 1
            run.traces += 1
            if kinds["protocol"] == 11:
                run.sample(c, limit=16)
            for st in c["hist"]:
                if st["op"] == "set":
                    obj.r0, obj.L0 = VERS[st["arg"]]
                elif st["op"] == "add_row":
                    out = obj.add_row()
                    if not np.all(np.isfinite(np.asarray(out))):
                        run.violation("screen-protocol:non-finite-row", dict(variant=vn, hist=c["hist"]), c)
                        break
                else:
                    getattr(obj, st["op"])()
            R = refs[vn]
            nz = obj.n_stencils
            what = None
            if not np.array_equal(np.asarray(obj.cov_mat), np.asarray(R[c["covv"]].cov_mat)):
                what = "cov_mat is not the covariance of the parameters it was last computed from"
            elif not np.array_equal(np.asarray(obj.A_mat), np.asarray(R[c["Av"]].A_mat)):
                what = "A_mat is not the matrix of the covariance it was last computed from"
            else:
                cv, av = c["Bv"]
                if cv == av:
                    if not np.array_equal(np.asarray(obj.B_mat), np.asarray(R[cv].B_mat)):
                        what = "B_mat differs from a fresh object's"
                elif not np.all(np.isfinite(np.asarray(obj.B_mat))):
                    # (B computed from a covariance and an A of different versions is the matrix square root of something that need not be
                    #  positive semi-definite: no identity to hold it to, only finiteness)
                    what = "B_mat not finite"
            if what:
                run.violation("screen-protocol:" + what.split(" ")[0], dict(variant=vn, what=what, hist=[(h_["op"], h_["arg"]) for h_ in c["hist"]],
                                                                            model=dict(covv=c["covv"], Av=c["Av"], Bv=c["Bv"])), c)
    return kinds.get("protocol", 0)


def check_cov(run, sc, rng, cap):
    """Replay of spec/CovProtocol.tla histories into real CovarianceMatrix objects; returns the number of histories replayed."""
    from harness.checks import c03
    r = run.tlc("CovProtocol", "CovProtocol.cfg", require_actions=("Next",), timeout=1200)
    if r.violated:
        raise core.MachineryError("CovProtocol.tla violates its own property %s" % r.violated)
    hists = r.printed
    if len(hists) > cap:
        hists = [hists[i] for i in rng.permutation(len(hists))[:cap]]
    nw, npairs = 2, 3
    g0 = c03.geometry(nw)
    VERS = {1: {}, 2: dict(gs_positions=g0["gs_positions"][::-1].copy() * 1.5),
            3: dict(layer_altitudes=np.array([2000.0, 11000.0]), layer_r0s=np.array([0.22, 0.11]), layer_L0s=np.array([30.0, 18.0]))}
    base = {k: g0[k] for k in ("gs_positions", "layer_altitudes", "layer_r0s", "layer_L0s")}
    acc = {v: dict(base, **VERS[v]) for v in VERS}               # a version is a full assignment of the four attributes
    fresh = {v: np.array(c03.new_object(sc, nw, mod=acc[v]).make_covariance_matrix(), copy=True) for v in VERS}
    non = int(np.asarray(g0["pupil_masks"][0]).sum())
    recon = {v: np.asarray(sc.create_tomographic_covariance_reconstructor(fresh[v].copy(), non, 0.01), float) for v in VERS}
    n = 0
    for c in hists:
        cm = c03.new_object(sc, nw)
        last_R = None
        what = None
        for st in c["hist"]:
            if st["op"] == "set":
                for name, val in acc[st["arg"]].items():
                    setattr(cm, name, np.array(val, copy=True))
            elif st["op"] == "threads":
                cm.threads = st["arg"]
            elif st["op"] == "build":
                k = int(cm.threads)
                if k == 1:
                    cm.make_covariance_matrix()
                else:
                    c03.controlled_build(sc, cm, k, npairs, [list(range(npairs, 0, -1))] * 2, [1, 0])
            elif st["op"] == "tomo":
                last_R = np.asarray(cm.make_tomographic_reconstructor(0.01), float)
        n += 1
        run.traces += 1
        if c["matv"] != 0:
            held = np.asarray(cm.covariance_matrix)
            if held.shape != fresh[c["matv"]].shape or held.tobytes() != fresh[c["matv"]].astype(held.dtype).tobytes():
                what = "the held matrix is not the matrix of the configuration it was last built from"
        if what is None and c["recv"] != 0 and last_R is not None:
            want = recon[c["recv"]]
            if last_R.shape != want.shape or not np.allclose(last_R, want, rtol=0, atol=1e-7 * max(1.0, np.abs(want).max())):
                what = "the reconstructor is not the one of the matrix held when it was derived"
        if what:
            run.violation("covariance-protocol:" + ("matrix" if "held matrix" in what else "reconstructor"),
                          dict(what=what, hist=[(h_["op"], h_["arg"]) for h_ in c["hist"]], model=dict(matv=c["matv"], recv=c["recv"])), dict(c, kind="covprotocol"))
            break
    return n
