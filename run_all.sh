#!/bin/sh
# runs every claimed check (default: quick) on the current tree; prints one summary line per property
cd "$(dirname "$0")"
TIER="${1:-quick}"
rc=0
for p in $(./check --list); do
  out=$(./check "$p" --tier "$TIER" 2>&1); r=$?
  echo "$out" | grep -E "^(C[0-9]+ |VIOLATION|MACHINERY)" | grep -v "^KNOWN" | tail -3
  [ $r -ne 0 ] && rc=$r && echo "   -> exit $r for $p"
done
exit $rc
