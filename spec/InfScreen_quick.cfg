SPECIFICATION Spec
CONSTANTS
  Reqs = {1, 2, 3, 4, 5, 6}
  Factors = {1, 2}
  Depth = 6
  Emit = TRUE
INVARIANT ExposedShape
INVARIANT WorkingShape
INVARIANT NoDuplicates
INVARIANT EmitCase
PROPERTY ShiftByOne
PROPERTY NothingElseChanges
PROPERTY ReadsArePure
PROPERTY StreamAdvance
CHECK_DEADLOCK FALSE
