SPECIFICATION Spec
CONSTANTS
  Sizes = {2, 4, 8}
  Mags <- MagsAll
  ZMults <- ZAll
  ProgLen = 4
  Emit = TRUE
INVARIANT StagesTyped
INVARIANT PowerLedger
INVARIANT OrientationPreserved
INVARIANT TwoStepOrientation
INVARIANT Additive
INVARIANT CollapseSound
INVARIANT MagnifyBack
INVARIANT EmitCase
CHECK_DEADLOCK FALSE
