SPECIFICATION Spec
CONSTANTS
  MaxVal = 2
  CogThetas <- QuickThetas
  BpKs = {2, 4, 9}
  CorrSizes = {4, 5}
  RectSizes = {4}
  MaxPad = 3
  Emit = TRUE
INVARIANT CoGIsFirstMoment
INVARIANT SinglePixel
INVARIANT ScaleInvariant
INVARIANT ShiftEquivariant
INVARIANT StackEqualsFrames
INVARIANT CorrelationDisplacement
INVARIANT QuadMirror
INVARIANT EmitCase
CHECK_DEADLOCK FALSE
