------------------------------- MODULE KLSelect -------------------------------
(***************************************************************************)
(* The discrete half of gkl_fcom (aotools/functions/karhunenLoeve.py):     *)
(* which radial eigenfunctions of which azimuthal orders make up the        *)
(* "nfunc functions with the largest eigenvalues", in which sequence, and   *)
(* which azimuthal row (cos / sin harmonic) each is multiplied with.        *)
(* The eigen-decompositions themselves are numerics (C13, not applicable); *)
(* here an eigenvalue is an abstract rank: order t >= 1 has nr of them,    *)
(* order 0 has nr-1 plus the piston's 0, all ranks distinct.                *)
(*                                                                         *)
(* Def:  every (order t >= 1, index k) stands for TWO functions (cos, sin) *)
(*       with the same eigenvalue, (0, k) for one; the basis is the first  *)
(*       nfunc of all of them in non-increasing eigenvalue.                 *)
(* Impl: the order loop with its stopping rule, the flattened argsort, the *)
(*       duplication loop (no / ni), the labels tord, pio, oord, nord, npo.*)
(* Run by `./check growth` (beyond the listed properties).                  *)
(***************************************************************************)
EXTENDS Integers, Sequences, FiniteSets, FiniteSetsExt, SequencesExt, TLC, Json

CONSTANTS NrSet,       \* radial resolutions
          NOrders,     \* number of azimuthal orders for which a kernel exists (nth)
          Emit

VARIABLES pc, nr, col,      \* col[t+1] = set of ranks of order t  (order 0: nr-1 of them; the piston's 0 is implicit)
          v,                \* next rank to place (setup)
          nfunc,
          nxt, nus,         \* the order loop
          a, oind, no, ni,  \* the selection / duplication loop
          lab               \* the labels
vars == <<pc, nr, col, v, nfunc, nxt, nus, a, oind, no, ni, lab>>

M(n) == n * NOrders - 1
Cap(n, t) == IF t = 0 THEN n - 1 ELSE n
SetMax(S) == IF S = {} THEN 0 ELSE Max(S)
\* eigh returns eigenvalues in ascending order: evs[k][t], k = 0..nr-1 ; order 0 has the piston's 0 appended LAST
Asc(S) == SetToSortSeq(S, <)
Evs(t) == IF t = 0 THEN Asc(col[1]) \o <<0>> ELSE Asc(col[t + 1])

Init == /\ pc = "place" /\ nr \in NrSet /\ col = [t \in 1..NOrders |-> {}] /\ v = 0
        /\ nfunc = 0 /\ nxt = 0 /\ nus = 0 /\ a = <<>> /\ oind = <<>> /\ no = 0 /\ ni = 0 /\ lab = <<>>

\* ---- setup: distribute the ranks M, M-1, ..., 1 over the orders (every way of doing so)
Place ==
    /\ pc = "place"
    /\ LET val == M(nr) - v IN
       IF val >= 1
         THEN /\ \E t \in 0..NOrders-1 : Cardinality(col[t + 1]) < Cap(nr, t) /\ col' = [col EXCEPT ![t + 1] = @ \cup {val}]
              /\ v' = v + 1 /\ pc' = pc /\ UNCHANGED nfunc
         ELSE /\ \E n \in 1..(2 * M(nr)) : nfunc' = n
              /\ pc' = "orders" /\ UNCHANGED <<col, v>>
    /\ nxt' = 1 /\ UNCHANGED <<nr, nus, a, oind, no, ni, lab>>

\* physical precondition of the stopping rule: the largest eigenvalue of an order decreases with the order (t >= 1)
MaxDecreasing == \A t \in 1..NOrders-2 : SetMax(col[t + 2]) < SetMax(col[t + 1])

\* ---- the order loop:  mxn = max(evs[:, nxt]); count eigenvalues of orders 0..nxt above it, twice except order 0
Count(n) == LET mxn == SetMax(col[n + 1])
            IN  2 * Cardinality({ <<t, r>> \in (0..n) \X (1..M(nr)) : r \in col[t + 1] /\ r > mxn })
                  - Cardinality({ r \in col[1] : r > mxn })
OrderStep ==
    /\ pc = "orders"
    /\ IF nxt > NOrders - 1
         THEN pc' = "out-of-orders" /\ UNCHANGED <<nxt, nus>>           \* the code would index past the kernels: outside the scope
         ELSE IF Count(nxt) >= nfunc
                THEN nus' = nxt /\ nxt' = nxt + 1 /\ pc' = "select"     \* nxt is incremented before the test; nus = nxt - 1
                ELSE nxt' = nxt + 1 /\ pc' = pc /\ UNCHANGED nus
    /\ UNCHANGED <<nr, col, v, nfunc, a, oind, no, ni, lab>>

\* ---- evs[:, 0:nus].T flattened: index t*nr + k ; a = argsort(-evs)[0:nfunc]
Flat == [i \in 0..(nr * nus - 1) |-> Evs(i \div nr)[(i % nr) + 1]]
Select ==
    /\ pc = "select"
    /\ LET idx == SetToSortSeq(0..(nr * nus - 1), LAMBDA x, y : Flat[x] > Flat[y])
       IN  a' = SubSeq(idx, 1, IF nfunc < Len(idx) THEN nfunc ELSE Len(idx))
    /\ oind' = [i \in 1..(nfunc + 1) |-> 0] /\ no' = 0 /\ ni' = 0 /\ pc' = "dup"
    /\ UNCHANGED <<nr, col, v, nfunc, nxt, nus, lab>>

\* ---- while True: order-0 entries once, all others twice; until no >= nfunc
DupStep ==
    /\ pc = "dup"
    /\ IF a[ni + 1] < nr
         THEN oind' = [oind EXCEPT ![no + 1] = a[ni + 1]] /\ no' = no + 1
         ELSE oind' = [oind EXCEPT ![no + 1] = a[ni + 1], ![no + 2] = a[ni + 1]] /\ no' = no + 2
    /\ ni' = ni + 1
    /\ pc' = IF no' >= nfunc THEN "label" ELSE pc
    /\ UNCHANGED <<nr, col, v, nfunc, nxt, nus, a, lab>>

\* ---- oind[0:nfunc]; tord = oind // nr; pio = oind % nr; odd = position parity; oord = 2 tord - [tord >= 1 and odd]
Label ==
    /\ pc = "label"
    /\ LET o == SubSeq(oind, 1, nfunc)
           tord == [i \in 1..nfunc |-> o[i] \div nr]
           pio  == [i \in 1..nfunc |-> o[i] % nr]
           oord == [i \in 1..nfunc |-> 2 * tord[i] - (IF tord[i] >= 1 /\ (i - 1) % 2 = 1 THEN 1 ELSE 0)]
           mx   == Max({ oord[i] : i \in 1..nfunc })
       IN  lab' = [tord |-> tord, pio |-> pio, oord |-> oord, nord |-> mx + 1,
                   npo |-> [q \in 1..(mx + 1) |-> Cardinality({ i \in 1..nfunc : oord[i] = q - 1 })],
                   evals |-> [i \in 1..nfunc |-> Flat[o[i]]]]
    /\ pc' = "done"
    /\ UNCHANGED <<nr, col, v, nfunc, nxt, nus, a, oind, no, ni>>

Next == Place \/ OrderStep \/ Select \/ DupStep \/ Label
Spec == Init /\ [][Next]_vars

-----------------------------------------------------------------------------
(* ---------- Def and properties ---------- *)
\* all functions of the basis family: <<eigenvalue, order, radial index>>, order >= 1 twice
AllFunctions == LET one == { <<Evs(0)[k], 0, k - 1>> : k \in 1..(nr - 1) }
                    two == UNION { { <<Evs(t)[k], t, k - 1>> : k \in 1..nr } : t \in 1..NOrders-1 }
                IN  [single |-> one, paired |-> two]
\* Def sequence: the first nfunc of (singles once, paired twice) by decreasing eigenvalue
DefSeq == LET f == AllFunctions
              srt == SetToSortSeq(f.single \cup f.paired, LAMBDA x, y : x[1] > y[1])
              RECURSIVE Expand(_)
              Expand(s) == IF s = <<>> THEN <<>> ELSE (IF Head(s)[2] = 0 THEN <<Head(s)>> ELSE <<Head(s), Head(s)>>) \o Expand(Tail(s))
              full == Expand(srt)
          IN  SubSeq(full, 1, IF nfunc < Len(full) THEN nfunc ELSE Len(full))

Done == pc = "done"
\* the basis is the Def's (needs the precondition: the stopping rule looks at no order beyond nus)
SelectionIsDef == (Done /\ MaxDecreasing) =>
    \A i \in 1..nfunc : <<lab.evals[i], lab.tord[i], lab.pio[i]>> = DefSeq[i]
NonIncreasing == Done => \A i \in 1..(nfunc - 1) : lab.evals[i] >= lab.evals[i + 1]
PistonNeverSelected == Done => \A i \in 1..nfunc : lab.evals[i] > 0
\* a complete pair gets one cos row (2t-1) and one sin row (2t); a single gets row 0; a pair split by the cut gets one of its two
PairsGetCosAndSin == Done =>
    \A i \in 1..nfunc :
        /\ lab.tord[i] = 0 => lab.oord[i] = 0
        /\ lab.tord[i] >= 1 => lab.oord[i] \in {2 * lab.tord[i] - 1, 2 * lab.tord[i]}
        /\ (i < nfunc /\ lab.tord[i] >= 1 /\ lab.tord[i + 1] = lab.tord[i] /\ lab.pio[i + 1] = lab.pio[i]
              /\ (i = 1 \/ ~(lab.tord[i - 1] = lab.tord[i] /\ lab.pio[i - 1] = lab.pio[i])))
             => {lab.oord[i], lab.oord[i + 1]} = {2 * lab.tord[i] - 1, 2 * lab.tord[i]}
\* the azimuthal table is asked for nord = max(oord) + 1 rows-to-fill: every row that is used gets written (GrowthKL!LastRowEmpty is harmless)
RowsUsedAreWritten == Done => \A i \in 1..nfunc : lab.oord[i] <= lab.nord - 1
CountsAddUp == Done => MapThenSumSet(LAMBDA q : lab.npo[q], 1..lab.nord) = nfunc
\* the stopping rule never leaves the kernels when enough functions exist up to the last order but one
InScope == pc # "out-of-orders" \/ Count(NOrders - 1) < nfunc

EmitCase == (Emit /\ pc = "done" /\ MaxDecreasing) =>
    PrintT(ToJson([kind |-> "klselect", nr |-> nr, nfunc |-> nfunc, cols |-> [t \in 1..NOrders |-> Evs(t - 1)], nus |-> nus,
                   tord |-> lab.tord, pio |-> lab.pio, oord |-> lab.oord, nord |-> lab.nord, npo |-> lab.npo, evals |-> lab.evals]))
=============================================================================
