------------------------------- MODULE Zernike -------------------------------
(***************************************************************************)
(* Zernike indexing, radial coefficients, Cartesian mode polynomials and   *)
(* Noll's gradient ("gamma") matrices  --  property C12.                   *)
(*   zernIndex           zernike.py:99-122                                 *)
(*   zernikeRadialFunc   zernike.py:73-96                                  *)
(*   zernike_nm          zernike.py:41-70                                  *)
(*   makegammas          zernike.py:172-279                                *)
(* Everything is exact integer arithmetic.  A mode is Z_j = sqrt(c_j)*P_j  *)
(* with P_j an integer polynomial in (x, y) and c_j = n+1 (m = 0) or       *)
(* 2(n+1); Noll's dZ_j/dx = sum gamma_jj' Z_j' becomes the integer         *)
(* identity dP_j/dx = sum rho_jj' P_j' (DESIGN.md A.2).                    *)
(***************************************************************************)
EXTENDS Integers, Sequences, FiniteSets, FiniteSetsExt, TLC, Json

CONSTANTS MaxJ,       \* Noll indices 1..MaxJ walked by the index state machine
          MaxRad,     \* radial orders 0..MaxRad for polynomials and gamma matrices
          Emit

VARIABLES mode, pc, cfg, st, res
vars == <<mode, pc, cfg, st, res>>

-----------------------------------------------------------------------------
(* ---------- Noll index ---------- *)
RECURSIVE ISqrtFrom(_, _)
ISqrtFrom(x, g) == IF (g+1)*(g+1) > x THEN g ELSE ISqrtFrom(x, g+1)
ISqrt(x) == LET lo == CHOOSE g \in 0..1000 : g*g <= x /\ (g+1)*(g+1) > x IN lo

\* Impl: the arithmetic of zernIndex with the float sqrt replaced by the integer square root
\*   n = int((-1 + sqrt(8(j-1)+1))/2) ; p = j - n(n+1)/2 ; k = n%2 ; m = int((p+k)/2)*2 - k ; sign by parity of j
NollImpl(j) ==
    LET n == (ISqrt(8*(j-1)+1) - 1) \div 2
        p == j - (n*(n+1)) \div 2
        k == n % 2
        m == ((p + k) \div 2) * 2 - k
    IN  << n, IF m = 0 THEN 0 ELSE IF j % 2 = 0 THEN m ELSE -m >>

\* Def: walk the set {(n, |m|) : n >= 0, |m| <= n, n - |m| even} by n then |m|; m = 0 takes one index, |m| > 0 two,
\* the even index being the cosine (+m) and the odd one the sine (-m).  State: <<j, n, am, second>>.
DefNext(s) ==
    LET j == s[1]  n == s[2]  am == s[3]  second == s[4]
    IN  IF am > 0 /\ ~second THEN << j+1, n, am, TRUE >>
        ELSE IF am + 2 <= n THEN << j+1, n, am + 2, FALSE >>
        ELSE << j+1, n+1, (n+1) % 2, FALSE >>
DefNM(s) == << s[2], IF s[3] = 0 THEN 0 ELSE IF s[1] % 2 = 0 THEN s[3] ELSE -s[3] >>

NollStep ==
    /\ mode = "noll" /\ pc = "walk"
    /\ st[1] < MaxJ
    /\ st' = DefNext(st)
    /\ UNCHANGED <<mode, pc, cfg, res>>

NollAgrees == mode = "noll" => NollImpl(st[1]) = DefNM(st)
NollInSet  == mode = "noll" => LET nm == NollImpl(st[1]) IN
                 /\ nm[1] >= 0 /\ nm[2] <= nm[1] /\ -nm[2] <= nm[1] /\ (nm[1] - nm[2]) % 2 = 0
                 /\ (nm[2] > 0 => st[1] % 2 = 0) /\ (nm[2] < 0 => st[1] % 2 = 1)
\* bijectivity: the walk visits each (n, m) once -- successive indices are strictly increasing in (n, |m|, visit)
NollOrdered == mode = "noll" /\ st[1] > 1 =>
                 LET a == NollImpl(st[1] - 1)  b == NollImpl(st[1])
                     abs(v) == IF v < 0 THEN -v ELSE v
                 IN  \/ a[1] < b[1]
                     \/ a[1] = b[1] /\ abs(a[2]) < abs(b[2])
                     \/ a[1] = b[1] /\ abs(a[2]) = abs(b[2]) /\ a[2] = -b[2] /\ a[2] # 0

-----------------------------------------------------------------------------
(* ---------- radial polynomials ---------- *)
RECURSIVE Fact(_)
Fact(k) == IF k <= 1 THEN 1 ELSE k * Fact(k-1)
Binom(n, k) == Fact(n) \div (Fact(k) * Fact(n-k))
Pm1(s) == IF s % 2 = 0 THEN 1 ELSE -1
\* coefficient of r^(n-2s)
RadialCoef(n, m, s) == (Pm1(s) * Fact(n - s)) \div (Fact(s) * Fact((n + m) \div 2 - s) * Fact((n - m) \div 2 - s))
RadialTerms(n, m) == [s \in 1..((n - m) \div 2 + 1) |-> RadialCoef(n, m, s - 1)]

\* R(1) = 1
RadialAtOne(n, m) == MapThenSumSet(LAMBDA s : RadialCoef(n, m, s), 0..((n - m) \div 2)) = 1
\* continuum orthogonality: int_0^1 R_n^m R_n'^m r dr = delta / (2(n+1)) ; times L = 5040 to stay in the integers
L == 5040
RadialInner(n, n2, m) ==
    MapThenSumSet(LAMBDA st2 : RadialCoef(n, m, st2[1]) * RadialCoef(n2, m, st2[2]) * (L \div (n + n2 - 2*st2[1] - 2*st2[2] + 2)),
                  (0..((n - m) \div 2)) \X (0..((n2 - m) \div 2)))

-----------------------------------------------------------------------------
(* ---------- Cartesian polynomials: functions [<<a, b>> -> Int], monomial x^a y^b ---------- *)
D == MaxRad
Exps == { e \in (0..D) \X (0..D) : e[1] + e[2] <= D }
PZero == [e \in Exps |-> 0]
PAdd(p, q) == [e \in Exps |-> p[e] + q[e]]
PScale(c, p) == [e \in Exps |-> c * p[e]]
PMul(p, q) == [e \in Exps |->
                 MapThenSumSet(LAMBDA f : p[f] * q[<<e[1] - f[1], e[2] - f[2]>>],
                               { f \in Exps : f[1] <= e[1] /\ f[2] <= e[2] })]
PDx(p) == [e \in Exps |-> IF <<e[1] + 1, e[2]>> \in Exps THEN (e[1] + 1) * p[<<e[1] + 1, e[2]>>] ELSE 0]
PDy(p) == [e \in Exps |-> IF <<e[1], e[2] + 1>> \in Exps THEN (e[2] + 1) * p[<<e[1], e[2] + 1>>] ELSE 0]
\* (x^2 + y^2)^t
RPow(t) == [e \in Exps |-> IF e[1] % 2 = 0 /\ e[2] % 2 = 0 /\ e[1] + e[2] = 2*t THEN Binom(t, e[1] \div 2) ELSE 0]
\* Re and Im of (x + i y)^m
CRe(m) == [e \in Exps |-> IF e[1] + e[2] = m /\ e[2] % 2 = 0 THEN Pm1(e[2] \div 2) * Binom(m, e[2]) ELSE 0]
CIm(m) == [e \in Exps |-> IF e[1] + e[2] = m /\ e[2] % 2 = 1 THEN Pm1((e[2] - 1) \div 2) * Binom(m, e[2]) ELSE 0]
\* P for (n, m): m >= 0 cosine, m < 0 sine
RECURSIVE RadialPoly(_, _, _)
RadialPoly(n, am, s) ==   \* sum over s' >= s of coef * (x^2+y^2)^((n-am)/2 - s')
    IF s > (n - am) \div 2 THEN PZero
    ELSE PAdd(PScale(RadialCoef(n, am, s), RPow((n - am) \div 2 - s)), RadialPoly(n, am, s + 1))
ModePoly(n, m) == LET am == IF m < 0 THEN -m ELSE m
                  IN  PMul(RadialPoly(n, am, 0), IF m >= 0 THEN CRe(am) ELSE CIm(am))

\* the list of modes in Noll order up to radial order MaxRad
NModes == ((MaxRad + 1) * (MaxRad + 2)) \div 2
ModeNM(j) == NollImpl(j)

-----------------------------------------------------------------------------
(* ---------- gamma matrices: rules a-d of makegammas, row i / column j (0-based), Noll index = i+1 ---------- *)
\* returns <<sign, gsq>> with gamma = sign * sqrt(gsq)  (gsq = 0 when the rules zero the entry)
Abs(v) == IF v < 0 THEN -v ELSE v
GammaImpl(axis, i, j) ==
    LET ni == ModeNM(i+1)[1]   mi == Abs(ModeNM(i+1)[2])
        nj == ModeNM(j+1)[1]   mj == Abs(ModeNM(j+1)[2])
        base == IF mi = 0 \/ mj = 0 THEN 2*(ni+1)*(nj+1) ELSE (ni+1)*(nj+1)
        oddi == (i+1) % 2 = 1
        oddj == (j+1) % 2 = 1
        zeroX == \/ (mi = 0 /\ oddj)
                 \/ (mi # 0 /\ mj = 0 /\ oddi)
                 \/ (mi # 0 /\ mj # 0 /\ oddi # oddj)
                 \/ Abs(mj - mi) # 1
        zeroY == \/ (mi = 0 /\ ~oddj)
                 \/ (mi # 0 /\ mj = 0 /\ ~oddi)
                 \/ (mi # 0 /\ mj # 0 /\ oddi = oddj)
                 \/ Abs(mj - mi) # 1
        negY == /\ mi # 0 /\ mj # 0
                /\ \/ (mj = mi + 1 /\ oddi)
                   \/ (mj = mi - 1 /\ ~oddi)
    IN  IF j > i THEN <<1, 0>>
        ELSE IF axis = "x" THEN (IF zeroX THEN <<1, 0>> ELSE <<1, base>>)
        ELSE (IF zeroY THEN <<1, 0>> ELSE <<IF negY THEN -1 ELSE 1, base>>)

\* rho = gamma * sqrt(c_j'/c_j): an integer (A.2)
Rho(axis, i, j) ==
    LET g == GammaImpl(axis, i, j)
        nj == ModeNM(j+1)[1]
        mi == ModeNM(i+1)[2]
    IN  IF g[2] = 0 THEN 0 ELSE g[1] * (nj + 1) * (IF mi = 0 THEN 2 ELSE 1)

RECURSIVE RowCombination(_, _, _)
RowCombination(axis, i, j) ==     \* sum_{j' = j..i} rho(i, j') * P_j'
    IF j > i THEN PZero
    ELSE PAdd(PScale(Rho(axis, i, j), ModePoly(ModeNM(j+1)[1], ModeNM(j+1)[2])), RowCombination(axis, i, j+1))

-----------------------------------------------------------------------------
Init ==
    /\ res = <<>>
    /\ \/ mode = "noll" /\ pc = "walk" /\ cfg = <<>> /\ st = <<1, 0, 0, FALSE>>
       \/ \E n \in 0..8 : \E m \in 0..n : (n - m) % 2 = 0 /\ mode = "radial" /\ pc = "eval" /\ cfg = [n |-> n, m |-> m] /\ st = <<>>
       \/ \E i \in 0..(NModes - 1) : mode = "gamma" /\ pc = "poly" /\ cfg = [i |-> i] /\ st = <<>>

RadialEval ==
    /\ mode = "radial" /\ pc = "eval"
    /\ res' = RadialTerms(cfg.n, cfg.m)
    /\ pc' = "done" /\ UNCHANGED <<mode, cfg, st>>

\* gamma mode: build the polynomial of mode i, differentiate, build both row combinations
GammaPoly ==
    /\ mode = "gamma" /\ pc = "poly"
    /\ st' = ModePoly(ModeNM(cfg.i + 1)[1], ModeNM(cfg.i + 1)[2])
    /\ pc' = "rows" /\ UNCHANGED <<mode, cfg, res>>
GammaRows ==
    /\ mode = "gamma" /\ pc = "rows"
    /\ res' = [gx |-> [j \in 1..(cfg.i + 1) |-> GammaImpl("x", cfg.i, j-1)],
               gy |-> [j \in 1..(cfg.i + 1) |-> GammaImpl("y", cfg.i, j-1)]]
    /\ pc' = "done" /\ UNCHANGED <<mode, cfg, st>>

Next == NollStep \/ RadialEval \/ GammaPoly \/ GammaRows
Spec == Init /\ [][Next]_vars

-----------------------------------------------------------------------------
RadialNormalised == (mode = "radial" /\ pc = "done") => RadialAtOne(cfg.n, cfg.m)
RadialOrthogonal == (mode = "radial" /\ pc = "done") =>
    \A n2 \in 0..8 : (n2 >= cfg.m /\ (n2 - cfg.m) % 2 = 0) =>
        RadialInner(cfg.n, n2, cfg.m) = (IF n2 = cfg.n THEN L \div (2*(cfg.n + 1)) ELSE 0)
\* the gradient identity, exact
GammaXIsGradient == (mode = "gamma" /\ pc = "done") => PDx(st) = RowCombination("x", cfg.i, 0)
GammaYIsGradient == (mode = "gamma" /\ pc = "done") => PDy(st) = RowCombination("y", cfg.i, 0)

PolyAsSeq(p) == LET RECURSIVE f(_) f(S) == IF S = {} THEN <<>> ELSE LET e == CHOOSE e \in S : TRUE IN << <<e[1], e[2], p[e]>> >> \o f(S \ {e})
                IN f({ e \in Exps : p[e] # 0 })
EmitCase ==
    /\ (Emit /\ mode = "noll" /\ st[1] % 1 = 0) => PrintT(ToJson([kind |-> "noll", j |-> st[1], nm |-> DefNM(st)]))
    /\ (Emit /\ mode = "radial" /\ pc = "done") => PrintT(ToJson([kind |-> "radial", n |-> cfg.n, m |-> cfg.m, coef |-> [s \in 1..Len(res) |-> res[s]]]))
    /\ (Emit /\ mode = "gamma" /\ pc = "done") =>
          PrintT(ToJson([kind |-> "mode", j |-> cfg.i + 1, nm |-> ModeNM(cfg.i + 1), poly |-> PolyAsSeq(st),
                         gx |-> res.gx, gy |-> res.gy]))
=============================================================================
