----------------------------- MODULE PurityTrace -----------------------------
(***************************************************************************)
(* Validates recorded programs against Purity.  A trace is a sequence of   *)
(* events logged at the return of each public call:                        *)
(*   [op |-> "pool",   keys, tokens]                    initial store       *)
(*   [op |-> "call",   f, args, before, after, res, exempt]                 *)
(*   [op |-> "mutate", args = <<key>>, res = new token]                     *)
(*   [op |-> "batch",  f, single, batched]   item-wise results, two lists   *)
(*   [op |-> "scribble", f = position of the call whose result was written  *)
(*                       into by the caller]                                 *)
(* f is the catalogue index of the entry point, args are store keys,        *)
(* before/after/res are first-seen content tokens given by the recorder.    *)
(***************************************************************************)
EXTENDS Integers, Sequences, FiniteSets, TLC, Json, IOUtils

Traces == JsonDeserialize(IOEnv.TRACE_FILE)

VARIABLES store, memo, tid, l
tvars == <<store, memo, tid, l>>

Ev == Traces[tid][l]
KeyOf(f, as) == <<f, [i \in 1..Len(as) |-> store[as[i]]]>>

TraceInit ==
    /\ \E t \in 1..Len(Traces) :
          /\ tid = t
          /\ Traces[t][1].op = "pool"
          /\ store = [i \in 1..Len(Traces[t][1].tokens) |-> Traces[t][1].tokens[i]]
    /\ memo = {} /\ l = 2

Has(op) == l <= Len(Traces[tid]) /\ Ev.op = op

\* the abstract Call of Purity.tla, bound to the logged fields: it is enabled only if the arguments are unchanged
\* and the result agrees with every earlier call on equal argument contents
TraceCall ==
    /\ Has("call")
    /\ [i \in 1..Len(Ev.args) |-> store[Ev.args[i]]] = Ev.before         \* the recorder and the model agree on the store
    /\ Ev.after = Ev.before                                               \* ArgsUnchanged
    /\ IF Ev.exempt THEN memo' = memo
       ELSE /\ \A m \in memo : m[1] = KeyOf(Ev.f, Ev.args) => m[2] = Ev.res      \* Deterministic / NoHiddenState
            /\ memo' = memo \cup { <<KeyOf(Ev.f, Ev.args), Ev.res>> }
    /\ store' = store /\ l' = l + 1 /\ UNCHANGED tid

TraceMutate ==
    /\ Has("mutate")
    /\ store' = [store EXCEPT ![Ev.args[1]] = Ev.res] /\ memo' = memo /\ l' = l + 1 /\ UNCHANGED tid

TraceBatch ==      \* BatchItemwise: item i of the batched result is what the single-item call returns
    /\ Has("batch")
    /\ Ev.single = Ev.batched
    /\ UNCHANGED <<store, memo, tid>> /\ l' = l + 1

TraceScribble ==   \* the caller wrote into an object it had been given: the model's state does not move
    /\ Has("scribble")
    /\ UNCHANGED <<store, memo, tid>> /\ l' = l + 1

TraceNext == TraceCall \/ TraceMutate \/ TraceBatch \/ TraceScribble
TraceSpec == TraceInit /\ [][TraceNext]_tvars

Functional == \A m1, m2 \in memo : m1[1] = m2[1] => m1[2] = m2[2]
Progress == PrintT(ToJson([kind |-> "progress", tid |-> tid, l |-> l]))
=============================================================================
