-------------------------------- MODULE Growth --------------------------------
(***************************************************************************)
(* Behaviour of AOtools OUTSIDE the twenty listed properties, specified    *)
(* with the same Def / Impl / replay discipline (run by `./check growth`;  *)
(* not part of MANIFEST.json, because the property list is fixed).         *)
(*                                                                         *)
(*   contrast   image_processing/contrast.py  image_contrast, rms_contrast *)
(*   gauss      functions/_functions.py       gaussian2d (argument order,  *)
(*              centring, the exact rational exponent of every pixel)      *)
(*   zarray     functions/zernike.py          zernikeArray / phaseFrom-    *)
(*              Zernikes as index-level dataflow over mode tokens          *)
(*   alloc      infinitephasescreen.py        find_allowed_size            *)
(***************************************************************************)
EXTENDS Integers, Sequences, FiniteSets, FiniteSetsExt, TLC, Json

CONSTANTS MaxVal, Emit

VARIABLES mode, pc, cfg, res
vars == <<mode, pc, cfg, res>>

Pix(h, w) == (0 .. h-1) \X (0 .. w-1)
Rows(h, w, f) == [a \in 1..h |-> [b \in 1..w |-> f[<<a-1, b-1>>]]]
MaxOf(img) == Max({ img[p] : p \in DOMAIN img })
MinOf(img) == Min({ img[p] : p \in DOMAIN img })
SumOf(img) == MapThenSumSet(LAMBDA p : img[p], DOMAIN img)
SumSq(img) == MapThenSumSet(LAMBDA p : img[p] * img[p], DOMAIN img)

\* ---- contrast --------------------------------------------------------------------------------------------
\* Michelson contrast (max - min)/(max + min) as <<num, den>>  (0/0 for the all-zero image)
Michelson(img) == << MaxOf(img) - MinOf(img), MaxOf(img) + MinOf(img) >>
\* rms contrast = std(image / max): its SQUARE is (n sum x^2 - (sum x)^2) / (n^2 max^2)
RmsSq(img) == LET n == Cardinality(DOMAIN img) IN << n * SumSq(img) - SumOf(img) * SumOf(img), n * n * MaxOf(img) * MaxOf(img) >>

\* ---- gaussian2d(size, width, amplitude, cent): image[y, x] = amplitude * exp(-arg/2), arg = ((xc-x)/xw)^2 + ((yc-y)/yw)^2
\* size = (ySize, xSize), width = (yWidth, xWidth), cent = (yCent, xCent); default centre = size/2 (NOT the middle pixel)
\* everything in halves: centres are given as twice their value
GaussArg(y, x, yc2, xc2, yw, xw) ==      \* arg as <<num, den>> : ((xc2-2x)/(2xw))^2 + ((yc2-2y)/(2yw))^2
    << (xc2 - 2*x) * (xc2 - 2*x) * yw * yw + (yc2 - 2*y) * (yc2 - 2*y) * xw * xw, 4 * xw * xw * yw * yw >>

\* ---- zernikeArray / phaseFromZernikes dataflow over mode tokens ------------------------------------------
\* a mode is a token <<"Z", j>>; normalised modes <<"Z", j, norm>>
ArrayFromCount(J) == [k \in 1..J |-> <<"Z", k>>]
ArrayFromList(L) == [k \in 1..Len(L) |-> <<"Z", L[k]>>]
Normalise(arr, norm) == IF norm = "noll" THEN arr ELSE [k \in 1..Len(arr) |-> <<arr[k][1], arr[k][2], norm>>]
\* phase = sum_z Zs[z] * zCoeffs[z] : a bag of <<coefficient index, mode token>>
PhaseTerms(ncoef, norm) == { <<z, Normalise(ArrayFromCount(ncoef), norm)[z]>> : z \in 1..ncoef }

\* ---- find_allowed_size ---------------------------------------------------------------------------------------
RECURSIVE Pow2(_)
Pow2(n) == IF n = 0 THEN 1 ELSE 2 * Pow2(n - 1)
RECURSIVE AllowedLoop(_, _)
AllowedLoop(nx, n) == IF Pow2(n) + 1 < nx THEN AllowedLoop(nx, n + 1) ELSE Pow2(n) + 1      \* the while loop of the code

-----------------------------------------------------------------------------
Init == /\ res = <<>>
        /\ \/ mode = "contrast" /\ pc = "choose" /\ cfg = <<>>
           \/ \E ys \in 1..4, xs \in 1..4, yw \in 1..2, xw \in 1..3, dflt \in BOOLEAN :
                 mode = "gauss" /\ pc = "choose" /\ cfg = [ys |-> ys, xs |-> xs, yw |-> yw, xw |-> xw, dflt |-> dflt]
           \/ \E J \in 1..5, norm \in {"noll", "p2v", "rms"} : mode = "zarray" /\ pc = "build" /\ cfg = [J |-> J, norm |-> norm, list |-> <<>>]
           \/ \E L \in { <<2, 5, 3>>, <<4>>, <<3, 3, 1>> }, norm \in {"noll", "rms"} : mode = "zarray" /\ pc = "build" /\ cfg = [J |-> 0, norm |-> norm, list |-> L]
           \/ \E nx \in 1..70 : mode = "alloc" /\ pc = "build" /\ cfg = [nx |-> nx]

Choose ==
    /\ pc = "choose"
    /\ \/ /\ mode = "contrast" /\ \E img \in [Pix(2, 3) -> 0..MaxVal] : cfg' = [img |-> img]
       \/ /\ mode = "gauss"
          /\ IF cfg.dflt THEN cfg' = cfg @@ [yc2 |-> cfg.ys, xc2 |-> cfg.xs]                       \* cent=None: size/2
             ELSE \E yc2 \in 0..(2*cfg.ys), xc2 \in {0, 1, 2*cfg.xs - 1} : cfg' = cfg @@ [yc2 |-> yc2, xc2 |-> xc2]
    /\ pc' = "build" /\ UNCHANGED <<mode, res>>

Build ==
    /\ pc = "build"
    /\ res' = CASE mode = "contrast" -> [mich |-> Michelson(cfg.img), rms2 |-> RmsSq(cfg.img)]
                [] mode = "gauss" -> [arg |-> [p \in Pix(cfg.ys, cfg.xs) |-> GaussArg(p[1], p[2], cfg.yc2, cfg.xc2, cfg.yw, cfg.xw)]]
                [] mode = "zarray" -> [arr |-> Normalise(IF cfg.J > 0 THEN ArrayFromCount(cfg.J) ELSE ArrayFromList(cfg.list), cfg.norm)]
                [] mode = "alloc" -> [size |-> AllowedLoop(cfg.nx, 0)]
    /\ pc' = "done" /\ UNCHANGED <<mode, cfg>>

Next == Choose \/ Build
Spec == Init /\ [][Next]_vars

Done(m) == mode = m /\ pc = "done"
\* contrast: between 0 and 1 for non-negative images, 0 exactly for constant images, invariant under scaling
ContrastRange == Done("contrast") => (res.mich[2] > 0 => (res.mich[1] >= 0 /\ res.mich[1] <= res.mich[2]))
ContrastConstant == Done("contrast") => ((MaxOf(cfg.img) = MinOf(cfg.img) /\ MaxOf(cfg.img) > 0) => (res.mich[1] = 0 /\ res.rms2[1] = 0))
ContrastScale == Done("contrast") =>
    LET i3 == [p \in DOMAIN cfg.img |-> 3 * cfg.img[p]]
    IN  /\ Michelson(i3)[1] * res.mich[2] = res.mich[1] * Michelson(i3)[2]
        /\ RmsSq(i3)[1] * res.rms2[2] = res.rms2[1] * RmsSq(i3)[2]
\* gaussian: the exponent vanishes exactly at the centre when the centre is a pixel; symmetric about the centre
GaussPeak == Done("gauss") => \A p \in Pix(cfg.ys, cfg.xs) : (res.arg[p][1] = 0) <=> (2*p[1] = cfg.yc2 /\ 2*p[2] = cfg.xc2)
GaussSymmetric == Done("gauss") => \A p, q \in Pix(cfg.ys, cfg.xs) :
    (2*p[1] - cfg.yc2 = cfg.yc2 - 2*q[1] /\ 2*p[2] - cfg.xc2 = cfg.xc2 - 2*q[2]) => res.arg[p] = res.arg[q]
\* array semantics: the list form is the matching slices of the count form
ListEqualsSlices == (Done("zarray") /\ cfg.J = 0) =>
    \A k \in 1..Len(cfg.list) : res.arr[k] = Normalise(ArrayFromCount(6), cfg.norm)[cfg.list[k]]
\* allowed size: the smallest 2^n + 1 that is >= the request
AllowedIsSmallest == Done("alloc") =>
    /\ res.size >= cfg.nx /\ \E n \in 0..7 : res.size = Pow2(n) + 1
    /\ \A n \in 0..7 : Pow2(n) + 1 >= cfg.nx => Pow2(n) + 1 >= res.size

EmitCase == (Emit /\ pc = "done") =>
    CASE mode = "contrast" -> PrintT(ToJson([kind |-> "contrast", img |-> Rows(2, 3, cfg.img), mich |-> res.mich, rms2 |-> res.rms2]))
      [] mode = "gauss" -> PrintT(ToJson([kind |-> "gauss", ys |-> cfg.ys, xs |-> cfg.xs, yw |-> cfg.yw, xw |-> cfg.xw, dflt |-> cfg.dflt,
                                          yc2 |-> cfg.yc2, xc2 |-> cfg.xc2, arg |-> Rows(cfg.ys, cfg.xs, res.arg)]))
      [] mode = "zarray" -> PrintT(ToJson([kind |-> "zarray", J |-> cfg.J, list |-> cfg.list, norm |-> cfg.norm, arr |-> res.arr]))
      [] mode = "alloc" -> PrintT(ToJson([kind |-> "alloc", nx |-> cfg.nx, size |-> res.size]))
=============================================================================
