SPECIFICATION Spec
CONSTANTS
  SFFull = TRUE
  SFMaxDim = 9
  TPSFull8 = TRUE
  Emit = TRUE
INVARIANT SFIsDef
INVARIANT LagZeroIsZero
INVARIANT RampLaw
INVARIANT Quadratic
INVARIANT TPSIsDef
INVARIANT Parseval
INVARIANT ParsevalHalf
INVARIANT TPSQuadratic
INVARIANT PeakAtBin
INVARIANT PeakNonZero
INVARIANT EmitCase
CHECK_DEADLOCK FALSE
