SPECIFICATION Spec
CONSTANTS
  Scope = "thorough"
  Variant = "repaired"
  Emit = TRUE
INVARIANT EntryIsDef
INVARIANT NoGarbage
INVARIANT Symmetric
INVARIANT EmitCase
PROPERTY AdditiveOverLayers
CHECK_DEADLOCK FALSE
