SPECIFICATION Spec
CONSTANTS
  MaxN = 6
  Strengths = {0, 1, 2, 5}
  MaxR = 2
  MaxIter = 200
  ScanMax = 400
  ScanL = 40
  BigN = {7, 8, 9}
  ArangeEdges = FALSE
  Emit = TRUE
INVARIANT ExactlyL
INVARIANT TotalConserved
INVARIANT NonNegative
INVARIANT HeightsAreInputHeightsIncreasing
INVARIANT GroupsPartition
INVARIANT NoWorseThanEqualSplit
INVARIANT Terminates
INVARIANT ELExactlyL
INVARIANT ELTotalConserved
INVARIANT ELMomentAdditive
INVARIANT EmitCase
CHECK_DEADLOCK FALSE
