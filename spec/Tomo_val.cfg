SPECIFICATION Spec
CONSTANTS
  Mode = "val"
  MaxOff = 4
  Emit = FALSE
INVARIANT ValVerdict
CHECK_DEADLOCK FALSE
