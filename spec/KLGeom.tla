-------------------------------- MODULE KLGeom --------------------------------
(***************************************************************************)
(* The Cartesian side of the Karhunen-Loeve pipeline: pcgeom / set_pctr /   *)
(* pol2car / make_kl (aotools/functions/karhunenLoeve.py).  The modes       *)
(* themselves are numerics (C13, not applicable); WHICH pixel of the ncp x  *)
(* ncp frame belongs to the annular aperture, which ring and which quadrant *)
(* of the polar grid it is interpolated from, and what make_kl does with    *)
(* the interpolated frames is geometry on an integer lattice and dataflow.  *)
(*                                                                         *)
(* Lattice: pixel k of an axis sits at  g(k) = (2k - (ncp-1)) / nused  with *)
(* nused = ncp - 2 ncmar, so with u = 2i-(ncp-1), v = 2j-(ncp-1) (integers) *)
(*      x^2 + y^2 = (u^2 + v^2) / nused^2        ri = p / q                 *)
(* Def  : ap = pixel centres in the closed annulus  ri <= rho <= 1  whose   *)
(*        outer diameter is nused pixels, centred on the frame; the ring of *)
(*        a pixel is the equal-area ring number floor(nr (rho^2 - ri^2) /   *)
(*        (1 - ri^2)); the quadrant is that of (x, y) = (g(column), g(row)).*)
(* Impl : the code's expressions, one frame row per step (RowStep), with    *)
(*        the clips of cr to [1e-3, nr - 1.001].                            *)
(* Ties (a pixel centre exactly on a circle, a ring boundary or an axis)    *)
(* are marked: floating point decides them and the replay leaves them out.  *)
(* Run by `./check growth` (beyond the listed properties).                  *)
(***************************************************************************)
EXTENDS Integers, Sequences, FiniteSets, FiniteSetsExt, TLC, Json

CONSTANTS NcpSet, MarSet, RiSet, NrSet, Emit

VARIABLES pc, cfg, row, ap, tie, ring, rtie, quad
vars == <<pc, cfg, row, ap, tie, ring, rtie, quad>>

Nused(c) == c.ncp - 2 * c.mar
U(c, k) == 2 * k - (c.ncp - 1)
R2(c, i, j) == U(c, i) * U(c, i) + U(c, j) * U(c, j)          \* times 1/nused^2

\* ---- Impl: the code's comparisons  (cr2 >= ri**2) & (cr2 <= 1.)  on exact numbers
InApImpl(c, i, j) == /\ c.q * c.q * R2(c, i, j) >= c.p * c.p * Nused(c) * Nused(c)
                     /\ R2(c, i, j) <= Nused(c) * Nused(c)
OnEdge(c, i, j) == \/ c.q * c.q * R2(c, i, j) = c.p * c.p * Nused(c) * Nused(c)
                   \/ R2(c, i, j) = Nused(c) * Nused(c)
\* cr = (cr2 - ri^2) / (1 - ri^2) * nr, clipped to [1e-3, nr - 1.001]: integer part and "is an integer" flag
RingNum(c, i, j) == c.nr * (c.q * c.q * R2(c, i, j) - c.p * c.p * Nused(c) * Nused(c))
RingDen(c) == Nused(c) * Nused(c) * (c.q * c.q - c.p * c.p)
FloorDiv(a, b) == IF a >= 0 THEN a \div b ELSE -((-a + b - 1) \div b)
Clip(x, lo, hi) == IF x < lo THEN lo ELSE IF x > hi THEN hi ELSE x
RingImpl(c, i, j) == Clip(FloorDiv(RingNum(c, i, j), RingDen(c)), 0, c.nr - 2)
RingTie(c, i, j) == RingNum(c, i, j) % RingDen(c) = 0
\* cp = npp/(2 pi) ((atan2(ay, ax) + 2 pi) mod 2 pi),  ax[i][j] = g(j),  ay = ax^T : quadrant 0..3, -1 on an axis
QuadImpl(c, i, j) == LET x == U(c, j)  y == U(c, i)
                     IN  IF x = 0 \/ y = 0 THEN -1
                         ELSE IF x > 0 /\ y > 0 THEN 0 ELSE IF x < 0 /\ y > 0 THEN 1 ELSE IF x < 0 /\ y < 0 THEN 2 ELSE 3

DefaultRi == { <<1, 4>>, <<1, 3>>, <<1, 2>>, <<3, 4>>, <<3, 5>> }
Configs == { c \in [ncp : NcpSet, mar : MarSet, p : {r[1] : r \in RiSet}, q : {r[2] : r \in RiSet}, nr : NrSet] :
               /\ <<c.p, c.q>> \in RiSet /\ Nused(c) >= 2 }

Init == /\ pc = "rows" /\ cfg \in Configs /\ row = 0
        /\ ap = <<>> /\ tie = <<>> /\ ring = <<>> /\ rtie = <<>> /\ quad = <<>>

\* one frame row (first index i = row) per step
RowStep ==
    /\ pc = "rows"
    /\ LET n == cfg.ncp IN
       /\ ap'   = Append(ap,   [j \in 1..n |-> IF InApImpl(cfg, row, j - 1) THEN 1 ELSE 0])
       /\ tie'  = Append(tie,  [j \in 1..n |-> IF OnEdge(cfg, row, j - 1) THEN 1 ELSE 0])
       /\ ring' = Append(ring, [j \in 1..n |-> RingImpl(cfg, row, j - 1)])
       /\ rtie' = Append(rtie, [j \in 1..n |-> IF RingTie(cfg, row, j - 1) THEN 1 ELSE 0])
       /\ quad' = Append(quad, [j \in 1..n |-> QuadImpl(cfg, row, j - 1)])
       /\ row' = row + 1
       /\ pc' = IF row + 1 = n THEN "done" ELSE pc
    /\ UNCHANGED cfg

Next == RowStep
Spec == Init /\ [][Next]_vars

-----------------------------------------------------------------------------
(* ---------- Def and properties ---------- *)
Done == pc = "done"
N == cfg.ncp
\* distance^2 of pixel (i, j) from the frame centre, in quarter pixels^2 : ((2i+1-n)^2 + (2j+1-n)^2) -- the same lattice as Pupil.tla
D4(i, j) == (2 * i + 1 - N) * (2 * i + 1 - N) + (2 * j + 1 - N) * (2 * j + 1 - N)
\* Def: closed annulus, outer diameter nused pixels: 4 d^2 <= nused^2 and 4 d^2 q^2 >= p^2 nused^2
InApDef(i, j) == D4(i, j) <= Nused(cfg) * Nused(cfg) /\ cfg.q * cfg.q * D4(i, j) >= cfg.p * cfg.p * Nused(cfg) * Nused(cfg)

ApIsAnnulus == Done => \A i \in 0..N-1, j \in 0..N-1 : (ap[i + 1][j + 1] = 1) <=> InApDef(i, j)
\* the eight symmetries of the square
ApSymmetric == Done => \A i \in 0..N-1, j \in 0..N-1 :
    /\ ap[i + 1][j + 1] = ap[j + 1][i + 1] /\ ap[i + 1][j + 1] = ap[N - i][j + 1] /\ ap[i + 1][j + 1] = ap[i + 1][N - j]
\* a margin of ncmar pixels all round stays outside the aperture
MarginOutside == Done => \A i \in 0..N-1, j \in 0..N-1 :
    (i < cfg.mar \/ i >= N - cfg.mar \/ j < cfg.mar \/ j >= N - cfg.mar) => ap[i + 1][j + 1] = 0
\* rings: inside the aperture the ring number is within 0..nr-1 before the clip, never decreases with the distance, and the
\* clip only ever lowers the outermost ring (nr-1 -> nr-2: linear interpolation needs a neighbour)
RingBeforeClip(i, j) == FloorDiv(RingNum(cfg, i, j), RingDen(cfg))
RingsInRange == Done => \A i \in 0..N-1, j \in 0..N-1 :
    (ap[i + 1][j + 1] = 1 /\ tie[i + 1][j + 1] = 0) => RingBeforeClip(i, j) \in 0..(cfg.nr - 1)
RingsMonotone == Done => \A i \in 0..N-1, j \in 0..N-1, k \in 0..N-1, l \in 0..N-1 :
    D4(i, j) <= D4(k, l) => ring[i + 1][j + 1] <= ring[k + 1][l + 1]
ClipOnlyOutermost == Done => \A i \in 0..N-1, j \in 0..N-1 :
    (ap[i + 1][j + 1] = 1 /\ tie[i + 1][j + 1] = 0 /\ ring[i + 1][j + 1] # RingBeforeClip(i, j)) => RingBeforeClip(i, j) = cfg.nr - 1
\* rings have equal areas: between two ring boundaries lies the same share of the annulus - on the lattice: ring k holds the pixels
\* with  k <= nr (rho^2 - ri^2)/(1 - ri^2) < k + 1
RingIsEqualArea == Done => \A i \in 0..N-1, j \in 0..N-1 :
    (ap[i + 1][j + 1] = 1 /\ tie[i + 1][j + 1] = 0) =>
        LET k == RingBeforeClip(i, j) IN
        /\ k * RingDen(cfg) <= RingNum(cfg, i, j) /\ RingNum(cfg, i, j) < (k + 1) * RingDen(cfg)
\* quadrants turn with the frame: a quarter turn of the frame (i, j) -> (j, N-1-i) advances the quadrant by one
QuadrantsTurn == Done => \A i \in 0..N-1, j \in 0..N-1 :
    quad[i + 1][j + 1] >= 0 => quad[j + 1][N - i] = (quad[i + 1][j + 1] + 1) % 4

EmitCase == (Emit /\ Done) =>
    PrintT(ToJson([kind |-> "klgeom", ncp |-> cfg.ncp, mar |-> cfg.mar, p |-> cfg.p, q |-> cfg.q, nr |-> cfg.nr,
                   ap |-> ap, tie |-> tie, ring |-> ring, rtie |-> rtie, quad |-> quad, ringden |-> RingDen(cfg)]))
=============================================================================
