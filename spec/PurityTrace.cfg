SPECIFICATION TraceSpec
INVARIANT Functional
INVARIANT Progress
CHECK_DEADLOCK FALSE
