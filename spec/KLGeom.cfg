SPECIFICATION Spec
CONSTANTS
  NcpSet = {2, 3, 4, 5, 6, 7, 8, 9, 10, 11, 12, 13, 16}
  MarSet = {0, 1, 2}
  RiSet <- DefaultRi
  NrSet = {2, 3, 5, 8}
  Emit = TRUE
INVARIANT ApIsAnnulus
INVARIANT ApSymmetric
INVARIANT MarginOutside
INVARIANT RingsInRange
INVARIANT RingsMonotone
INVARIANT ClipOnlyOutermost
INVARIANT RingIsEqualArea
INVARIANT QuadrantsTurn
INVARIANT EmitCase
CHECK_DEADLOCK FALSE
