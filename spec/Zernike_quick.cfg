SPECIFICATION Spec
CONSTANTS
  MaxJ = 5000
  MaxRad = 6
  Emit = TRUE
INVARIANT NollAgrees
INVARIANT NollInSet
INVARIANT NollOrdered
INVARIANT RadialNormalised
INVARIANT RadialOrthogonal
INVARIANT GammaXIsGradient
INVARIANT GammaYIsGradient
INVARIANT EmitCase
CHECK_DEADLOCK FALSE
