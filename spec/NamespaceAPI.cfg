SPECIFICATION Spec
INVARIANT SingleBinding
INVARIANT EnvMatchesObserved
INVARIANT APIUnshadowed
CHECK_DEADLOCK FALSE
