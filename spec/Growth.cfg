SPECIFICATION Spec
CONSTANTS
  MaxVal = 3
  Emit = TRUE
INVARIANT ContrastRange
INVARIANT ContrastConstant
INVARIANT ContrastScale
INVARIANT GaussPeak
INVARIANT GaussSymmetric
INVARIANT ListEqualsSlices
INVARIANT AllowedIsSmallest
INVARIANT EmitCase
CHECK_DEADLOCK FALSE
