-------------------------------- MODULE Purity --------------------------------
(***************************************************************************)
(* What "the library is pure" means (property C20), as a state machine     *)
(* over an object store.                                                   *)
(*                                                                         *)
(* store : array object -> content token (bytes + shape + dtype + layout)  *)
(* memo  : (function, argument tokens) -> result token, for every call     *)
(*         seen so far in the history                                      *)
(* A call reads its arguments and returns a result.  A pure library allows *)
(* exactly the Call steps below: the store is unchanged by a call, and a   *)
(* call whose (function, argument contents) was seen before returns the    *)
(* same result, whatever happened in between - unless the function is one  *)
(* of the declared users of hidden inputs (numpy's global stream, fresh    *)
(* entropy), which are exempt from the memo and from nothing else.         *)
(* The user may change an array between calls (Mutate), and may write into *)
(* any object a call has returned (Scribble): returned objects are the     *)
(* caller's, the library keeps no reference whose content matters.         *)
(***************************************************************************)
EXTENDS Integers, Sequences, FiniteSets, TLC, Json

CONSTANTS Funcs,          \* function ids
          Exempt,         \* subset of Funcs with declared hidden inputs
          Arrays,         \* array objects (pool instances)
          Depth,
          BugInPlace,     \* TRUE: function F1 writes into its first argument (self-test of the invariants)
          BugSharedResult, \* TRUE: a returned object is the library's own (cached) one: what the caller writes into it is what later calls return
          Emit

VARIABLES store, memo, hist, fresh
vars == <<store, memo, hist, fresh>>

Init == /\ store \in [Arrays -> 1..Cardinality(Arrays)] /\ (\A a, b \in Arrays : a # b => store[a] # store[b])
        /\ memo = {} /\ hist = <<>> /\ fresh = Cardinality(Arrays) + 1

KeyOf(f, as) == <<f, [i \in 1..Len(as) |-> store[as[i]]]>>

\* The result of a call: what the memo says if this (function, argument contents) was seen before, otherwise a value
\* never seen (a function may of course return an old value again; for the generation of programs that adds nothing).
Result(f, as) == IF f \notin Exempt /\ \E m \in memo : m[1] = KeyOf(f, as)
                    THEN (CHOOSE m \in memo : m[1] = KeyOf(f, as))[2]
                    ELSE fresh
Call(f, as) ==
    /\ LET r == Result(f, as) IN
          /\ memo' = IF f \in Exempt THEN memo ELSE memo \cup { <<KeyOf(f, as), r>> }
          /\ hist' = Append(hist, [op |-> "call", f |-> f, args |-> as, res |-> r])
          /\ fresh' = IF r = fresh THEN fresh + 1 ELSE fresh
    /\ IF BugInPlace /\ f = CHOOSE g \in Funcs : g \notin Exempt
          THEN store' = [store EXCEPT ![as[1]] = fresh + 100]
          ELSE store' = store

Mutate(a) ==
    /\ store' = [store EXCEPT ![a] = fresh] /\ memo' = memo /\ fresh' = fresh + 1
    /\ hist' = Append(hist, [op |-> "mutate", f |-> a, args |-> <<a>>, res |-> fresh])

\* the caller overwrites the object an earlier call returned (it is the caller's): nothing the library knows may change
Scribble(i) ==
    /\ hist[i].op = "call"
    /\ hist' = Append(hist, [op |-> "scribble", f |-> i, args |-> <<>>, res |-> 0])
    /\ store' = store
    /\ IF BugSharedResult
          THEN /\ memo' = { IF m[2] = hist[i].res THEN <<m[1], fresh>> ELSE m : m \in memo } /\ fresh' = fresh + 1
          ELSE /\ memo' = memo /\ fresh' = fresh

Next == /\ Len(hist) < Depth
        /\ \/ \E f \in Funcs, a \in Arrays : Call(f, <<a>>)
           \/ \E f \in Funcs, a, b \in Arrays : Call(f, <<a, b>>)
           \/ \E a \in Arrays : Mutate(a)
           \/ \E i \in 1..Len(hist) : Scribble(i)
Spec == Init /\ [][Next]_vars

-----------------------------------------------------------------------------
ArgsUnchanged == [][ hist'[Len(hist')].op = "call" => store' = store ]_vars
\* over the whole history: equal function and equal argument contents => equal result (exempt functions aside)
Functional == \A m1, m2 \in memo : m1[1] = m2[1] => m1[2] = m2[2]
NoHiddenState == [][ \A m \in memo : m \in memo' ]_vars            \* what was observed once stays true for ever

Skeleton == [i \in 1..Len(hist) |-> [op |-> hist[i].op, f |-> hist[i].f, args |-> hist[i].args]]
EmitProgram == (Emit /\ Len(hist) = Depth) => PrintT(ToJson([kind |-> "program", prog |-> Skeleton]))
=============================================================================
