------------------------------- MODULE GrowthKL -------------------------------
(***************************************************************************)
(* Structural pieces of the Karhunen-Loeve pipeline                        *)
(* (aotools/functions/karhunenLoeve.py).  Property C13 (the KL modes       *)
(* themselves) is an eigen-decomposition and stays outside this technique; *)
(* the bookkeeping around it is state and transitions and is specified     *)
(* here with the usual Def / Impl / replay discipline (`./check growth`).  *)
(*                                                                         *)
(*  helmert   piston_orth(nr): the column loop, as integer coefficients    *)
(*            c[i][j] over a per-column normalisation 1/sqrt(den[j])       *)
(*  azi       gkl_azimuthal(nord, npp): which row holds which harmonic     *)
(*            (kind, k) and the exponent k*m mod npp of every sample       *)
(*  rebin     rebin(a, newshape): index map floor(i * old / new) per axis  *)
(*  radii     gkl_radii / radii: r^2 of every ring as an exact rational    *)
(***************************************************************************)
EXTENDS Integers, Sequences, FiniteSets, FiniteSetsExt, TLC, Json

CONSTANTS MaxNr, MaxOrd, MaxNpp, MaxDim, Emit

VARIABLES mode, pc, cfg, j, out
vars == <<mode, pc, cfg, j, out>>

SumOver(S, f(_)) == MapThenSumSet(f, S)

\* ---- helmert -----------------------------------------------------------------------------------------------------------
\* Def (Cannon 1996 eq. 19): column j < nr-1 is the contrast "mean of the first j+1 elements against element j+2",
\* the last column is the piston; all columns orthonormal.  s[i][j] = coef[i][j] / sqrt(den[j]).
HelmertCoef(nr) == [i \in 0..nr-1 |-> [jj \in 0..nr-1 |->
                      IF jj = nr - 1 THEN 1 ELSE IF i <= jj THEN 1 ELSE IF i = jj + 1 THEN -(jj + 1) ELSE 0]]
HelmertDen(nr) == [jj \in 0..nr-1 |-> IF jj = nr - 1 THEN nr ELSE (jj + 1) * (jj + 2)]

\* ---- azimuthal table ---------------------------------------------------------------------------------------------------
\* Def: row 0 is the constant, then harmonics in pairs: row 2k-1 = cos(k theta), row 2k = sin(k theta)
AziRowDef(i) == IF i = 0 THEN <<"one", 0>> ELSE IF i % 2 = 1 THEN <<"cos", (i + 1) \div 2>> ELSE <<"sin", i \div 2>>
\* value of a row at sample m of npp: cos / sin of 2 pi * e / npp with e = (k * m) mod npp
AziExp(row, m, npp) == (row[2] * m) % npp

\* ---- rebin ---------------------------------------------------------------------------------------------------------------
\* Def (IDL-like, "the biggest smaller integer index"): out[i] = a[floor(i * old / new)] on every axis
RebinIndex(i, old, new) == (i * old) \div new

\* ---- radii ---------------------------------------------------------------------------------------------------------------
\* ri = p/q.  gkl_radii: r2_k = ri^2 + d*k + d/16, d = (1 - ri^2)/nr      radii: r2_k = ri^2 + k/nr * (1 - ri^2)
\* as <<num, den>> over the common denominator 16 * nr * q^2
GklR2(k, nr, p, q) == << 16 * nr * p * p + (q * q - p * p) * (16 * k + 1), 16 * nr * q * q >>
RadR2(k, nr, p, q) == << 16 * nr * p * p + (q * q - p * p) * 16 * k, 16 * nr * q * q >>

-----------------------------------------------------------------------------
Init == /\ j = 0 /\ pc = "loop"
        /\ \/ \E nr \in 1..MaxNr : mode = "helmert" /\ cfg = [nr |-> nr] /\ out = [i \in 0..nr-1 |-> [jj \in 0..nr-1 |-> 0]]
           \/ \E nord \in 1..MaxOrd, npp \in 1..MaxNpp : mode = "azi" /\ cfg = [nord |-> nord, npp |-> npp]
                                                          /\ out = [i \in 0..nord |-> <<"zero", 0>>]
           \/ \E o0 \in 1..MaxDim, o1 \in 1..MaxDim, n0 \in 1..MaxDim, n1 \in 1..MaxDim :
                 mode = "rebin" /\ cfg = [old |-> <<o0, o1>>, new |-> <<n0, n1>>] /\ out = <<>>
           \/ \E nr \in 1..MaxNr, pq \in {<<0, 1>>, <<1, 4>>, <<1, 2>>, <<3, 4>>} : mode = "radii" /\ cfg = [nr |-> nr, p |-> pq[1], q |-> pq[2]] /\ out = <<>>

\* piston_orth: for j in range(nr - 1): rnm = 1/sqrt((j+1)(j+2)); s[0:j+1, j] = rnm; s[j+1, j] = -(j+1) rnm;  then the last column
HelmertStep ==
    /\ mode = "helmert" /\ pc = "loop"
    /\ IF j < cfg.nr - 1
         THEN /\ out' = [i \in 0..cfg.nr-1 |-> [jj \in 0..cfg.nr-1 |->
                            IF jj # j THEN out[i][jj] ELSE IF i <= j THEN 1 ELSE IF i = j + 1 THEN -(j + 1) ELSE out[i][jj]]]
              /\ j' = j + 1 /\ pc' = pc
         ELSE /\ out' = [i \in 0..cfg.nr-1 |-> [jj \in 0..cfg.nr-1 |-> IF jj = cfg.nr - 1 THEN 1 ELSE out[i][jj]]]
              /\ j' = j /\ pc' = "done"
    /\ UNCHANGED <<mode, cfg>>

\* gkl_azimuthal: row 0 = 1; for i in range(1, nord, 2): cos((i//2+1) theta); for i in range(2, nord, 2): sin((i//2) theta)
\* (both loops stop BEFORE nord, so row `nord` of the (1+nord)-row table is never written: named deviation LastRowEmpty)
AziStep ==
    /\ mode = "azi" /\ pc = "loop"
    /\ out' = [i \in 0..cfg.nord |->
                 IF i = 0 THEN <<"one", 0>>
                 ELSE IF i < cfg.nord /\ i % 2 = 1 THEN <<"cos", i \div 2 + 1>>
                 ELSE IF i < cfg.nord /\ i % 2 = 0 THEN <<"sin", i \div 2>>
                 ELSE <<"zero", 0>>]
    /\ pc' = "done" /\ UNCHANGED <<mode, cfg, j>>

RebinStep ==
    /\ mode = "rebin" /\ pc = "loop"
    /\ out' = [a \in 1..cfg.new[1] |-> [b \in 1..cfg.new[2] |->
                  << RebinIndex(a - 1, cfg.old[1], cfg.new[1]), RebinIndex(b - 1, cfg.old[2], cfg.new[2]) >>]]
    /\ pc' = "done" /\ UNCHANGED <<mode, cfg, j>>

RadiiStep ==
    /\ mode = "radii" /\ pc = "loop"
    /\ out' = [gkl |-> [k \in 1..cfg.nr |-> GklR2(k - 1, cfg.nr, cfg.p, cfg.q)], rad |-> [k \in 1..cfg.nr |-> RadR2(k - 1, cfg.nr, cfg.p, cfg.q)]]
    /\ pc' = "done" /\ UNCHANGED <<mode, cfg, j>>

Next == HelmertStep \/ AziStep \/ RebinStep \/ RadiiStep
Spec == Init /\ [][Next]_vars

-----------------------------------------------------------------------------
Done(m) == mode = m /\ pc = "done"
Rows(nr) == 0..nr-1

\* the loop builds exactly the Helmert coefficients ...
HelmertIsDef == Done("helmert") => out = HelmertCoef(cfg.nr)
\* ... whose columns are orthogonal, have squared norm den[j] (so s = coef/sqrt(den) is unitary) ...
HelmertOrthonormal == Done("helmert") =>
    \A a, b \in Rows(cfg.nr) :
        LET dot == SumOver(Rows(cfg.nr), LAMBDA i : out[i][a] * out[i][b])
        IN  IF a = b THEN dot = HelmertDen(cfg.nr)[a] ELSE dot = 0
\* ... the last column is the piston and every other column is piston-free (that is what the matrix is for)
HelmertFiltersPiston == Done("helmert") =>
    /\ \A i \in Rows(cfg.nr) : out[i][cfg.nr - 1] = 1
    /\ \A a \in 0..cfg.nr-2 : SumOver(Rows(cfg.nr), LAMBDA i : out[i][a]) = 0

\* rows below nord are the Def's harmonics; the last row is empty (what the code does, not what the pairing suggests)
AziRowsAreDef == Done("azi") => \A i \in 0..cfg.nord - 1 : out[i] = AziRowDef(i)
LastRowEmpty == Done("azi") => out[cfg.nord] = <<"zero", 0>>
\* every harmonic present has its partner (cos k and sin k) except possibly the highest one
AziPairs == Done("azi") => \A i \in 1..cfg.nord - 1 : (out[i][1] = "sin") => out[i - 1] = <<"cos", out[i][2]>>

\* rebin: indices in range, non-decreasing along each axis, identity for equal shapes, replication for integer up-sampling,
\* stride for integer down-sampling
RebinInRange == Done("rebin") => \A a \in 1..cfg.new[1], b \in 1..cfg.new[2] :
    out[a][b][1] \in 0..cfg.old[1]-1 /\ out[a][b][2] \in 0..cfg.old[2]-1
RebinMonotone == Done("rebin") => \A a \in 1..cfg.new[1] - 1, b \in 1..cfg.new[2] : out[a][b][1] <= out[a + 1][b][1]
RebinIdentity == (Done("rebin") /\ cfg.old = cfg.new) => \A a \in 1..cfg.new[1], b \in 1..cfg.new[2] : out[a][b] = <<a - 1, b - 1>>
RebinReplicates == (Done("rebin") /\ cfg.new[2] % cfg.old[2] = 0) =>
    \A a \in 1..cfg.new[1], b \in 1..cfg.new[2] : out[a][b][2] = (b - 1) \div (cfg.new[2] \div cfg.old[2])
RebinStrides == (Done("rebin") /\ cfg.old[1] % cfg.new[1] = 0) =>
    \A a \in 1..cfg.new[1], b \in 1..cfg.new[2] : out[a][b][1] = (a - 1) * (cfg.old[1] \div cfg.new[1])

\* radii: strictly increasing, inside [ri^2, 1), equal steps in r^2 (rings of equal area); the two grids differ by d/16
Less(x, y) == x[1] * y[2] < y[1] * x[2]
RadiiIncreasing == Done("radii") => \A k \in 1..cfg.nr - 1 : Less(out.gkl[k], out.gkl[k + 1]) /\ Less(out.rad[k], out.rad[k + 1])
RadiiInside == Done("radii") => \A k \in 1..cfg.nr :
    /\ out.rad[k][1] * cfg.q * cfg.q >= cfg.p * cfg.p * out.rad[k][2] /\ out.rad[k][1] < out.rad[k][2]
    /\ out.gkl[k][1] * cfg.q * cfg.q > cfg.p * cfg.p * out.gkl[k][2] /\ out.gkl[k][1] < out.gkl[k][2]
RadiiEqualArea == Done("radii") => \A k \in 1..cfg.nr - 1 :
    out.gkl[k + 1][1] - out.gkl[k][1] = 16 * (cfg.q * cfg.q - cfg.p * cfg.p) /\ out.rad[k + 1][1] - out.rad[k][1] = 16 * (cfg.q * cfg.q - cfg.p * cfg.p)

EmitCase == (Emit /\ pc = "done") =>
    CASE mode = "helmert" -> PrintT(ToJson([kind |-> "helmert", nr |-> cfg.nr, coef |-> [i \in 1..cfg.nr |-> [jj \in 1..cfg.nr |-> out[i-1][jj-1]]],
                                            den |-> [jj \in 1..cfg.nr |-> HelmertDen(cfg.nr)[jj-1]]]))
      [] mode = "azi" -> PrintT(ToJson([kind |-> "azi", nord |-> cfg.nord, npp |-> cfg.npp, rows |-> [i \in 1..cfg.nord+1 |-> out[i-1]],
                                        exps |-> [i \in 1..cfg.nord+1 |-> [m \in 1..cfg.npp |-> AziExp(out[i-1], m - 1, cfg.npp)]]]))
      [] mode = "rebin" -> PrintT(ToJson([kind |-> "rebin", old |-> cfg.old, new |-> cfg.new, idx |-> out]))
      [] mode = "radii" -> PrintT(ToJson([kind |-> "radii", nr |-> cfg.nr, p |-> cfg.p, q |-> cfg.q, gkl |-> out.gkl, rad |-> out.rad]))
=============================================================================
