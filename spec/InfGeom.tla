------------------------------- MODULE InfGeom -------------------------------
(***************************************************************************)
(* Geometry and dataflow of the infinite phase screen (property C04):      *)
(* coordinates of the new row X, of the stencil Z (von Karman: the first   *)
(* n_columns rows; Fried: the sparse 2^k pattern plus the tail points),    *)
(* the integer matrix Q of squared pixel separations between all of them,  *)
(* the four covariance blocks as index ranges, and the affine form of the  *)
(* row synthesis.  infinitephasescreen.py:70-139, :188-195, :298-305,      *)
(* :387-421.  Coordinates are <<row, col>> with the newest row at index 0  *)
(* and the row about to be generated at index -1.                          *)
(***************************************************************************)
EXTENDS Integers, Sequences, FiniteSets, FiniteSetsExt, TLC, Json

CONSTANTS Sizes,      \* requested sizes
          NCols,      \* n_columns values (von Karman)
          Factors,    \* stencil_length_factor values (Fried)
          Emit

VARIABLES pc, cfg, X, Z, Q
vars == <<pc, cfg, X, Z, Q>>

RECURSIVE Pow2(_)
Pow2(n) == IF n = 0 THEN 1 ELSE 2 * Pow2(n - 1)
RECURSIVE Allowed(_, _)
Allowed(req, p) == IF p + 1 >= req THEN p + 1 ELSE Allowed(req, 2 * p)
AllowedSize(req) == Allowed(req, 1)

\* round half to even of a/b, a >= 0, b > 0
RoundHE(a, b) == LET q == a \div b  r == a % b
                 IN  IF 2*r < b THEN q ELSE IF 2*r > b THEN q + 1 ELSE IF q % 2 = 0 THEN q ELSE q + 1

\* the while-loop of set_stencil_coords: the largest max_n with 2^(max_n) + 1 <= ... as the code computes it
RECURSIVE MaxNFrom(_, _)
MaxNFrom(nx, m) == IF Pow2(m - 1) + 1 >= nx THEN m - 1 ELSE MaxNFrom(nx, m + 1)
MaxN(nx) == MaxNFrom(nx, 1)

\* row of the stencil used for level n:  col = int(2^(n-1) + 1), row index col - 1
LevelRow(n) == IF n = 0 THEN 0 ELSE Pow2(n - 1)
LevelCols(nx, n) == LET np == Pow2(MaxN(nx) - n) + 1
                    IN  { RoundHE(k * (nx - 1), np - 1) : k \in 0..(np - 1) }
FriedCells(nx, f) == UNION { { <<LevelRow(n), c>> : c \in LevelCols(nx, n) } : n \in 0..MaxN(nx) }
                     \cup { <<n * nx - 1, nx \div 2>> : n \in 1..f }
VKCells(nx, ncol) == (0 .. ncol-1) \X (0 .. nx-1)

\* numpy.where order = row-major
RECURSIVE MinCell(_)
Less(a, b) == a[1] < b[1] \/ (a[1] = b[1] /\ a[2] < b[2])
MinCell(S) == CHOOSE a \in S : \A b \in S : a = b \/ Less(a, b)
RECURSIVE Ordered(_)
Ordered(S) == IF S = {} THEN <<>> ELSE LET m == MinCell(S) IN <<m>> \o Ordered(S \ {m})

Sq(p, q) == (p[1] - q[1]) * (p[1] - q[1]) + (p[2] - q[2]) * (p[2] - q[2])

Init ==
    /\ pc = "coords" /\ X = <<>> /\ Z = <<>> /\ Q = <<>>
    /\ \/ \E n \in Sizes, nc \in NCols : nc <= n /\ cfg = [variant |-> "vk", req |-> n, nx |-> n, slen |-> n, ncol |-> nc, f |-> 1]
       \/ \E n \in Sizes, f \in Factors : cfg = [variant |-> "fried", req |-> n, nx |-> AllowedSize(n), slen |-> f * AllowedSize(n), ncol |-> 0, f |-> f]

SetXCoords ==        \* X_coords[:, 0] = -1 ; X_coords[:, 1] = arange(nx)
    /\ pc = "coords"
    /\ X' = [c \in 1..cfg.nx |-> <<-1, c - 1>>]
    /\ pc' = "stencil" /\ UNCHANGED <<cfg, Z, Q>>
SetStencil ==
    /\ pc = "stencil"
    /\ Z' = Ordered(IF cfg.variant = "vk" THEN VKCells(cfg.nx, cfg.ncol) ELSE FriedCells(cfg.nx, cfg.f))
    /\ pc' = "sep" /\ UNCHANGED <<cfg, X, Q>>
CalcSeparations ==   \* positions = stencil ++ X ; all pairwise squared separations
    /\ pc = "sep"
    /\ LET P == Z \o X IN Q' = [a \in 1..Len(P) |-> [b \in 1..Len(P) |-> Sq(P[a], P[b])]]
    /\ pc' = "done" /\ UNCHANGED <<cfg, X, Z>>
Next == SetXCoords \/ SetStencil \/ CalcSeparations
Spec == Init /\ [][Next]_vars

-----------------------------------------------------------------------------
Done == pc = "done"
NZ == Len(Z)
\* the new row is adjacent to row 0 (newest-first): separation to stencil cell (r, c') is (r+1)^2 + (c - c')^2
NewRowAdjacent == Done => \A s \in 1..NZ, c \in 1..cfg.nx :
                      Q[NZ + c][s] = (Z[s][1] + 1) * (Z[s][1] + 1) + ((c - 1) - Z[s][2]) * ((c - 1) - Z[s][2])
Symmetric == Done => \A a, b \in 1..(NZ + cfg.nx) : Q[a][b] = Q[b][a] /\ Q[a][a] = 0
NoCoincidentPoints == Done => \A a, b \in 1..(NZ + cfg.nx) : a # b => Q[a][b] > 0
StencilInsideScreen == Done => \A s \in 1..NZ : Z[s][1] \in 0..(cfg.slen - 1) /\ Z[s][2] \in 0..(cfg.nx - 1)
\* blocks: zz = [1..NZ]^2, xx = [NZ+1..NZ+nx]^2, zx and xz the off-diagonal ones: they partition the index set
BlocksPartition == Done => Len(Q) = NZ + cfg.nx
StencilCount == Done =>
    NZ = IF cfg.variant = "vk" THEN cfg.ncol * cfg.nx
         ELSE Pow2(MaxN(cfg.nx) + 1) - 1 + (MaxN(cfg.nx) + 1) + cfg.f
FirstRowHasEndpoints == (Done /\ cfg.variant = "fried") =>
    (\E s \in 1..NZ : Z[s] = <<0, 0>>) /\ (\E s \in 1..NZ : Z[s] = <<0, cfg.nx - 1>>)
AllowedIsPow2Plus1 == cfg.variant = "fried" => (\E n \in 0..8 : cfg.nx = Pow2(n) + 1) /\ cfg.nx >= cfg.req /\ (cfg.nx = 2 \/ (cfg.nx - 1) \div 2 + 1 < cfg.req)

\* row synthesis as a formal affine form: new = A (Zvals - ref) + B b + ref (fried) / A Zvals + B b (vk).
\* Adding kappa to every cell changes (Zvals - ref) by 0 and ref by kappa: coefficient of kappa in every new cell:
KappaCoefficient == IF cfg.variant = "fried" THEN "one" ELSE "rowsum(A)"
ShiftByConstant == cfg.variant = "fried" => KappaCoefficient = "one"

EmitCase == (Emit /\ Done) => PrintT(ToJson([kind |-> "geom", variant |-> cfg.variant, req |-> cfg.req, nx |-> cfg.nx, slen |-> cfg.slen,
                                             ncol |-> cfg.ncol, f |-> cfg.f, X |-> X, Z |-> Z, Q |-> Q]))
=============================================================================
