----------------------------- MODULE ProfileComp -----------------------------
(***************************************************************************)
(* Turbulence profile compression (profile_compression.py) - property C18. *)
(*                                                                         *)
(* optimal_grouping is transcribed function by function; every outcome of  *)
(* numpy.random.choice in a random restart is a nondeterministic choice,   *)
(* so TLC quantifies over ALL states of the global generator.              *)
(* equivalent_layers: slab edges hmin + k*step as exact rationals.         *)
(* Layers are indexed 0..N-1 as in the code.                               *)
(***************************************************************************)
EXTENDS Integers, Sequences, FiniteSets, FiniteSetsExt, SequencesExt, TLC, Json

CONSTANTS MaxN,         \* profiles of 2..MaxN layers
          Strengths,    \* set of integer layer strengths
          MaxR,         \* random restarts 0..MaxR
          MaxIter,      \* the code's maxiter (200)
          ScanMax,      \* equivalent-layers scan: top height 1..ScanMax sevenths
          ScanL,        \* ... and 1..ScanL layers
          BigN,         \* larger layer counts explored with the structured strength profiles only
          ArangeEdges,  \* TRUE = model numpy.arange's float-dependent length as nondeterminism (the repaired code has FALSE)
          Emit

VARIABLES mode, pc, cfg, gam, gbest, iter, restarts, res
vars == <<mode, pc, cfg, gam, gbest, iter, restarts, res>>

Abs(v) == IF v < 0 THEN -v ELSE v
SeqSum(s) == FoldLeft(LAMBDA a, b : a + b, 0, s)
Range0(a, b) == [k \in 1..(b - a + 1) |-> a + k - 1]          \* numpy.arange(a, b+1) as a sequence
ToSeq0(f, N) == [k \in 1..N |-> f[k-1]]

-----------------------------------------------------------------------------
(* ---------- optimal grouping ---------- *)
\* _convert_splits_to_groups (also inlined in _Gjit): groups as sequences of layer indices
Groups(splits, N) ==
    IF Len(splits) = 0 THEN << Range0(0, N-1) >>
    ELSE [g \in 1..(Len(splits) + 1) |->
            IF g = 1 THEN Range0(0, splits[1])
            ELSE IF g = Len(splits) + 1 THEN Range0(splits[g-1] + 1, N-1)
            ELSE Range0(splits[g-1] + 1, splits[g])]

\* cost of one group with reference layer t, and the first minimiser (numpy.argmin takes the first)
CostAt(grp, t, h, p) == SeqSum([k \in 1..Len(grp) |-> p[grp[k]] * Abs(h[grp[k]] - h[t])])
GroupMin(grp, h, p) == Min({ CostAt(grp, grp[k], h, p) : k \in 1..Len(grp) })
GroupArgMin(grp, h, p) == grp[Min({ k \in 1..Len(grp) : CostAt(grp, grp[k], h, p) = GroupMin(grp, h, p) })]
G(splits, N, h, p) == LET gs == Groups(splits, N) IN SeqSum([g \in 1..Len(gs) |-> GroupMin(gs[g], h, p)])

\* _vicinity: insert every free index, then delete every position -- as a SEQUENCE in the code's order (argmin = first)
NpInsert(s, i, v) == SubSeq(s, 1, i) \o <<v>> \o SubSeq(s, i+1, Len(s))        \* numpy.insert(s, i, v), 0-based i
NpDelete(s, j) == SubSeq(s, 1, j) \o SubSeq(s, j+2, Len(s))                    \* numpy.delete(s, j), 0-based j
Borders(s, N) == <<-1>> \o s \o <<N-1>>
PreMerge(s, N) ==
    LET b == Borders(s, N)
        piece(i) == [k \in 1..(IF b[i+2] - b[i+1] - 1 > 0 THEN b[i+2] - b[i+1] - 1 ELSE 0) |-> NpInsert(s, i, b[i+1] + k)]
    IN  FlattenSeq([i \in 1..(Len(b) - 1) |-> piece(i-1)])
Vicinity(s, N) ==
    LET pm == PreMerge(s, N)
    IN  FlattenSeq([i \in 1..Len(pm) |-> [j \in 1..Len(pm[i]) |-> NpDelete(pm[i], j-1)]])

\* one iteration of _optGroupingMinimization
FirstArgMin(vals) == Min({ k \in 1..Len(vals) : vals[k] = Min({ vals[q] : q \in 1..Len(vals) }) })
StepOf(s, N, h, p) ==
    LET V == Vicinity(s, N)
        vals == [k \in 1..Len(V) |-> G(V[k], N, h, p)]
    IN  V[FirstArgMin(vals)]

\* numpy.linspace(0, N, L+1, dtype=int)[1:-1]
EqualSplit(N, L) == [k \in 1..(L-1) |-> (k * N) \div L]
\* _random_grouping: any sorted (L-1)-subset of arange(0, N-2)
RandomSplits(N, L) == { s \in [1..(L-1) -> 0..(N-3)] : \A k \in 1..(L-2) : s[k] < s[k+1] }

N == cfg.N
\* Minimise: start -> iterate
MinStart(s) == /\ gam' = s /\ iter' = 0 /\ pc' = "min"
MinIter ==
    /\ mode = "og" /\ pc = "min"
    /\ LET nxt == StepOf(gam, N, cfg.h, cfg.p)
       IN  /\ gam' = nxt
           /\ iter' = iter + 1
           /\ pc' = IF nxt = gam \/ iter + 1 >= MaxIter THEN "minimised" ELSE "min"
    /\ UNCHANGED <<mode, cfg, gbest, restarts, res>>
\* bookkeeping after a minimisation: first one sets the best, later ones replace it only if strictly better
Keep ==
    /\ mode = "og" /\ pc = "minimised"
    /\ LET Gn == G(gam, N, cfg.h, cfg.p)
       IN  gbest' = IF gbest = <<>> \/ Gn < gbest[2] THEN <<gam, Gn>> ELSE gbest
    /\ pc' = "restart?"
    /\ UNCHANGED <<mode, cfg, gam, iter, restarts, res>>
Restart ==
    /\ mode = "og" /\ pc = "restart?" /\ Len(restarts) < cfg.R
    /\ \E s \in RandomSplits(N, cfg.L) :
          /\ restarts' = Append(restarts, s)
          /\ MinStart(s)
    /\ UNCHANGED <<mode, cfg, gbest, res>>
Return ==
    /\ mode = "og" /\ pc = "restart?" /\ Len(restarts) = cfg.R
    /\ LET gs == Groups(gbest[1], N)
       IN  res' = [heights |-> [g \in 1..Len(gs) |-> cfg.h[GroupArgMin(gs[g], cfg.h, cfg.p)]],
                   cn2 |-> [g \in 1..Len(gs) |-> SeqSum([k \in 1..Len(gs[g]) |-> cfg.p[gs[g][k]]])],
                   cost |-> gbest[2], groups |-> gs]
    /\ pc' = "done"
    /\ UNCHANGED <<mode, cfg, gam, gbest, iter, restarts>>

OGDone == mode = "og" /\ pc = "done"
ExactlyL == OGDone => Len(res.heights) = cfg.L /\ Len(res.cn2) = cfg.L
TotalConserved == OGDone => SeqSum(res.cn2) = SeqSum(ToSeq0(cfg.p, N))
NonNegative == OGDone => \A g \in 1..Len(res.cn2) : res.cn2[g] >= 0
HeightsAreInputHeightsIncreasing == OGDone =>
    /\ \A g \in 1..Len(res.heights) : \E k \in 0..(N-1) : res.heights[g] = cfg.h[k]
    /\ \A g \in 1..(Len(res.heights) - 1) : res.heights[g] < res.heights[g+1]
GroupsPartition == OGDone => FlattenSeq(res.groups) = Range0(0, N-1)
NoWorseThanEqualSplit == OGDone => res.cost <= G(EqualSplit(N, cfg.L), N, cfg.h, cfg.p)
Terminates == (mode = "og" /\ pc = "min") => iter < MaxIter

-----------------------------------------------------------------------------
(* ---------- equivalent layers ---------- *)
\* heights are integers; slab k (1-based) is [hmin + (k-1)*step, hmin + k*step), step = (hmax-hmin)/L; compare scaled by L
\* numpy.digitize(h, edges): number of edges <= h
Digitize(hv, hmin, hmax, L, nedges) == Cardinality({ k \in 0..(nedges-1) : hmin * L + k * (hmax - hmin) <= hv * L })
ELStep ==
    /\ mode = "el" /\ pc = "bin"
    /\ \E nedges \in (IF ArangeEdges THEN {cfg.L, cfg.L + 1} ELSE {cfg.L}) :
         LET hmin == cfg.h[0]  hmax == cfg.h[N-1]
             ix == [k \in 0..(N-1) |-> IF nedges = cfg.L + 1 /\ k = N-1 THEN cfg.L + 1      \* an extra edge just below hmax
                                       ELSE Digitize(cfg.h[k], hmin, hmax, cfg.L, cfg.L)]
         IN  res' = [slab |-> ToSeq0(ix, N),
                     cn2 |-> [s \in 1..cfg.L |-> SeqSum([k \in 1..N |-> IF ix[k-1] = s THEN cfg.p[k-1] ELSE 0])]]
    /\ pc' = "done"
    /\ UNCHANGED <<mode, cfg, gam, gbest, iter, restarts>>
ELDone == mode = "el" /\ pc = "done"
ELExactlyL == ELDone => Len(res.cn2) = cfg.L
ELTotalConserved == ELDone => SeqSum(res.cn2) = SeqSum(ToSeq0(cfg.p, N))
\* every input layer feeds exactly one output layer: hence every additive moment is conserved
ELMomentAdditive == ELDone => \A k \in 1..N : res.slab[k] \in 1..cfg.L
\* a layer exactly on an interior slab edge: the code's float edge decides the slab (named deviation; conservation unaffected)
OnEdge == \E k \in 0..(N-1), e \in 1..(cfg.L-1) : cfg.h[0] * cfg.L + e * (cfg.h[N-1] - cfg.h[0]) = cfg.h[k] * cfg.L

-----------------------------------------------------------------------------
HeightFamilies(n) == { [k \in 0..(n-1) |-> k], [k \in 0..(n-1) |-> k*k + (IF k > 2 THEN 3 ELSE 0)], [k \in 0..(n-1) |-> 2*k + (k % 2)] }
Init ==
    /\ gam = <<>> /\ gbest = <<>> /\ iter = 0 /\ restarts = <<>> /\ res = <<>>
    /\ \/ \E n \in 2..MaxN : \E L \in 1..(n-1), R \in 0..MaxR, h \in HeightFamilies(n) :
             mode = "og" /\ pc = "choose" /\ cfg = [N |-> n, L |-> L, R |-> R, h |-> h]
       \/ \E n \in 2..MaxN : \E L \in 1..(n-1), h \in HeightFamilies(n) :
             mode = "el" /\ pc = "choose" /\ cfg = [N |-> n, L |-> L, h |-> h]
       \/ \E n \in BigN : \E L \in 1..(n-1), R \in 0..1, h \in { [k \in 0..(n-1) |-> k], [k \in 0..(n-1) |-> k*k] } :
             mode = "og" /\ pc = "choose" /\ cfg = [N |-> n, L |-> L, R |-> R, h |-> h, shapes |-> TRUE]
       \/ \E t \in 1..ScanMax, L \in 1..ScanL : mode = "elscan" /\ pc = "done" /\ cfg = [top7 |-> t, L |-> L]

\* structured strength profiles for the larger layer counts: flat, ramp up, ramp down, peak in the middle, two peaks, strong top
Shapes(n) == { [k \in 0..(n-1) |-> 1], [k \in 0..(n-1) |-> k + 1], [k \in 0..(n-1) |-> n - k],
               [k \in 0..(n-1) |-> 1 + (IF 2*k < n THEN k ELSE n - 1 - k) * 3],
               [k \in 0..(n-1) |-> IF k = 1 \/ k = n - 2 THEN 9 ELSE 1], [k \in 0..(n-1) |-> IF k = n - 1 THEN 20 ELSE 2] }
Choose ==
    /\ pc = "choose"
    /\ \E p \in (IF "shapes" \in DOMAIN cfg THEN Shapes(N) ELSE [0..(N-1) -> Strengths]) :
          /\ SeqSum(ToSeq0(p, N)) > 0
          /\ cfg' = cfg @@ [p |-> p]
    /\ IF mode = "og" THEN MinStart(EqualSplit(N, cfg.L)) ELSE pc' = "bin" /\ UNCHANGED <<gam, iter>>
    /\ UNCHANGED <<mode, gbest, restarts, res>>

Next == Choose \/ MinIter \/ Keep \/ Restart \/ Return \/ ELStep
Spec == Init /\ [][Next]_vars

EmitCase == (Emit /\ pc = "done") =>
    CASE mode = "og" -> PrintT(ToJson([kind |-> "og", N |-> N, L |-> cfg.L, R |-> cfg.R, h |-> ToSeq0(cfg.h, N), p |-> ToSeq0(cfg.p, N),
                                       restarts |-> restarts, heights |-> res.heights, cn2 |-> res.cn2, cost |-> res.cost,
                                       eqcost |-> G(EqualSplit(N, cfg.L), N, cfg.h, cfg.p)]))
      [] mode = "el" -> PrintT(ToJson([kind |-> "el", N |-> N, L |-> cfg.L, h |-> ToSeq0(cfg.h, N), p |-> ToSeq0(cfg.p, N),
                                       cn2 |-> res.cn2, slab |-> res.slab, onedge |-> OnEdge]))
      [] mode = "elscan" -> PrintT(ToJson([kind |-> "elscan", top7 |-> cfg.top7, L |-> cfg.L]))
=============================================================================
