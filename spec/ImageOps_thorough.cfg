SPECIFICATION Spec
CONSTANTS
  MaxVal = 2
  CogThetas <- AllThetas
  BpKs = {2, 3, 4, 5, 6, 7, 8, 9}
  CorrSizes = {4, 5, 6, 7}
  RectSizes = {4, 5, 6}
  MaxPad = 3
  Emit = TRUE
INVARIANT CoGIsFirstMoment
INVARIANT SinglePixel
INVARIANT ScaleInvariant
INVARIANT ShiftEquivariant
INVARIANT StackEqualsFrames
INVARIANT CorrelationDisplacement
INVARIANT QuadMirror
INVARIANT EmitCase
CHECK_DEADLOCK FALSE
