SPECIFICATION Spec
CONSTANTS
  Sizes = {2, 4, 6, 8, 12, 16}
  Mags <- MagsAll
  ZMults <- ZAll
  ProgLen = 6
  Emit = TRUE
INVARIANT StagesTyped
INVARIANT PowerLedger
INVARIANT OrientationPreserved
INVARIANT TwoStepOrientation
INVARIANT Additive
INVARIANT CollapseSound
INVARIANT MagnifyBack
INVARIANT EmitCase
CHECK_DEADLOCK FALSE
