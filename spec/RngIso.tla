-------------------------------- MODULE RngIso --------------------------------
(***************************************************************************)
(* Random-stream ownership of the screen generators (property C06).        *)
(*                                                                         *)
(* A generator is a STREAM (named by where its seed came from) and a        *)
(* position; drawing m deviates consumes the token interval                 *)
(* <<stream, pos, pos+m>>.  Every array the library hands back carries its  *)
(* PROVENANCE: the intervals it was computed from.  Two results are         *)
(* bit-identical iff their operation, parameters and provenance are equal.  *)
(*                                                                         *)
(*   ft_phase_screen      phasescreen.py:92-141   local generator from seed *)
(*   ft_sh_phase_screen   phasescreen.py:12-90    a local generator AND a    *)
(*                        second one inside the nested ft_phase_screen call, *)
(*                        both from the same `seed` argument                 *)
(*   infinite screens     infinitephasescreen.py:173-195 per-instance _R     *)
(*   numpy global stream  used only by optimal_grouping (GlobalUser)         *)
(***************************************************************************)
EXTENDS Integers, Sequences, FiniteSets, TLC, Json

CONSTANTS Depth,
          BugGlobalFallback,   \* TRUE: ft_phase_screen draws from the global stream (what the property forbids)
          BugSharedInstance,   \* TRUE: all infinite screens share one module-level generator
          BugShCoupled,        \* TRUE: the sub-harmonics come from a second generator made from the same integer seed (pre-2981c8d)
          BugCloneShares,      \* TRUE: a deep copy of a screen keeps drawing from the original's generator
          BugRowsFromSeed,     \* TRUE: the initial screen comes from a SECOND generator made from the same seed; the rows start at its head again
          ChildInit,           \* draw protocol (Impl, not Def): TRUE = the initial screen is drawn from a child stream spawned from the
                               \* object's generator, the rows from the generator itself.  Every property below must hold under both protocols.
          Focus,               \* "all", or "objects": only instance actions (simulation that concentrates on instance isolation)
          Emit

Params == {"A", "B", "A2"}           \* finite-screen parameter sets; N(A) = 4, N(B) = 5 (odd); A2 = A with r0 changed in the 6th digit
NOf(p) == IF p = "B" THEN 5 ELSE 4        \* B is an ODD grid
IntSeeds == {0, 1, 2}          \* integer seeds (0 is a legitimate seed); in the log: -1 = the Generator object G, -2 = None
Objs == {"o1", "o2", "o3", "o4", "o5"}
\* object configurations: o1 and o2 are twins (same class, parameters and seed); o3 is a Fried screen; o4 has the geometry,
\* outer scale and seed of the twins but another r0; o5 is a larger von Karman screen
ObjCfg(o) == CASE o = "o3" -> [variant |-> "fried", seed |-> 0, nx |-> 5, slen |-> 10, r0 |-> 1]      \* seed 0 is a seed
               [] o = "o4" -> [variant |-> "vk", seed |-> 1, nx |-> 4, slen |-> 4, r0 |-> 2]
               [] o = "o5" -> [variant |-> "vk", seed |-> 3, nx |-> 7, slen |-> 7, r0 |-> 1]                         \* odd size
               [] OTHER -> [variant |-> "vk", seed |-> 1, nx |-> 4, slen |-> 4, r0 |-> 1]

VARIABLES glob,      \* numpy's global stream: [epoch, pos]; epoch changes at every numpy.random.seed
          gen,       \* the user's own Generator object G passed as `seed=`: position
          obj,       \* per instance: [made, pos, rows]
          nfresh,    \* number of unseeded (fresh-entropy) generators created so far
          hist       \* the behaviour, one record per public call, with the provenance of what it returned
vars == <<glob, gen, obj, nfresh, hist>>

SeedStream(s) == <<"seed", s>>
Fresh(n) == <<"fresh", n>>
GStream == <<"G", 7>>
GlobStream == <<"global", glob.epoch>>

Init == /\ glob = [epoch |-> 0, pos |-> 0]
        /\ gen = 0
        /\ obj = [o \in Objs |-> [made |-> FALSE, pos |-> 0, rows |-> 0]]
        /\ nfresh = 0
        /\ hist = <<>>

Log(rec) == hist' = Append(hist, rec)

\* ---- ft_phase_screen(p, seed): R = default_rng(seed); two N x N normal arrays
FtInt(p, s) ==
    /\ IF BugGlobalFallback
          THEN /\ Log([a |-> "ft", p |-> p, seed |-> s, prov |-> << <<GlobStream, glob.pos, glob.pos + 2*NOf(p)*NOf(p)>> >>])
               /\ glob' = [glob EXCEPT !.pos = @ + 2*NOf(p)*NOf(p)]
          ELSE /\ Log([a |-> "ft", p |-> p, seed |-> s, prov |-> << <<SeedStream(s), 0, 2*NOf(p)*NOf(p)>> >>])
               /\ UNCHANGED glob
    /\ UNCHANGED <<gen, obj, nfresh>>
FtNone(p) ==
    /\ Log([a |-> "ft", p |-> p, seed |-> -2, prov |-> << <<Fresh(nfresh + 1), 0, 2*NOf(p)*NOf(p)>> >>])
    /\ nfresh' = nfresh + 1
    /\ UNCHANGED <<glob, gen, obj>>
FtGen(p) ==     \* seed=G : default_rng(G) is G, the user's stream advances
    /\ Log([a |-> "ft", p |-> p, seed |-> -1, prov |-> << <<GStream, gen, gen + 2*NOf(p)*NOf(p)>> >>])
    /\ gen' = gen + 2*NOf(p)*NOf(p)
    /\ UNCHANGED <<glob, obj, nfresh>>

\* ---- ft_sh_phase_screen(p, seed): R = default_rng(seed); phs_hi = ft_phase_screen(.., seed=R); 3 x (9 + 9) draws from R
\* (before fix 2981c8d the nested call was given `seed` itself: a second generator from the same integer, so the sub-harmonics
\*  re-used deviates 0..54 of the stream the high-frequency screen had drawn from)
FtShInt(p, s) ==   \* one generator from the integer seed: the nested call draws first, then the sub-harmonics
    /\ Log([a |-> "ftsh", p |-> p, seed |-> s,
            prov |-> IF BugShCoupled THEN << <<SeedStream(s), 0, 2*NOf(p)*NOf(p)>>, <<SeedStream(s), 0, 54>> >>
                     ELSE << <<SeedStream(s), 0, 2*NOf(p)*NOf(p)>>, <<SeedStream(s), 2*NOf(p)*NOf(p), 2*NOf(p)*NOf(p) + 54>> >>])
    /\ UNCHANGED <<glob, gen, obj, nfresh>>
FtShNone(p) ==     \* one fresh-entropy generator for both parts
    /\ Log([a |-> "ftsh", p |-> p, seed |-> -2,
            prov |-> << <<Fresh(nfresh + 1), 0, 2*NOf(p)*NOf(p)>>, <<Fresh(nfresh + 1), 2*NOf(p)*NOf(p), 2*NOf(p)*NOf(p) + 54>> >>])
    /\ nfresh' = nfresh + 1
    /\ UNCHANGED <<glob, gen, obj>>
FtShGen(p) ==      \* one shared stream: the nested call draws first, then the sub-harmonics
    /\ Log([a |-> "ftsh", p |-> p, seed |-> -1,
            prov |-> << <<GStream, gen, gen + 2*NOf(p)*NOf(p)>>, <<GStream, gen + 2*NOf(p)*NOf(p), gen + 2*NOf(p)*NOf(p) + 54>> >>])
    /\ gen' = gen + 2*NOf(p)*NOf(p) + 54
    /\ UNCHANGED <<glob, obj, nfresh>>

\* ---- infinite screens
InitStream(o) == IF ChildInit THEN <<"child", ObjCfg(o).seed, 1>> ELSE IF BugSharedInstance THEN <<"module", 0>> ELSE SeedStream(ObjCfg(o).seed)
PosAfterInit(o) == IF ChildInit \/ BugRowsFromSeed THEN 0 ELSE 2 * ObjCfg(o).slen * ObjCfg(o).slen
ObjStream(o) == IF BugSharedInstance THEN <<"module", 0>> ELSE SeedStream(ObjCfg(o).seed)
SharedPos == IF BugSharedInstance THEN obj["o1"].pos + obj["o2"].pos + obj["o3"].pos + obj["o4"].pos + obj["o5"].pos ELSE 0
NewScreen(o) ==
    /\ ~obj[o].made
    /\ LET c == ObjCfg(o)  start == IF BugSharedInstance THEN SharedPos ELSE 0
       IN  /\ obj' = [obj EXCEPT ![o] = [made |-> TRUE, pos |-> PosAfterInit(o), rows |-> 0]]
           /\ Log([a |-> "new", o |-> o, again |-> FALSE, prov |-> << <<InitStream(o), start, start + 2*c.slen*c.slen>> >>])
    /\ UNCHANGED <<glob, gen, nfresh>>
AddRow(o) ==
    /\ obj[o].made
    /\ LET c == ObjCfg(o)  start == IF BugSharedInstance THEN SharedPos ELSE obj[o].pos
       IN  /\ obj' = [obj EXCEPT ![o].pos = @ + c.nx, ![o].rows = @ + 1]
           /\ Log([a |-> "add_row", o |-> o, rows |-> obj[o].rows + 1, prov |-> << <<ObjStream(o), start, start + c.nx>> >>])
    /\ UNCHANGED <<glob, gen, nfresh>>

\* make_initial_screen() called again on a used object (rewind): the object is what a fresh one with its seed is
Reinit(o) ==
    /\ obj[o].made /\ ~BugSharedInstance
    /\ LET c == ObjCfg(o)
       IN  /\ obj' = [obj EXCEPT ![o] = [made |-> TRUE, pos |-> PosAfterInit(o), rows |-> 0]]
           /\ Log([a |-> "new", o |-> o, again |-> TRUE, prov |-> << <<InitStream(o), 0, 2*c.slen*c.slen>> >>])
    /\ UNCHANGED <<glob, gen, nfresh>>
\* copy.deepcopy(src) -> dst (twins only, so that dst's later rows are keyed like src's): dst is a screen instance of its own,
\* with its own generator at the position src had reached
Clone(src, dst) ==
    /\ src # dst /\ obj[src].made /\ ~obj[dst].made /\ ObjCfg(src) = ObjCfg(dst)
    /\ obj' = [obj EXCEPT ![dst] = IF BugCloneShares THEN [obj[src] EXCEPT !.made = TRUE] ELSE obj[src]]
    /\ Log([a |-> "clone", o |-> dst, from |-> src, prov |-> <<>>])
    /\ UNCHANGED <<glob, gen, nfresh>>
\* (with BugCloneShares the copy's add_row advances the ORIGINAL's position too)
AddRowShared(o) ==
    /\ BugCloneShares /\ obj[o].made /\ \E src \in Objs : src # o /\ obj[src].made /\ ObjCfg(src) = ObjCfg(o)
    /\ LET c == ObjCfg(o)
           src == CHOOSE x \in Objs : x # o /\ obj[x].made /\ ObjCfg(x) = ObjCfg(o)
       IN  /\ obj' = [obj EXCEPT ![o].rows = @ + 1, ![src].pos = @ + c.nx]
           /\ Log([a |-> "add_row", o |-> o, rows |-> obj[o].rows + 1, prov |-> << <<ObjStream(o), obj[src].pos, obj[src].pos + c.nx>> >>])
    /\ UNCHANGED <<glob, gen, nfresh>>

\* ---- everything else
Unrelated(f) == /\ Log([a |-> "unrelated", f |-> f, prov |-> <<>>]) /\ UNCHANGED <<glob, gen, obj, nfresh>>
GlobalUser ==   \* optimal_grouping: numpy.random.choice on the global stream
    /\ Log([a |-> "global_user", prov |-> << <<GlobStream, glob.pos, glob.pos + 1>> >>])
    /\ glob' = [glob EXCEPT !.pos = @ + 1] /\ UNCHANGED <<gen, obj, nfresh>>
GlobalSeed(x) ==
    /\ Log([a |-> "global_seed", x |-> x, prov |-> <<>>])
    /\ glob' = [epoch |-> glob.epoch + 1, pos |-> 0] /\ UNCHANGED <<gen, obj, nfresh>>
GlobalDraw ==
    /\ Log([a |-> "global_draw", prov |-> << <<GlobStream, glob.pos, glob.pos + 3>> >>])
    /\ glob' = [glob EXCEPT !.pos = @ + 3] /\ UNCHANGED <<gen, obj, nfresh>>

Next ==
    /\ Len(hist) < Depth
    /\ \/ Focus = "all" /\ \E p \in Params, s \in IntSeeds : FtInt(p, s) \/ FtShInt(p, s)
       \/ Focus = "all" /\ \E p \in Params : FtNone(p) \/ FtGen(p) \/ FtShNone(p) \/ FtShGen(p)
       \/ \E o \in Objs : NewScreen(o) \/ (IF BugCloneShares /\ o = "o2" THEN AddRowShared(o) ELSE AddRow(o))
       \/ \E o, o2 \in Objs : Clone(o, o2)
       \/ \E o \in Objs : Reinit(o)
       \/ \E f \in 1..2 : Unrelated(f)
       \/ GlobalUser \/ GlobalDraw \/ \E x \in {5} : GlobalSeed(x)
Spec == Init /\ [][Next]_vars

-----------------------------------------------------------------------------
(* ---------- properties ---------- *)
\* what identifies a seeded request: operation, parameters, seed; for instances the class/seed and the row index
Key(r) == CASE r.a \in {"ft", "ftsh"} -> <<r.a, r.p, r.seed>>
            [] r.a = "new" -> <<"new", ObjCfg(r.o)>>
            [] r.a = "add_row" -> <<"add_row", ObjCfg(r.o), r.rows>>
            [] OTHER -> <<r.a>>
Seeded(r) == \/ (r.a \in {"ft", "ftsh"} /\ r.seed >= 0)
             \/ r.a \in {"new", "add_row"}

\* same seed and parameters => same provenance (bit-identical), whatever was interleaved
Reproducible == \A i, j \in 1..Len(hist) :
    (Seeded(hist[i]) /\ Seeded(hist[j]) /\ Key(hist[i]) = Key(hist[j])) => hist[i].prov = hist[j].prov
\* different seeds (or unseeded calls) => different provenance
SeedsDiffer == \A i, j \in 1..Len(hist) :
    (i # j /\ hist[i].a \in {"ft", "ftsh"} /\ hist[j].a = hist[i].a /\ hist[i].p = hist[j].p /\ hist[i].seed # -1 /\ hist[j].seed # -1
       /\ (hist[i].seed # hist[j].seed \/ hist[i].seed = -2)) => hist[i].prov # hist[j].prov
\* within one call no deviate is used twice: the parts of a screen (high-frequency part, sub-harmonics) are independent
NoDeviateUsedTwice == \A i \in 1..Len(hist) : \A k1, k2 \in 1..Len(hist[i].prov) :
    (k1 < k2 /\ hist[i].prov[k1][1] = hist[i].prov[k2][1]) =>
        (hist[i].prov[k1][3] <= hist[i].prov[k2][2] \/ hist[i].prov[k2][3] <= hist[i].prov[k1][2])
\* over an object's life (since its last (re)initialisation) no deviate is used twice either: the innovation of a row is independent
\* of the phase that is already there.  Clones continue the original's stream and are compared with it by Reproducible, not here.
LastNew(i) == LET S == { k \in 1..i : hist[k].a \in {"new", "clone"} /\ hist[k].o = hist[i].o } IN IF S = {} THEN 0 ELSE CHOOSE k \in S : \A m \in S : m <= k
ObjectNeverReusesADeviate == \A i, j \in 1..Len(hist) :
    (i < j /\ hist[i].a \in {"new", "add_row"} /\ hist[j].a = "add_row" /\ hist[i].o = hist[j].o /\ LastNew(j) <= i /\ ~BugSharedInstance /\ ~BugCloneShares) =>
        \A k1 \in 1..Len(hist[i].prov), k2 \in 1..Len(hist[j].prov) :
            hist[i].prov[k1][1] = hist[j].prov[k2][1] => (hist[i].prov[k1][3] <= hist[j].prov[k2][2] \/ hist[j].prov[k2][3] <= hist[i].prov[k1][2])
\* seeded generation never reads or advances the global stream
GlobalUntouched == \A i \in 1..Len(hist) :
    (hist[i].a \in {"ft", "ftsh", "new", "add_row"}) => \A k \in 1..Len(hist[i].prov) : hist[i].prov[k][1][1] # "global"
Isolated == [][ \A o \in Objs : (\E o2 \in Objs : o2 # o /\ obj'[o2] # obj[o2]) => obj'[o] = obj[o] ]_vars
GlobalOnlyByGlobalActions == [][ glob' # glob => hist'[Len(hist')].a \in {"global_user", "global_seed", "global_draw"} ]_vars

\* exhaustive exploration identifies states by everything except the order of the log
AbstractView == <<glob, gen, obj, nfresh, Len(hist), { hist[i] : i \in 1..Len(hist) }>>

EmitBehaviour == (Emit /\ Len(hist) = Depth) => PrintT(ToJson([kind |-> "behaviour", hist |-> hist]))
=============================================================================
