------------------------------- MODULE SlopeCov -------------------------------
(***************************************************************************)
(* Slope covariance matrix (property C01): slopecovariance.py              *)
(*   projection of sub-aperture centres to each layer        :81-144       *)
(*   block assembly xx / yx / xy / yy per WFS pair and layer  :146-191     *)
(*   finite-difference stencils compute_covariance_xx/yy/xy   :274-395     *)
(*   mirror_covariance_matrix (bitwise OR of float32 views)   :461-470     *)
(*                                                                         *)
(* All lengths are integers in HALF lattice units (hu); a base sub-aperture *)
(* is 8 hu wide, cone factors are 1 (NGS) or 1/2 (LGS at the upper layer).  *)
(* The structure function is UNINTERPRETED: a matrix entry is a bag of      *)
(* atoms <<layer, q, coef>> = coef * D_layer(sqrt(q) hu), to be multiplied  *)
(* by lambda_i lambda_j / (8 pi^2 d_il d_jl).                               *)
(*                                                                         *)
(*   Def  : covariance of two finite-difference slopes, from first          *)
(*          principles (bilinearity of the phase covariance), at the        *)
(*          geometrically projected positions                               *)
(*   Impl : the code's projection, stencils, block placement and mirror     *)
(***************************************************************************)
EXTENDS Integers, Sequences, FiniteSets, FiniteSetsExt, TLC, Json

CONSTANTS Scope,          \* "quick" | "thorough" : which configurations Init enumerates
          Variant,        \* "repaired" : the code after the fix: commits ; "snapshot" : the code as it was first read (four defects)
          Emit

VARIABLES pc, cfg, layer, pair, M
vars == <<pc, cfg, layer, pair, M>>

Base == 8                         \* reference sub-aperture diameter at the ground, in hu
Dia(i) == cfg.dia[i]              \* this sensor's sub-aperture diameter at the ground (8 or 16 hu)
\* ---- geometry ------------------------------------------------------------------------------------------------
Less(a, b) == a[1] < b[1] \/ (a[1] = b[1] /\ a[2] < b[2])
RECURSIVE Ordered(_)
Ordered(S) == IF S = {} THEN <<>> ELSE LET m == CHOOSE a \in S : \A b \in S : a = b \/ Less(a, b) IN <<m>> \o Ordered(S \ {m})
Cells(i) == Ordered(cfg.masks[i])                  \* numpy.where order: row-major
NSub(i) == Cardinality(cfg.masks[i])
\* cone factor times two: 2 (no cone effect) or 1 (layer half-way to the guide star)
S2(i, l) == IF cfg.lgs[i] /\ cfg.heights[l] > 0 THEN 1 ELSE 2
\* translation of WFS i at layer l (hu): guide-star offset times height index
T(i, l) == << cfg.off[i][1] * cfg.heights[l], cfg.off[i][2] * cfg.heights[l] >>
\* centre of sub-aperture <<r, c>> on an n x n grid of Base-wide cells, origin at the telescope centre
Centre(i, cell) == << (2 * cell[1] + 1 - cfg.n[i]) * (Dia(i) \div 2), (2 * cell[2] + 1 - cfg.n[i]) * (Dia(i) \div 2) >>
\* projected centre and half-diameter at layer l  (S2/2 is the cone factor; Base * S2 / 4 the half diameter)
\* snapshot: the code subtracted subap_diameter/2 instead of adding it (every centre one sub-aperture too low)
CodeCentre(i, cell) == LET c == Centre(i, cell) IN IF Variant = "snapshot" THEN << c[1] - Dia(i), c[2] - Dia(i) >> ELSE c
ImplPos(i, a, l) == LET c == CodeCentre(i, Cells(i)[a]) IN << (S2(i, l) * c[1]) \div 2 + T(i, l)[1], (S2(i, l) * c[2]) \div 2 + T(i, l)[2] >>
Pos(i, a, l) == LET c == Centre(i, Cells(i)[a]) IN << (S2(i, l) * c[1]) \div 2 + T(i, l)[1], (S2(i, l) * c[2]) \div 2 + T(i, l)[2] >>
HalfD(i, l) == (Dia(i) * S2(i, l)) \div 4

Q(x, y) == x * x + y * y
\* a bag of atoms as a sequence; Norm merges equal (layer, q) and drops zero coefficients
Norm(seq) == LET keys == { <<seq[k][1], seq[k][2]>> : k \in 1..Len(seq) }
                 coef(key) == MapThenSumSet(LAMBDA k : seq[k][3], { k \in 1..Len(seq) : <<seq[k][1], seq[k][2]>> = key })
             IN  { <<key[1], key[2], coef(key)>> : key \in { kk \in keys : coef(kk) # 0 } }

\* ---- Def: Cov of slope (i, axis al, subap a) and slope (j, axis be, subap b), one layer -----------------------------
\* slope = phi(p + h e) - phi(p - h e); E[(phi(u1)-phi(u2))(phi(v1)-phi(v2))] = 1/2 [D(u1-v2) + D(u2-v1) - D(u1-v1) - D(u2-v2)]
E(al) == IF al = "x" THEN <<1, 0>> ELSE <<0, 1>>
DefAtoms(i, al, a, j, be, b, l) ==
    LET p == Pos(i, a, l)  pp == Pos(j, b, l)
        h == HalfD(i, l)   hh == HalfD(j, l)
        u(s) == << p[1] + s * h * E(al)[1], p[2] + s * h * E(al)[2] >>
        v(s) == << pp[1] + s * hh * E(be)[1], pp[2] + s * hh * E(be)[2] >>
        d(uu, vv) == Q(uu[1] - vv[1], uu[2] - vv[2])
    IN  << <<l, d(u(1), v(-1)), 1>>, <<l, d(u(-1), v(1)), 1>>, <<l, d(u(1), v(1)), -1>>, <<l, d(u(-1), v(-1)), -1>> >>

\* ---- Impl: the three stencils, as functions of the separation s = p_b - p_a and the two diameters -------------------
\* (all half-lengths: hd1 = subap1_diam/2, hd2 = subap2_diam/2)
StXX(l, sx, sy, hd1, hd2) ==      \* compute_covariance_xx : -D(r1) - D(r1') + D(r2) + D(r3)   (snapshot: -2 D(r1))
    << <<l, Q(sx + (hd2 - hd1), sy), -1>>, <<l, Q(IF Variant = "snapshot" THEN sx + (hd2 - hd1) ELSE sx - (hd2 - hd1), sy), -1>>, <<l, Q(sx - (hd2 + hd1), sy), 1>>, <<l, Q(sx + (hd2 + hd1), sy), 1>> >>
StYY(l, sx, sy, hd1, hd2) ==
    << <<l, Q(sx, sy + (hd2 - hd1)), -1>>, <<l, Q(sx, IF Variant = "snapshot" THEN sy + (hd2 - hd1) ELSE sy - (hd2 - hd1)), -1>>, <<l, Q(sx, sy - (hd2 + hd1)), 1>>, <<l, Q(sx, sy + (hd2 + hd1)), 1>> >>
StXY(l, sx, sy, hd1, hd2) ==      \* compute_covariance_xy : x-slope of subap 1 with y-slope of subap 2
    << <<l, Q(sx + hd1, sy - hd2), -1>>, <<l, Q(sx - hd1, sy + hd2), -1>>, <<l, Q(sx + hd1, sy + hd2), 1>>, <<l, Q(sx - hd1, sy - hd2), 1>> >>
StYX(l, sx, sy, hd1, hd2) == StXY(l, sy, sx, hd1, hd2)      \* y-slope of subap 1 with x-slope of subap 2: the axes exchanged

\* rows / columns of the matrix: per WFS all x slopes then all y slopes
RowOf(i, al, a) == LET RECURSIVE before(_) before(k) == IF k = 0 THEN 0 ELSE 2 * NSub(k) + before(k - 1)
                   IN  before(i - 1) + (IF al = "x" THEN 0 ELSE NSub(i)) + a
Dim == LET RECURSIVE tot(_) tot(k) == IF k = 0 THEN 0 ELSE 2 * NSub(k) + tot(k - 1) IN tot(cfg.nw)

\* contribution of block (i, j) at layer l to entry (row, col), as the code places it (wfs_j <= wfs_i)
BlockAtoms(i, j, l, al, a, be, b) ==
    LET Sep(aa, bb) == << ImplPos(j, bb, l)[1] - ImplPos(i, aa, l)[1], ImplPos(j, bb, l)[2] - ImplPos(i, aa, l)[2] >>
        s == Sep(a, b)
        \* snapshot: the (x_i, y_j) block was fliplr(flipud(cov_xy)), the (y_i, x_j) block was cov_xy itself
        sf == Sep(NSub(i) + 1 - a, NSub(j) + 1 - b)
        h1 == HalfD(i, l)    h2 == HalfD(j, l)
    IN  CASE al = "x" /\ be = "x" -> StXX(l, s[1], s[2], h1, h2)
          [] al = "y" /\ be = "y" -> StYY(l, s[1], s[2], h1, h2)
          [] al = "x" /\ be = "y" -> IF Variant = "snapshot" THEN StXY(l, sf[1], sf[2], h1, h2) ELSE StXY(l, s[1], s[2], h1, h2)
          [] al = "y" /\ be = "x" -> IF Variant = "snapshot" THEN StXY(l, s[1], s[2], h1, h2) ELSE StYX(l, s[1], s[2], h1, h2)

Axes == {"x", "y"}
Slots(i) == { <<al, a>> : al \in Axes, a \in 1..NSub(i) }

-----------------------------------------------------------------------------
NLayers == Len(cfg.heights)
Pairs == { <<i, j>> \in (1..cfg.nw) \X (1..cfg.nw) : j <= i }
NextPair(p) == IF p[2] < p[1] THEN <<p[1], p[2] + 1>> ELSE <<p[1] + 1, 1>>

Empty == [r \in 1..Dim |-> [c \in 1..Dim |-> <<>>]]

\* one iteration of the (layer, wfs_i, wfs_j) loops: the four slice assignments of lines 178-191
Block ==
    /\ pc = "assemble"
    /\ LET i == pair[1]  j == pair[2]  l == layer
       IN  M' = [r \in 1..Dim |-> [c \in 1..Dim |->
                    IF \E s1 \in Slots(i), s2 \in Slots(j) : RowOf(i, s1[1], s1[2]) = r /\ RowOf(j, s2[1], s2[2]) = c
                       THEN LET s1 == CHOOSE s \in Slots(i) : RowOf(i, s[1], s[2]) = r
                                s2 == CHOOSE s \in Slots(j) : RowOf(j, s[1], s[2]) = c
                            IN  M[r][c] \o BlockAtoms(i, j, l, s1[1], s1[2], s2[1], s2[2])
                       ELSE M[r][c]]]
    /\ IF pair = <<cfg.nw, cfg.nw>>
          THEN IF layer < NLayers THEN layer' = layer + 1 /\ pair' = <<1, 1>> /\ pc' = pc
               ELSE layer' = layer /\ pair' = pair /\ pc' = "mirror"
          ELSE pair' = NextPair(pair) /\ layer' = layer /\ pc' = pc
    /\ UNCHANGED cfg

\* mirror_covariance_matrix: bitwise OR of the matrix with its transpose: equal -> that value, one side zero -> the other,
\* two different non-zero values -> garbage
Garbage == << <<0, 0, 0>> >>
Mirror ==
    /\ pc = "mirror"
    /\ M' = [r \in 1..Dim |-> [c \in 1..Dim |->
                LET a == Norm(M[r][c])  b == Norm(M[c][r])
                IN  IF a = b THEN M[r][c] ELSE IF a = {} THEN M[c][r] ELSE IF b = {} THEN M[r][c] ELSE Garbage]]
    /\ pc' = "done" /\ UNCHANGED <<cfg, layer, pair>>

-----------------------------------------------------------------------------
(* ---------- scope ---------- *)
Grid(n) == (0..n-1) \X (0..n-1)
AllMasks(n) == { s \in SUBSET Grid(n) : s # {} }
Rep2 == { Grid(2), {<<0,0>>, <<0,1>>, <<1,0>>}, {<<0,1>>}, {<<0,0>>, <<1,1>>}, {<<1,0>>, <<1,1>>} }        \* full, L, single, diagonal, row
Asym3 == { {<<0,0>>, <<0,1>>, <<0,2>>, <<1,0>>}, {<<0,1>>, <<1,1>>, <<2,2>>}, {<<0,0>>, <<1,2>>, <<2,1>>}, Grid(3) \ {<<0,0>>},
           {<<1,0>>, <<1,1>>, <<1,2>>, <<0,1>>}, {<<0,2>>, <<2,0>>, <<2,1>>} }
Offsets == { <<0, 0>>, <<4, 0>>, <<0, -4>>, <<4, 4>>, <<4, -4>> }       \* incl. a direction on the anti-diagonal (x = -y)
Init ==
    /\ pc = "assemble" /\ layer = 1 /\ pair = <<1, 1>>
    /\ \/ \E m1 \in AllMasks(2), m2 \in Rep2, g1 \in BOOLEAN, g2 \in BOOLEAN, o1 \in {<<0,0>>, <<0,-4>>}, o2 \in Offsets, nl \in 1..2 :
             /\ (Scope = "quick" => (o2 \in {<<0,0>>, <<4,0>>, <<4,4>>} /\ nl = 2 /\ ((g1 /\ ~g2) => m2 \in {Grid(2), {<<0,0>>, <<0,1>>, <<1,0>>}})))
             /\ cfg = [nw |-> 2, masks |-> <<m1, m2>>, n |-> <<2, 2>>, dia |-> <<8, 8>>, lgs |-> <<g1, g2>>, off |-> <<o1, o2>>,
                       heights |-> IF nl = 1 THEN <<1>> ELSE <<0, 1>>]
       \/ \E m1 \in Asym3 \cup {Grid(3)}, g1 \in BOOLEAN, o1 \in {<<0,0>>, <<4,4>>} :
             cfg = [nw |-> 1, masks |-> <<m1>>, n |-> <<3>>, dia |-> <<8>>, lgs |-> <<g1>>, off |-> <<o1>>, heights |-> <<0, 1>>]
       \/ \E m1 \in Rep2, m2 \in {Grid(2), {<<0,0>>, <<0,1>>, <<1,0>>}}, o1 \in {<<0,0>>, <<0,-4>>}, o2 \in {<<4,0>>, <<4,4>>, <<4,-4>>, <<-4,4>>} :
             \* two elevated layers, natural guide stars only (incl. directions on the anti-diagonal, x = -y) (translations must not accumulate from one layer to the next)
             cfg = [nw |-> 2, masks |-> <<m1, m2>>, n |-> <<2, 2>>, dia |-> <<8, 8>>, lgs |-> <<FALSE, FALSE>>, off |-> <<o1, o2>>, heights |-> <<1, 2>>]
       \/ \E m1 \in Rep2, g1 \in BOOLEAN, g2 \in BOOLEAN, o1 \in {<<0,0>>, <<0,-4>>}, o2 \in {<<0,0>>, <<4,4>>}, swap \in BOOLEAN :
             \* sensors with DIFFERENT sub-aperture sizes on the same telescope: a 2x2 grid of 8 hu cells and one 16 hu cell
             cfg = IF swap THEN [nw |-> 2, masks |-> <<{<<0,0>>}, m1>>, n |-> <<1, 2>>, dia |-> <<16, 8>>, lgs |-> <<g1, g2>>, off |-> <<o1, o2>>, heights |-> <<0, 1>>]
                           ELSE [nw |-> 2, masks |-> <<m1, {<<0,0>>}>>, n |-> <<2, 1>>, dia |-> <<8, 16>>, lgs |-> <<g1, g2>>, off |-> <<o1, o2>>, heights |-> <<0, 1>>]
       \/ \E m1 \in Rep2, g1 \in BOOLEAN, g2 \in BOOLEAN, o2 \in {<<40, -24>>, <<-32, 0>>} :
             \* wide field: the two beams do not overlap at the upper layer (separation 2.5 telescope diameters)
             cfg = [nw |-> 2, masks |-> <<m1, Grid(2)>>, n |-> <<2, 2>>, dia |-> <<8, 8>>, lgs |-> <<g1, g2>>, off |-> << <<0,0>>, o2>>, heights |-> <<0, 1>>]
       \/ /\ Scope = "thorough"
          /\ \E m1 \in Rep2, m2 \in Rep2, m3 \in {Grid(2), {<<0,1>>, <<1,0>>, <<1,1>>}}, g \in [1..3 -> BOOLEAN], o2 \in Offsets, o3 \in {<<0,0>>, <<-4,4>>} :
                cfg = [nw |-> 3, masks |-> <<m1, m2, m3>>, n |-> <<2, 2, 2>>, dia |-> <<8, 8, 8>>, lgs |-> <<g[1], g[2], g[3]>>, off |-> << <<0,0>>, o2, o3>>,
                       heights |-> <<0, 1>>]
    /\ M = [r \in 1..Dim |-> [c \in 1..Dim |-> <<>>]]

Next == Block \/ Mirror
Spec == Init /\ [][Next]_vars

-----------------------------------------------------------------------------
(* ---------- Def matrix and properties ---------- *)
SlotOfRow(r) == CHOOSE t \in { <<i, <<al, a>> >> : i \in 1..cfg.nw, al \in Axes, a \in 1..9 } :
                    t[2][2] <= NSub(t[1]) /\ RowOf(t[1], t[2][1], t[2][2]) = r
RECURSIVE DefLayers(_, _, _)
DefLayers(tr, tc, l) == IF l > NLayers THEN <<>>
                        ELSE DefAtoms(tr[1], tr[2][1], tr[2][2], tc[1], tc[2][1], tc[2][2], l) \o DefLayers(tr, tc, l + 1)
DefEntry(r, c) == Norm(DefLayers(SlotOfRow(r), SlotOfRow(c), 1))

Done == pc = "done"
EntryIsDef == Done => \A r, c \in 1..Dim : Norm(M[r][c]) = DefEntry(r, c)
NoGarbage == Done => \A r, c \in 1..Dim : M[r][c] # Garbage
Symmetric == Done => \A r, c \in 1..Dim : Norm(M[r][c]) = Norm(M[c][r])
\* additive over layers: by construction of Block (atoms are tagged with their layer and only appended)
AdditiveOverLayers == [][ pc = "assemble" => \A r, c \in 1..Dim : Len(M'[r][c]) >= Len(M[r][c]) ]_vars

SetToSeq(S) == LET RECURSIVE f(_) f(W) == IF W = {} THEN <<>> ELSE LET e == CHOOSE e \in W : TRUE IN <<e>> \o f(W \ {e}) IN f(S)
EmitCase == (Emit /\ Done) =>
    PrintT(ToJson([kind |-> "covmat", nw |-> cfg.nw, n |-> cfg.n, dia |-> cfg.dia, lgs |-> cfg.lgs, off |-> cfg.off, heights |-> cfg.heights,
                   masks |-> [i \in 1..cfg.nw |-> Cells(i)], dim |-> Dim,
                   s2 |-> [i \in 1..cfg.nw |-> [l \in 1..NLayers |-> S2(i, l)]],
                   def |-> [r \in 1..Dim |-> [c \in 1..r |-> SetToSeq(DefEntry(r, c))]],
                   impl_equals_def |-> \A r, c \in 1..Dim : Norm(M[r][c]) = DefEntry(r, c)]))
=============================================================================
