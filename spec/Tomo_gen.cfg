SPECIFICATION Spec
CONSTANTS
  Mode = "gen"
  MaxOff = 4
  Emit = TRUE
INVARIANT GenSymmetric
INVARIANT GenDuplicate
INVARIANT EmitCase
CHECK_DEADLOCK FALSE
