SPECIFICATION Spec
CONSTANTS
  Sizes = {2, 3, 4, 5, 6, 7, 8, 9, 10, 12, 16, 17}
  NCols = {1, 2, 3}
  Factors = {1, 2, 4}
  Emit = TRUE
INVARIANT NewRowAdjacent
INVARIANT Symmetric
INVARIANT NoCoincidentPoints
INVARIANT StencilInsideScreen
INVARIANT BlocksPartition
INVARIANT StencilCount
INVARIANT FirstRowHasEndpoints
INVARIANT AllowedIsPow2Plus1
INVARIANT ShiftByConstant
INVARIANT EmitCase
CHECK_DEADLOCK FALSE
