SPECIFICATION Spec
CONSTANTS
  Depth = 10
  BugGlobalFallback = FALSE
  BugSharedInstance = FALSE
  BugCloneShares = FALSE
  BugShCoupled = FALSE
  BugRowsFromSeed = FALSE
  ChildInit = FALSE
  Focus = "all"
  Emit = TRUE
INVARIANT Reproducible
INVARIANT SeedsDiffer
INVARIANT NoDeviateUsedTwice
INVARIANT ObjectNeverReusesADeviate
INVARIANT GlobalUntouched
INVARIANT EmitBehaviour
CHECK_DEADLOCK FALSE
