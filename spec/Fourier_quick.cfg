SPECIFICATION Spec
CONSTANTS
  MaxLen = 16
  ClaimReal = FALSE
  Emit = TRUE
INVARIANT InversePair
INVARIANT Parseval
INVARIANT Centred
INVARIANT ShiftTheorem
INVARIANT ShiftTheoremInv
INVARIANT PsIft2IsInverseOnlyForEvenN
INVARIANT RealPairLengthOK
INVARIANT RealPairScaleOK
INVARIANT EmitCase
CHECK_DEADLOCK FALSE
