------------------------------- MODULE Pupil -------------------------------
(***************************************************************************)
(* Pupil masks and sub-aperture selection (aotools.functions.pupil.circle, *)
(* aotools.wfs.wfslib.findActiveSubaps / computeFillFactor /               *)
(* make_subaps_2d).  All lengths are integers in QUARTER-PIXEL units, so   *)
(* every comparison is exact.                                              *)
(*                                                                         *)
(*   Def  : what property C14 demands (indicator of pixel centres within   *)
(*          r of c; exactly the cells with mean >= threshold; ...)         *)
(*   Impl : the algorithm as the code performs it, one action per stage.   *)
(***************************************************************************)
EXTENDS SequencesExt, Integers, Sequences, FiniteSets, TLC, Json

CONSTANTS MaxN,        \* circle: array sizes 1..MaxN
          MaxM,        \* sub-apertures: all 0/1 masks for sizes <= MaxAllMask, circle masks up to MaxM
          MaxAllMask,
          Emit         \* TRUE: print every finished case as JSON (for the replay into the real code)

VARIABLES mode,        \* "circle" | "subaps" | "scatter"
          pc,          \* stage of the transcribed algorithm
          cfg,         \* the input configuration (a record)
          x, y,        \* circle: per-pixel coordinates (quarter units), as functions [row, col]
          out          \* result under construction

vars == <<mode, pc, cfg, x, y, out>>

Origins == {"middle", "corner"}

-----------------------------------------------------------------------------
(* ---------- circle ---------- *)

Pix(n) == (0 .. n-1) \X (0 .. n-1)        \* <<row, col>>

\* Def: pixel <<i, j>> has its centre at (col + 1/2, row + 1/2); origin "middle" puts (0,0) at n/2.
Dx(n, j, cxq, origin) == (4*j + 2) - (IF origin = "middle" THEN 2*n ELSE 0) - cxq
CircleDef(n, rq, cxq, cyq, origin) ==
    [p \in Pix(n) |->
        LET dx == Dx(n, p[2], cxq, origin)
            dy == Dx(n, p[1], cyq, origin)
        IN  IF dx*dx + dy*dy <= rq*rq THEN 1 ELSE 0]

AsRows(n, m) == [i \in 1..n |-> [j \in 1..n |-> m[<<i-1, j-1>>]]]

\* the enumerated scope: radii 0..n in quarter steps, centres on the half-pixel lattice,
\* within [-n/2, n/2]^2 of the middle or [0, n]^2 from the corner
CentreRange(n, o) == IF o = "middle" THEN (-n)..n ELSE 0..(2*n)
CircleCfgs ==
    UNION { { [n |-> n, rq |-> rq, cxq |-> 2*a, cyq |-> 2*b, origin |-> o] :
                rq \in 0..(4*n), a \in CentreRange(n, o), b \in CentreRange(n, o) } :
            n \in 1..MaxN, o \in Origins }

\* Impl, stage by stage (pupil.py:69-91)
CInit(c) ==
    /\ mode = "circle" /\ cfg = c /\ pc = "coords"
    /\ x = <<>> /\ y = <<>> /\ out = <<>>

Coords ==   \* coords = arange(0.5, size); x, y = meshgrid(coords, coords)
    /\ mode = "circle" /\ pc = "coords"
    /\ x' = [p \in Pix(cfg.n) |-> 4*p[2] + 2]
    /\ y' = [p \in Pix(cfg.n) |-> 4*p[1] + 2]
    /\ pc' = "origin" /\ UNCHANGED <<mode, cfg, out>>

OriginShift ==   \* if origin == "middle": x -= size/2; y -= size/2
    /\ mode = "circle" /\ pc = "origin"
    /\ IF cfg.origin = "middle"
          THEN /\ x' = [p \in Pix(cfg.n) |-> x[p] - 2*cfg.n]
               /\ y' = [p \in Pix(cfg.n) |-> y[p] - 2*cfg.n]
          ELSE UNCHANGED <<x, y>>
    /\ pc' = "centre" /\ UNCHANGED <<mode, cfg, out>>

CentreShift ==   \* x -= circle_centre[0]; y -= circle_centre[1]
    /\ mode = "circle" /\ pc = "centre"
    /\ x' = [p \in Pix(cfg.n) |-> x[p] - cfg.cxq]
    /\ y' = [p \in Pix(cfg.n) |-> y[p] - cfg.cyq]
    /\ pc' = "compare" /\ UNCHANGED <<mode, cfg, out>>

Compare ==   \* mask = x*x + y*y <= radius*radius ; C[mask] = 1
    /\ mode = "circle" /\ pc = "compare"
    /\ out' = [p \in Pix(cfg.n) |-> IF x[p]*x[p] + y[p]*y[p] <= cfg.rq*cfg.rq THEN 1 ELSE 0]
    /\ pc' = "done" /\ UNCHANGED <<mode, cfg, x, y>>

-----------------------------------------------------------------------------
(* ---------- sub-aperture selection ---------- *)

\* exact round-half-to-even of the rational a/b (b > 0, a >= 0)
RoundHE(a, b) ==
    LET q == a \div b
        r == a % b
    IN  IF 2*r < b THEN q
        ELSE IF 2*r > b THEN q + 1
        ELSE IF q % 2 = 0 THEN q ELSE q + 1

IsPow2(k) == k \in {1, 2, 4, 8, 16, 32, 64}
Gcd(a, b) == CHOOSE g \in 1..(IF a > b THEN a ELSE b) :
                /\ a % g = 0 /\ b % g = 0
                /\ \A h \in 1..(IF a > b THEN a ELSE b) : (a % h = 0 /\ b % h = 0) => h <= g

\* Is x*M/S exactly half-integral while M/S is not a binary fraction?  Then the code's float
\* product decides the rounding and the model does not predict it (named deviation FloatTie).
FloatTie(k, M, S) ==
    /\ (2*k*M) % S = 0 /\ ((2*k*M) \div S) % 2 = 1
    /\ ~IsPow2(S \div Gcd(M, S))

Lo(k, M, S) == RoundHE(k*M, S)

Thresholds == { <<0,1>>, <<1,4>>, <<1,3>>, <<1,2>>, <<2,3>>, <<3,4>>, <<1,1>> }

\* grey masks (partially transmitting pixels) hold values 0, 1, 2 meaning transmission 0, 1/2, 1; they travel with a threshold
\* written <<a, b, "grey">>
IsGrey(th) == Len(th) = 3 /\ th[3] = "grey"
RECURSIVE SumSeq(_)
SumSeq(q) == IF q = <<>> THEN 0 ELSE Head(q) + SumSeq(Tail(q))
CellCountG(mask, M, S, cx, cy, grey) ==   \* <<mean numerator, mean denominator>> of cell (cx, cy)
    LET rows == Lo(cx, M, S) .. (Lo(cx+1, M, S) - 1)
        cols == Lo(cy, M, S) .. (Lo(cy+1, M, S) - 1)
        cells == rows \X cols
    IN  IF grey THEN << SumSeq([k \in 1..Cardinality(cells) |-> mask[SetToSeq(cells)[k]]]), 2 * Cardinality(cells) >>
        ELSE << Cardinality({p \in cells : mask[p] = 1}), Cardinality(cells) >>
CellCount(mask, M, S, cx, cy) == CellCountG(mask, M, S, cx, cy, FALSE)

\* Def: exactly the cells whose mean is at least the threshold
ActiveDef(mask, M, S, th) ==
    { c \in (0..S-1) \X (0..S-1) :
        LET cc == CellCountG(mask, M, S, c[1], c[2], IsGrey(th))
        IN  cc[2] > 0 /\ cc[1] * th[2] >= th[1] * cc[2] }

AllMasks(M) == [Pix(M) -> {0, 1}]
CircleMasks(M) == { CircleDef(M, rq, cq, cq, "middle") : rq \in {2*M - 2, 2*M - 1, 2*M, 2*M + 2}, cq \in {0, 2} }
              \cup { [p \in Pix(M) |-> CircleDef(M, 2*M, 0, 0, "middle")[p] - CircleDef(M, (2*M) \div 3, 0, 0, "middle")[p]] }

MasksFor(M) == IF M <= MaxAllMask THEN AllMasks(M) ELSE CircleMasks(M)
\* "attained fill" family: the threshold IS a fill some cell can have, k / (cell area), on masks with every possible number of lit
\* pixels (the first k pixels in raster order) - the cells that sit exactly on the threshold must be selected.
\* Such a threshold is written <<k, area, "attained">>.
StairMasks(M) == { [p \in Pix(M) |-> IF p[1] * M + p[2] < k THEN 1 ELSE 0] : k \in 0..(M*M) }
IsAttained(th) == Len(th) = 3 /\ th[3] = "attained"
\* anti-aliased pupils: full transmission inside radius rq/4, half transmission in the next half pixel; and every grey 2x2 mask
GreyMasks(M) == { [p \in Pix(M) |-> CircleDef(M, rq, 0, 0, "middle")[p] + CircleDef(M, rq + 2, 0, 0, "middle")[p]] : rq \in {2*M - 2, 2*M} }
                \cup (IF M <= 2 THEN [Pix(M) -> {0, 1, 2}] ELSE {})
SubapCfgs ==
    UNION { { [M |-> M, S |-> S, th |-> th, mask |-> m] : S \in 1..M, th \in Thresholds, m \in MasksFor(M) } :
            M \in 1..MaxM }

SInit(c) ==
    /\ mode = "subaps" /\ cfg = c /\ pc = "loop"
    /\ x = 0 /\ y = 0            \* loop counters
    /\ out = [coords |-> <<>>, fills |-> <<>>]

\* one iteration of the double loop  (wfslib.py:30-41)
LoopBody ==
    /\ mode = "subaps" /\ pc = "loop"
    /\ LET cc == CellCountG(cfg.mask, cfg.M, cfg.S, x, y, IsGrey(cfg.th))
           act == cc[1] * cfg.th[2] >= cfg.th[1] * cc[2]
       IN  out' = IF act THEN [coords |-> Append(out.coords, <<x, y>>),
                               fills  |-> Append(out.fills, cc)]
                         ELSE out
    /\ IF y + 1 < cfg.S THEN y' = y + 1 /\ x' = x /\ pc' = pc
       ELSE IF x + 1 < cfg.S THEN y' = 0 /\ x' = x + 1 /\ pc' = pc
       ELSE x' = x /\ y' = y /\ pc' = "done"
    /\ UNCHANGED <<mode, cfg>>

-----------------------------------------------------------------------------
(* ---------- scatter / gather (make_subaps_2d) ---------- *)

ScatterCfgs == UNION { { [M |-> M, mask |-> m] : m \in AllMasks(M) } : M \in 1..MaxAllMask }

ScInit(c) ==
    /\ mode = "scatter" /\ cfg = c /\ pc = "loop"
    /\ x = 0 /\ y = 0
    /\ out = [map |-> [p \in Pix(c.M) |-> 0], n |-> 0]      \* 0 = untouched cell, k > 0 = token of sub-aperture k

ScatterBody ==   \* wfslib.py:88-93
    /\ mode = "scatter" /\ pc = "loop"
    /\ IF cfg.mask[<<x, y>>] = 1
          THEN out' = [map |-> [out.map EXCEPT ![<<x, y>>] = out.n + 1], n |-> out.n + 1]
          ELSE out' = out
    /\ IF y + 1 < cfg.M THEN y' = y + 1 /\ x' = x /\ pc' = pc
       ELSE IF x + 1 < cfg.M THEN y' = 0 /\ x' = x + 1 /\ pc' = pc
       ELSE x' = x /\ y' = y /\ pc' = "done"
    /\ UNCHANGED <<mode, cfg>>

\* gather = boolean-mask read in row-major order
RowMajor(M) == [k \in 1..(M*M) |-> << (k-1) \div M, (k-1) % M >>]
Gather(map, mask, M) == SelectSeq([k \in 1..(M*M) |-> IF mask[RowMajor(M)[k]] = 1 THEN map[RowMajor(M)[k]] ELSE 0],
                                  LAMBDA v : v # 0)

-----------------------------------------------------------------------------
\* The configuration is chosen in two steps (size first, the rest in a Choose* action) so that the
\* enumeration is spread over TLC's workers instead of being done by the single thread that computes Init.
Init ==
    /\ pc = "choose" /\ x = <<>> /\ y = <<>> /\ out = <<>>
    /\ \/ \E n \in 1..MaxN, o \in Origins, rq \in 0..(4*MaxN) :
             rq <= 4*n /\ mode = "circle" /\ cfg = [n |-> n, origin |-> o, rq |-> rq]
       \/ \E M \in 1..MaxM : \E S \in 1..M, th \in Thresholds : mode = "subaps" /\ cfg = [M |-> M, S |-> S, th |-> th]
       \/ \E M \in 1..MaxM : \E S \in 1..M : M % S = 0 /\ \E k \in 0..((M \div S) * (M \div S)) :
             mode = "subaps" /\ cfg = [M |-> M, S |-> S, th |-> <<k, (M \div S) * (M \div S), "attained">>]
       \/ \E M \in 1..MaxM : \E S \in 1..M, th \in Thresholds : mode = "subaps" /\ cfg = [M |-> M, S |-> S, th |-> <<th[1], th[2], "grey">>]
       \/ \E M \in 1..MaxAllMask : mode = "scatter" /\ cfg = [M |-> M]

ChooseCircle ==
    /\ mode = "circle" /\ pc = "choose"
    /\ \E a \in CentreRange(cfg.n, cfg.origin), b \in CentreRange(cfg.n, cfg.origin) :
          cfg' = [n |-> cfg.n, rq |-> cfg.rq, cxq |-> 2*a, cyq |-> 2*b, origin |-> cfg.origin]
    /\ pc' = "coords" /\ UNCHANGED <<mode, x, y, out>>

ChooseSubaps ==
    /\ mode = "subaps" /\ pc = "choose"
    /\ \E m \in (IF IsAttained(cfg.th) THEN StairMasks(cfg.M) ELSE IF IsGrey(cfg.th) THEN GreyMasks(cfg.M) ELSE MasksFor(cfg.M)) : cfg' = [M |-> cfg.M, S |-> cfg.S, th |-> cfg.th, mask |-> m]
    /\ pc' = "loop" /\ x' = 0 /\ y' = 0 /\ out' = [coords |-> <<>>, fills |-> <<>>]
    /\ UNCHANGED mode

ChooseScatter ==
    /\ mode = "scatter" /\ pc = "choose"
    /\ \E m \in AllMasks(cfg.M) : cfg' = [M |-> cfg.M, mask |-> m]
    /\ pc' = "loop" /\ x' = 0 /\ y' = 0 /\ out' = [map |-> [p \in Pix(cfg.M) |-> 0], n |-> 0]
    /\ UNCHANGED mode

Next == ChooseCircle \/ ChooseSubaps \/ ChooseScatter \/ Coords \/ OriginShift \/ CentreShift \/ Compare \/ LoopBody \/ ScatterBody

Spec == Init /\ [][Next]_vars

-----------------------------------------------------------------------------
(* ---------- properties ---------- *)
Done(m) == mode = m /\ pc = "done"

\* Impl = Def
CircleIsIndicator == Done("circle") => out = CircleDef(cfg.n, cfg.rq, cfg.cxq, cfg.cyq, cfg.origin)

\* properties of the indicator that the statement lists
Nested == Done("circle") =>
    \A p \in Pix(cfg.n) : out[p] = 1 => CircleDef(cfg.n, cfg.rq + 1, cfg.cxq, cfg.cyq, cfg.origin)[p] = 1

BoundaryInclusive == Done("circle") =>
    \A p \in Pix(cfg.n) :
        LET dx == Dx(cfg.n, p[2], cfg.cxq, cfg.origin)
            dy == Dx(cfg.n, p[1], cfg.cyq, cfg.origin)
        IN  dx*dx + dy*dy = cfg.rq*cfg.rq => out[p] = 1

D4Symmetric == (Done("circle") /\ cfg.origin = "middle" /\ cfg.cxq = 0 /\ cfg.cyq = 0) =>
    \A p \in Pix(cfg.n) :
        /\ out[p] = out[<<p[2], p[1]>>]                    \* transpose
        /\ out[p] = out[<<cfg.n - 1 - p[1], p[2]>>]        \* flip rows
        /\ out[p] = out[<<p[1], cfg.n - 1 - p[2]>>]        \* flip columns

\* moving the centre by one whole pixel in x moves the mask by one column (where both pixels exist)
Translates == Done("circle") =>
    LET m2 == CircleDef(cfg.n, cfg.rq, cfg.cxq + 4, cfg.cyq, cfg.origin)
    IN  \A p \in Pix(cfg.n) : p[2] + 1 < cfg.n => m2[<<p[1], p[2] + 1>>] = out[p]

\* the docstring examples (pupil.py:24-36)
Row(s) == s
DocExamples == Done("circle") =>
    /\ (cfg = [n |-> 5, rq |-> 4, cxq |-> 0, cyq |-> 0, origin |-> "middle"]) =>
          AsRows(5, out) = << <<0,0,0,0,0>>, <<0,0,1,0,0>>, <<0,1,1,1,0>>, <<0,0,1,0,0>>, <<0,0,0,0,0>> >>
    /\ (cfg = [n |-> 4, rq |-> 8, cxq |-> 0, cyq |-> 0, origin |-> "middle"]) =>
          AsRows(4, out) = << <<0,1,1,0>>, <<1,1,1,1>>, <<1,1,1,1>>, <<0,1,1,0>> >>
    /\ (cfg = [n |-> 4, rq |-> 4, cxq |-> 2, cyq |-> 2, origin |-> "middle"]) =>
          AsRows(4, out) = << <<0,0,0,0>>, <<0,0,1,0>>, <<0,1,1,1>>, <<0,0,1,0>> >>
    /\ (cfg = [n |-> 5, rq |-> 4, cxq |-> 2, cyq |-> 2, origin |-> "middle"]) =>
          AsRows(5, out) = << <<0,0,0,0,0>>, <<0,0,0,0,0>>, <<0,0,1,1,0>>, <<0,0,1,1,0>>, <<0,0,0,0,0>> >>

SeqToSet(s) == { s[i] : i \in 1..Len(s) }

ExactlyThresholdCells == Done("subaps") =>
    /\ SeqToSet(out.coords) = ActiveDef(cfg.mask, cfg.M, cfg.S, cfg.th)
    /\ Len(out.coords) = Cardinality(ActiveDef(cfg.mask, cfg.M, cfg.S, cfg.th))        \* no duplicates
    /\ \A i \in 1..Len(out.coords) - 1 :                                                  \* raster order
          out.coords[i][1] * cfg.S + out.coords[i][2] < out.coords[i+1][1] * cfg.S + out.coords[i+1][2]

MonotoneInThreshold == Done("subaps") =>
    \A t2 \in Thresholds : t2[1] * cfg.th[2] >= cfg.th[1] * t2[2] =>
        ActiveDef(cfg.mask, cfg.M, cfg.S, IF IsGrey(cfg.th) THEN <<t2[1], t2[2], "grey">> ELSE t2) \subseteq SeqToSet(out.coords)

\* when S | M the fill factor recomputed from the returned coordinate (x*M/S) and spacing M/S is the same
FillsAgree == (Done("subaps") /\ cfg.M % cfg.S = 0) =>
    \A i \in 1..Len(out.coords) :
        LET sp == cfg.M \div cfg.S
            x1 == out.coords[i][1] * sp
            y1 == out.coords[i][2] * sp
            rows == x1 .. (x1 + sp - 1)
            cols == y1 .. (y1 + sp - 1)
            cells == rows \X cols
        IN  out.fills[i] = IF IsGrey(cfg.th) THEN << SumSeq([k \in 1..Cardinality(cells) |-> cfg.mask[SetToSeq(cells)[k]]]), 2 * sp * sp >>
                           ELSE << Cardinality({p \in cells : cfg.mask[p] = 1}), sp * sp >>

GatherAfterScatter == Done("scatter") =>
    /\ Gather(out.map, cfg.mask, cfg.M) = [k \in 1..out.n |-> k]
    /\ out.n = Cardinality({p \in Pix(cfg.M) : cfg.mask[p] = 1})
    /\ \A p \in Pix(cfg.M) : cfg.mask[p] = 0 => out.map[p] = 0

-----------------------------------------------------------------------------
(* ---------- emission for the replay into the real code ---------- *)
Ties == { k \in 0..cfg.S : FloatTie(k, cfg.M, cfg.S) }

EmitCase ==
    (Emit /\ pc = "done") =>
      CASE mode = "circle" ->
            PrintT(ToJson([kind |-> "circle", n |-> cfg.n, rq |-> cfg.rq, cxq |-> cfg.cxq, cyq |-> cfg.cyq,
                           origin |-> cfg.origin, mask |-> AsRows(cfg.n, out)]))
        [] mode = "subaps" ->
            PrintT(ToJson([kind |-> "subaps", M |-> cfg.M, S |-> cfg.S, th |-> cfg.th,
                           mask |-> AsRows(cfg.M, cfg.mask), coords |-> out.coords, fills |-> out.fills,
                           tie |-> Ties # {}]))
        [] mode = "scatter" ->
            PrintT(ToJson([kind |-> "scatter", M |-> cfg.M, mask |-> AsRows(cfg.M, cfg.mask),
                           map |-> AsRows(cfg.M, out.map), n |-> out.n]))
=============================================================================
