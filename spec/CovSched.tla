------------------------------- MODULE CovSched -------------------------------
(***************************************************************************)
(* Scheduling of the slope-covariance build (property C03):                *)
(* slopecovariance.py :88-144 (per-call re-initialisation, dispatch on      *)
(* self.threads), :146-191 single-process loop, :193-248 pool.map per       *)
(* layer with positional consumption of the results (thread_n).            *)
(*                                                                         *)
(* Float addition is not associative, so "bit-identical" means: every       *)
(* matrix block receives the same contributions in the same ORDER.  accum   *)
(* records, per block, the sequence of <<layer, task>> contributions added  *)
(* into it.  Workers start tasks in submission order and finish in ANY      *)
(* order (Start / Finish are separate, independently enabled actions).      *)
(***************************************************************************)
EXTENDS Integers, Sequences, FiniteSets, TLC, Json

CONSTANTS NPairs,        \* tasks per layer = sensor pairs (wfs_j <= wfs_i), in loop order 1..NPairs
          NLayers,
          MaxK,          \* worker counts 1..MaxK  (1 = the single-process path)
          MaxBuilds,     \* rebuilds on the same object
          BugUnordered,  \* TRUE: results are collected in completion order (imap_unordered instead of map)
          BugNoReset,    \* TRUE: the matrix is not re-zeroed at the start of a build
          Emit

Workers == 1..MaxK
None == 0

VARIABLES k,            \* self.threads for the current build
          phase,        \* "idle" | "map" | "consume" | "returned"
          layer,
          queue,        \* tasks of the current layer not yet started (submission order)
          running,      \* [Workers -> task or None]
          complOrder,   \* tasks of the current layer in the order they finished
          results,      \* what the pool handed back (a sequence), <<>> before Gather
          cursor,       \* thread_n
          accum,        \* [block -> sequence of <<layer, task>>] : the matrix under construction
          builds,       \* number of completed builds on this object
          sched,        \* observation: completion orders of the layers of the current build
          prevK         \* observation: thread counts of the earlier builds
vars == <<k, phase, layer, queue, running, complOrder, results, cursor, accum, builds, sched, prevK>>

Tasks == 1..NPairs
Fresh == [b \in Tasks |-> <<>>]
\* what a build must produce: every block gets layer 1, 2, ... of ITS OWN pair, in layer order
Sequential == [b \in Tasks |-> [l \in 1..NLayers |-> <<l, b>>]]

Init == /\ k \in 1..MaxK /\ phase = "idle" /\ layer = 0 /\ queue = <<>> /\ running = [w \in Workers |-> None]
        /\ complOrder = <<>> /\ results = <<>> /\ cursor = 0 /\ accum = Fresh /\ builds = 0 /\ sched = <<>> /\ prevK = <<>>

\* make_covariance_matrix(): positions recomputed, matrix re-zeroed, first layer submitted
StartBuild ==
    /\ phase = "idle" /\ builds < MaxBuilds
    /\ accum' = IF BugNoReset THEN accum ELSE Fresh
    /\ layer' = 1 /\ queue' = [t \in 1..NPairs |-> t] /\ complOrder' = <<>> /\ results' = <<>> /\ cursor' = 0
    /\ phase' = "map" /\ sched' = <<>>
    /\ UNCHANGED <<k, running, builds, prevK>>

\* a worker takes the next task (only k workers exist; with k = 1 this is the in-process loop)
Start(w) ==
    /\ phase = "map" /\ w <= k /\ running[w] = None /\ queue # <<>>
    /\ running' = [running EXCEPT ![w] = Head(queue)]
    /\ queue' = Tail(queue)
    /\ UNCHANGED <<k, phase, layer, complOrder, results, cursor, accum, builds, sched, prevK>>
Finish(w) ==
    /\ phase = "map" /\ running[w] # None
    /\ complOrder' = Append(complOrder, running[w])
    /\ running' = [running EXCEPT ![w] = None]
    /\ UNCHANGED <<k, phase, layer, queue, results, cursor, accum, builds, sched, prevK>>
\* pool.map returns when every task has finished: results in SUBMISSION order
Gather ==
    /\ phase = "map" /\ queue = <<>> /\ \A w \in Workers : running[w] = None /\ Len(complOrder) = NPairs
    /\ results' = IF BugUnordered THEN complOrder ELSE [t \in 1..NPairs |-> t]
    /\ cursor' = 1 /\ phase' = "consume"
    /\ sched' = Append(sched, complOrder)
    /\ UNCHANGED <<k, layer, queue, running, complOrder, accum, builds, prevK>>
\* the consumption loop: the result at position thread_n is added into the block of the thread_n-th pair
Consume ==
    /\ phase = "consume" /\ cursor <= NPairs
    /\ accum' = [accum EXCEPT ![cursor] = Append(@, <<layer, results[cursor]>>)]
    /\ cursor' = cursor + 1
    /\ UNCHANGED <<k, phase, layer, queue, running, complOrder, results, builds, sched, prevK>>
NextLayer ==
    /\ phase = "consume" /\ cursor = NPairs + 1 /\ layer < NLayers
    /\ layer' = layer + 1 /\ queue' = [t \in 1..NPairs |-> t] /\ complOrder' = <<>> /\ results' = <<>> /\ cursor' = 0 /\ phase' = "map"
    /\ UNCHANGED <<k, running, accum, builds, sched, prevK>>
Return ==
    /\ phase = "consume" /\ cursor = NPairs + 1 /\ layer = NLayers
    /\ phase' = "returned" /\ builds' = builds + 1
    /\ UNCHANGED <<k, layer, queue, running, complOrder, results, cursor, accum, sched, prevK>>
\* between builds the user may change the thread count
SetThreads(kk) ==
    /\ phase = "returned"
    /\ prevK' = Append(prevK, k) /\ k' = kk /\ phase' = "idle"
    /\ UNCHANGED <<layer, queue, running, complOrder, results, cursor, accum, builds, sched>>

Next == StartBuild \/ (\E w \in Workers : Start(w) \/ Finish(w)) \/ Gather \/ Consume \/ NextLayer \/ Return
        \/ (\E kk \in 1..MaxK : SetThreads(kk))
Spec == Init /\ [][Next]_vars
FairSpec == Spec /\ WF_vars(Next)

-----------------------------------------------------------------------------
\* every build, with any worker count, any completion order and any history of earlier builds, equals the sequential one
SameAsSequential == phase = "returned" => accum = Sequential
EveryTaskConsumedOnce == phase = "returned" => \A b \in Tasks : Len(accum[b]) = NLayers
NoCarryOver == [][ (phase = "idle" /\ phase' = "map") => accum' = Fresh ]_vars
AtMostKRunning == Cardinality({ w \in Workers : running[w] # None }) <= k
Returns == <>(phase = "returned")

EmitBuild == (Emit /\ phase = "returned") => PrintT(ToJson([kind |-> "build", k |-> k, sched |-> sched, prevK |-> prevK, build |-> builds]))
=============================================================================
