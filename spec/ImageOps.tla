------------------------------ MODULE ImageOps ------------------------------
(***************************************************************************)
(* Centroiders of aotools.image_processing.centroiders as exact operators  *)
(* on small integer images, and the relations property C15 demands of      *)
(* them.  Results are exact: a centroid is <<Mx, My, T>> = first moments   *)
(* and total (x = Mx/T, y = My/T; T = 0 is the code's NaN).                *)
(*                                                                         *)
(* Impl: one action per stage of the code (Threshold / Rank / Correlate /  *)
(*       Moments), operating on `work`.                                    *)
(* Def : SinglePixel, ScaleInvariant, ShiftEquivariant, StackEqualsFrames, *)
(*       CorrelationDisplacement, QuadMirror  (invariants at pc = "done"). *)
(***************************************************************************)
EXTENDS Integers, Sequences, FiniteSets, FiniteSetsExt, TLC, Json

CONSTANTS MaxVal,       \* pixel values 0..MaxVal
          CogThetas,    \* thresholds (as <<num, den>>) for the centre of gravity
          BpKs,         \* numbers of brightest pixels
          CorrSizes,    \* frame sizes for the correlation centroider
          RectSizes,    \* ... of which these are also explored as rectangular frames (one more column than rows)
          MaxPad,
          Emit

VARIABLES mode, pc, cfg, work, res
vars == <<mode, pc, cfg, work, res>>

Pix(h, w) == (0 .. h-1) \X (0 .. w-1)          \* <<row, col>>
Rows(h, w, f) == [i \in 1..h |-> [j \in 1..w |-> f[<<i-1, j-1>>]]]

Thetas == CogThetas
QuickThetas == { <<0,1>>, <<1,4>>, <<1,2>> }          \* cfg files cannot write tuples: CogThetas <- QuickThetas
AllThetas == { <<0,1>>, <<1,8>>, <<1,4>>, <<1,2>>, <<3,4>> }

-----------------------------------------------------------------------------
(* ---------- exact operators ---------- *)
MaxOf(img) == Max({ img[p] : p \in DOMAIN img })
MinOf(img) == Min({ img[p] : p \in DOMAIN img })

\* centroiders.py:80-90 : first moments over the last two axes, x = column index, y = row index
Moments(img) == << MapThenSumSet(LAMBDA p : p[2] * img[p], DOMAIN img),
                   MapThenSumSet(LAMBDA p : p[1] * img[p], DOMAIN img),
                   MapThenSumSet(LAMBDA p : img[p], DOMAIN img) >>

SameCentroid(a, b) == \/ a[3] = 0 /\ b[3] = 0
                      \/ a[3] # 0 /\ b[3] # 0 /\ a[1]*b[3] = b[1]*a[3] /\ a[2]*b[3] = b[2]*a[3]
\* a = b + (kx, ky)
ShiftedCentroid(a, b, kx, ky) == \/ a[3] = 0 /\ b[3] = 0
                                 \/ a[3] # 0 /\ b[3] # 0 /\ a[1]*b[3] = (b[1] + kx*b[3])*a[3]
                                                        /\ a[2]*b[3] = (b[2] + ky*b[3])*a[3]

\* centroiders.py:70-78 : threshold = th[1]/th[2] of the frame maximum, SUBTRACTED from the pixels above it
\* (values are scaled by th[2] to stay in the integers; a centroid is a ratio, so the scale cancels)
ThreshSub(img, th) ==
    IF th[1] = 0 THEN img
    ELSE LET m == MaxOf(img)
         IN  [p \in DOMAIN img |-> IF th[2]*img[p] > th[1]*m THEN th[2]*img[p] - th[1]*m ELSE 0]

CoG(img, th) == Moments(ThreshSub(img, th))

\* centroiders.py:93-123 : the nPxls-th brightest value is subtracted, negatives clipped
NthBrightest(img, k) ==
    CHOOSE v \in { img[p] : p \in DOMAIN img } :
        /\ Cardinality({ p \in DOMAIN img : img[p] > v }) < k
        /\ Cardinality({ p \in DOMAIN img : img[p] >= v }) >= k
RankClip(img, k) == LET v == NthBrightest(img, k)
                    IN  [p \in DOMAIN img |-> IF img[p] > v THEN img[p] - v ELSE 0]
Brightest(img, k) == Moments(RankClip(img, k))

\* round-half-even of a/b
RoundHE(a, b) == LET q == a \div b  r == a % b
                 IN  IF 2*r < b THEN q ELSE IF 2*r > b THEN q + 1 ELSE IF q % 2 = 0 THEN q ELSE q + 1

\* centroiders.py:126-143 : zero-padded circular cross-correlation, |.|, fftshift
At(img, h, w, p) == IF p[1] < h /\ p[2] < w THEN img[p] ELSE 0            \* zero padding to P x P
CrossCorr(im, ref, ny, nx, pad) ==       \* frames of ny rows and nx columns, padded to Py x Px
    LET Py == ny * pad   Px == nx * pad
        sup == { q \in Pix(ny, nx) : ref[q] # 0 }
        c(k) == MapThenSumSet(LAMBDA q : At(im, ny, nx, <<(q[1] + k[1]) % Py, (q[2] + k[2]) % Px>>) * ref[q], sup)
    IN  [p \in Pix(Py, Px) |-> c(<<(p[1] - (Py \div 2)) % Py, (p[2] - (Px \div 2)) % Px>>)]

MinRemoved(img) == LET m == MinOf(img) IN [p \in DOMAIN img |-> img[p] - m]

\* quad cell: centroiders.py:146-163
Quad(img) == << (img[<<0,1>>] + img[<<1,1>>]) - (img[<<0,0>>] + img[<<1,0>>]),
                (img[<<1,0>>] + img[<<1,1>>]) - (img[<<0,0>>] + img[<<0,1>>]) >>

Translate(img, h, w, ky, kx) == [p \in Pix(h, w) |->
        LET q == <<p[1] - ky, p[2] - kx>> IN IF q \in Pix(h, w) THEN img[q] ELSE 0]
Support(img) == { p \in DOMAIN img : img[p] # 0 }
\* shifts that keep the whole content inside the frame
InsideShifts(img, h, w) == { k \in (-(h-1)..(h-1)) \X (-(w-1)..(w-1)) :
                               \A p \in Support(img) : <<p[1] + k[1], p[2] + k[2]>> \in Pix(h, w) }

Window(h, w, content, oy, ox) == [p \in Pix(h, w) |->
        IF <<p[1] - oy, p[2] - ox>> \in DOMAIN content THEN content[<<p[1] - oy, p[2] - ox>>] ELSE 0]

-----------------------------------------------------------------------------
(* ---------- the enumerated scope, staged so that all workers share it ---------- *)
Init ==
    /\ pc = "choose" /\ work = <<>> /\ res = <<>>
    /\ \/ \E th \in Thetas : mode = "cog" /\ cfg = [h |-> 3, w |-> 3, th |-> th]
       \/ \E th \in Thetas, oy \in 0..2, ox \in 0..3 : mode = "cogwin" /\ cfg = [h |-> 4, w |-> 5, th |-> th, oy |-> oy, ox |-> ox]
       \/ \E k \in BpKs : mode = "bp" /\ cfg = [h |-> 3, w |-> 3, k |-> k]
       \/ \E n \in CorrSizes, pad \in 1..MaxPad, bg \in 0..1, th \in {<<0,1>>, <<1,2>>}, rect \in {0, 1} :
              \* square frames, and rectangular ones with one more column than rows (rect = 1)
              (rect = 1 => n \in RectSizes) /\ mode = "corr" /\ cfg = [ny |-> n, nx |-> n + rect, pad |-> pad, bg |-> bg, th |-> th]
       \/ mode = "quad" /\ cfg = [h |-> 2, w |-> 2]

ChooseImage ==
    /\ pc = "choose"
    /\ CASE mode \in {"cog", "bp"} ->
              \E img \in [Pix(3, 3) -> 0..MaxVal] : cfg' = cfg @@ [img |-> img]
         [] mode = "cogwin" ->
              \E c \in [Pix(2, 2) -> 0..MaxVal] : cfg' = cfg @@ [img |-> Window(4, 5, c, cfg.oy, cfg.ox)]
         [] mode = "corr" ->
              \E c \in [Pix(2, 2) -> 0..1], d \in 0..(cfg.ny-2) :
                  \E s \in (-(cfg.ny)..cfg.ny) \X (-(cfg.nx)..cfg.nx) :
                     LET ref0 == Window(cfg.ny, cfg.nx, c, d, (d * 2) % (cfg.nx - 1))
                     IN  /\ Support(ref0) # {}
                         /\ s \in InsideShifts(ref0, cfg.ny, cfg.nx)
                         /\ cfg' = cfg @@ [ref |-> [p \in Pix(cfg.ny, cfg.nx) |-> ref0[p] + cfg.bg],
                                           img |-> [p \in Pix(cfg.ny, cfg.nx) |-> Translate(ref0, cfg.ny, cfg.nx, s[1], s[2])[p] + cfg.bg],
                                           s |-> s]
         [] mode = "quad" ->
              \E img \in [Pix(2, 2) -> 0..3] : cfg' = cfg @@ [img |-> img]
    /\ pc' = "stage1" /\ UNCHANGED <<mode, work, res>>

\* stage 1: thresholding / rank clipping / min removal + correlation
Stage1 ==
    /\ pc = "stage1"
    /\ work' = CASE mode \in {"cog", "cogwin"} -> ThreshSub(cfg.img, cfg.th)
                 [] mode = "bp" -> RankClip(cfg.img, cfg.k)
                 [] mode = "corr" -> CrossCorr(MinRemoved(cfg.img), MinRemoved(cfg.ref), cfg.ny, cfg.nx, cfg.pad)
                 [] mode = "quad" -> cfg.img
    /\ pc' = "stage2" /\ UNCHANGED <<mode, cfg, res>>

\* stage 2: (correlation only) threshold of the correlation image
Stage2 ==
    /\ pc = "stage2"
    /\ work' = IF mode = "corr" THEN ThreshSub(work, cfg.th) ELSE work
    /\ pc' = "moments" /\ UNCHANGED <<mode, cfg, res>>

\* centroiders.py:44-50 : the centroid of the P x P correlation is brought back to the n x n frame by subtracting
\* (P div 2) - (n div 2)   [the fftshift centre of the padded frame minus that of the frame]
CorrOffset(n) == ((n * cfg.pad) \div 2) - (n \div 2)
MomentsStep ==
    /\ pc = "moments"
    /\ res' = IF mode = "quad" THEN Quad(work)
              ELSE IF mode = "corr" THEN LET m == Moments(work) IN << m[1] - CorrOffset(cfg.nx) * m[3], m[2] - CorrOffset(cfg.ny) * m[3], m[3] >>
              ELSE Moments(work)
    /\ pc' = "done" /\ UNCHANGED <<mode, cfg, work>>

Next == ChooseImage \/ Stage1 \/ Stage2 \/ MomentsStep
Spec == Init /\ [][Next]_vars

-----------------------------------------------------------------------------
(* ---------- properties (Def) ---------- *)
Done == pc = "done"
IsCog == mode \in {"cog", "cogwin"}
H == IF mode = "corr" THEN cfg.ny ELSE cfg.h
W == IF mode = "corr" THEN cfg.nx ELSE cfg.w
Op(img) == IF IsCog THEN CoG(img, cfg.th) ELSE Brightest(img, cfg.k)

\* centre of gravity without threshold is the first moment over the total (the meaning of the name)
CoGIsFirstMoment == (Done /\ IsCog /\ cfg.th[1] = 0) => res = Moments(cfg.img)

SinglePixel == (Done /\ (IsCog \/ mode = "bp") /\ Cardinality(Support(cfg.img)) = 1) =>
    LET p == CHOOSE q \in Support(cfg.img) : TRUE
    IN  res[3] # 0 /\ res[1] = p[2] * res[3] /\ res[2] = p[1] * res[3]

ScaleInvariant == (Done /\ (IsCog \/ mode = "bp")) =>
    \A c \in {2, 3} : SameCentroid(Op([p \in DOMAIN cfg.img |-> c * cfg.img[p]]), res)

ShiftEquivariant == (Done /\ (IsCog \/ mode = "bp")) =>
    \A k \in InsideShifts(cfg.img, H, W) :
        \* brightest pixel: the rank statistic must still see the same multiset, true for any inside shift
        ShiftedCentroid(Op(Translate(cfg.img, H, W, k[1], k[2])), res, k[2], k[1])

\* the code has separate 2-D and N-D paths; the model's operators are per frame, so a stack is by
\* definition the frame-wise result -- the binding checks the real N-D path against it.
StackEqualsFrames == (Done /\ (IsCog \/ mode = "bp")) => SameCentroid(Op(cfg.img), res)

\* an image displaced by s from its reference gives centre + s, centre = (nx div 2, ny div 2), for every padding
NearTie == mode = "corr" /\ cfg.th[1] # 0 /\
           LET c == CrossCorr(MinRemoved(cfg.img), MinRemoved(cfg.ref), cfg.ny, cfg.nx, cfg.pad)
               m == MaxOf(c)
           IN  \E p \in DOMAIN c : cfg.th[2]*c[p] = cfg.th[1]*m
\* the displaced auto-correlation must not wrap around the (padded) correlation frame
CorrFits == LET Py == cfg.ny * cfg.pad   Px == cfg.nx * cfg.pad
                sup == Support(MinRemoved(cfg.ref))
                exty == { q[1] - r[1] : q \in sup, r \in sup }
                extx == { q[2] - r[2] : q \in sup, r \in sup }
            IN  /\ \A e \in exty : (Py \div 2) + cfg.s[1] + e \in 0..(Py-1)
                /\ \A e \in extx : (Px \div 2) + cfg.s[2] + e \in 0..(Px-1)
CorrExpected == << (cfg.nx \div 2) + cfg.s[2], (cfg.ny \div 2) + cfg.s[1] >>       \* <<x, y>>
CorrelationDisplacement == (Done /\ mode = "corr" /\ CorrFits) =>
    /\ res[3] # 0
    /\ res[1] = CorrExpected[1] * res[3]
    /\ res[2] = CorrExpected[2] * res[3]

QuadMirror == (Done /\ mode = "quad") =>
    /\ Quad([p \in Pix(2,2) |-> cfg.img[<<p[1], 1 - p[2]>>]]) = << -res[1], res[2] >>     \* left-right mirror
    /\ Quad([p \in Pix(2,2) |-> cfg.img[<<1 - p[1], p[2]>>]]) = << res[1], -res[2] >>     \* up-down mirror

-----------------------------------------------------------------------------
SetToSeq(S) == LET RECURSIVE f(_) f(T) == IF T = {} THEN <<>> ELSE LET e == CHOOSE e \in T : TRUE IN <<e>> \o f(T \ {e}) IN f(S)

EmitCase == (Emit /\ Done) =>
    CASE IsCog ->
           PrintT(ToJson([kind |-> mode, h |-> cfg.h, w |-> cfg.w, th |-> cfg.th, img |-> Rows(cfg.h, cfg.w, cfg.img),
                          impl |-> res, first |-> Moments(cfg.img),
                          lit |-> SetToSeq(Support(cfg.img)),
                          shifts |-> SetToSeq(InsideShifts(cfg.img, cfg.h, cfg.w))]))
      [] mode = "bp" ->
           PrintT(ToJson([kind |-> "bp", h |-> 3, w |-> 3, k |-> cfg.k, img |-> Rows(3, 3, cfg.img),
                          impl |-> res, lit |-> SetToSeq(Support(cfg.img)),
                          shifts |-> SetToSeq(InsideShifts(cfg.img, 3, 3))]))
      [] mode = "corr" ->
           PrintT(ToJson([kind |-> "corr", n |-> cfg.ny, nx |-> cfg.nx, pad |-> cfg.pad, th |-> cfg.th, s |-> cfg.s,
                          img |-> Rows(cfg.ny, cfg.nx, cfg.img), ref |-> Rows(cfg.ny, cfg.nx, cfg.ref),
                          impl |-> res, fits |-> CorrFits, neartie |-> NearTie,
                          expected |-> CorrExpected]))
      [] mode = "quad" ->
           PrintT(ToJson([kind |-> "quad", img |-> Rows(2, 2, cfg.img), impl |-> res]))
=============================================================================
