SPECIFICATION Spec
CONSTANTS
  NrSet = {2, 3, 4}
  NOrders = 3
  Emit = TRUE
INVARIANT SelectionIsDef
INVARIANT NonIncreasing
INVARIANT PistonNeverSelected
INVARIANT PairsGetCosAndSin
INVARIANT RowsUsedAreWritten
INVARIANT CountsAddUp
INVARIANT InScope
INVARIANT EmitCase
CHECK_DEADLOCK FALSE
