------------------------------- MODULE Fourier -------------------------------
(***************************************************************************)
(* Scaled Fourier transforms (property C09): aotools/fouriertransform.py   *)
(* ft, ift, ft2, ift2, rft, irft, rft2, irft2 and the look-alike            *)
(* aotools/turbulence/phasescreen.py ift2.                                  *)
(*                                                                         *)
(* Every transform is a pipeline   roll(out) o DFT(+/-) o roll(in) * scalar *)
(* along each transformed axis.  Its matrix entry is                        *)
(*       Op[j, i] = scalar * zeta_N ^ E[j, i],   zeta_N = exp(-2 pi i / N)  *)
(* so everything the property asks (inverse pair, Parseval, centring,       *)
(* shift theorem) is a statement about integer exponent tables, decided     *)
(* exactly: a sum  sum_k zeta^(a k + b)  is N zeta^b if a = 0 mod N and 0   *)
(* otherwise.                                                               *)
(*   numpy.fft.fftshift  = roll by  N div 2,  ifftshift = roll by -(N div 2)*)
(*   roll(s): y[j] = x[(j - s) mod N]                                       *)
(***************************************************************************)
EXTENDS FourierOps, TLC, Json

CONSTANTS MaxLen,      \* lengths 1..MaxLen
          ClaimReal,   \* TRUE: also require the inverse-pair law of the real-input variants (known not to hold)
          Emit

VARIABLES pc, cfg, tab
vars == <<pc, cfg, tab>>

-----------------------------------------------------------------------------
Fns == {"ft", "ift", "ps_ift2"}
Init == /\ pc = "build" /\ tab = <<>>
        /\ \E N \in 1..MaxLen, fn \in Fns : cfg = [fn |-> fn, N |-> N]
Build == /\ pc = "build" /\ tab' = Table(cfg.fn, cfg.N) /\ pc' = "done" /\ UNCHANGED cfg
Next == Build
Spec == Init /\ [][Next]_vars

Done == pc = "done"
N == cfg.N
C == Half(N)          \* the centre sample (and the centre frequency bin)

\* ft and ift are mutual inverses, in both orders, for every length (the 1/N of ifft and N delta_f * delta = 1 cancel)
InversePair == (Done /\ cfg.fn = "ft") =>
    /\ IsIdentity(Table("ift", N), tab, N)
    /\ IsIdentity(tab, Table("ift", N), N)
\* Parseval: |scalar|^2 * N = delta/delta_f for ft (delta^2 N = delta * (N delta)) - the operator part is RowsOrthogonal
Parseval == (Done /\ cfg.fn \in {"ft", "ift"}) => RowsOrthogonal(tab, N)
\* origin at the centre sample: an impulse at the centre transforms to a constant with zero phase
Centred == (Done /\ cfg.fn \in {"ft", "ift"}) => \A j \in 0..(N-1) : tab[j][C] = 0
\* shift theorem: an impulse k samples from the centre multiplies the spectrum by the matching linear phase
ShiftTheorem == (Done /\ cfg.fn = "ft") =>
    \A j \in 0..(N-1), i \in 0..(N-1) : tab[j][i] = ((j - C) * (i - C)) % N
ShiftTheoremInv == (Done /\ cfg.fn = "ift") =>
    \A j \in 0..(N-1), i \in 0..(N-1) : tab[j][i] = (N - (((j - C) * (i - C)) % N)) % N
\* the screen module's private inverse transform is NOT the inverse of ft for odd lengths (it must not be exported as ift2)
PsIft2IsInverseOnlyForEvenN == (Done /\ cfg.fn = "ps_ift2") =>
    (IsIdentity(tab, Table("ft", N), N) <=> (N % 2 = 0 \/ N = 1))

\* ---- real-input variants: lengths and scale --------------------------------------------------------------------
\* rft of length N returns M = N div 2 + 1 bins; irft of M bins returns 2 (M - 1) samples and multiplies by M * delta_f
RealRoundTripLength(n) == 2 * ((n \div 2 + 1) - 1)
RealPairLengthOK == (ClaimReal /\ Done /\ cfg.fn = "ft") => RealRoundTripLength(N) = N
RealPairScaleOK == (ClaimReal /\ Done /\ cfg.fn = "ft") => (N \div 2 + 1) = N        \* delta * M * delta_f = M / N must be 1

EmitCase == (Emit /\ Done) => PrintT(ToJson([kind |-> "table", fn |-> cfg.fn, N |-> N, E |-> [j \in 1..N |-> [i \in 1..N |-> tab[j-1][i-1]]],
                                             centre |-> C, fwd |-> Pipe(cfg.fn, N).fwd]))
=============================================================================
