SPECIFICATION Spec
CONSTANTS
  MaxN = 5
  Strengths = {0, 1, 3}
  MaxR = 2
  MaxIter = 200
  ScanMax = 400
  ScanL = 40
  BigN = {6, 7}
  ArangeEdges = FALSE
  Emit = TRUE
INVARIANT ExactlyL
INVARIANT TotalConserved
INVARIANT NonNegative
INVARIANT HeightsAreInputHeightsIncreasing
INVARIANT GroupsPartition
INVARIANT NoWorseThanEqualSplit
INVARIANT Terminates
INVARIANT ELExactlyL
INVARIANT ELTotalConserved
INVARIANT ELMomentAdditive
INVARIANT EmitCase
CHECK_DEADLOCK FALSE
