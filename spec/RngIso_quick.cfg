SPECIFICATION Spec
CONSTANTS
  Depth = 4
  BugGlobalFallback = FALSE
  BugSharedInstance = FALSE
  Emit = FALSE
VIEW AbstractView
INVARIANT Reproducible
INVARIANT SeedsDiffer
INVARIANT GlobalUntouched
PROPERTY Isolated
PROPERTY GlobalOnlyByGlobalActions
CHECK_DEADLOCK FALSE
