SPECIFICATION Spec
CONSTANTS
  NPairs = 6
  NLayers = 2
  MaxK = 4
  MaxBuilds = 2
  BugUnordered = FALSE
  BugNoReset = FALSE
  Emit = TRUE
INVARIANT SameAsSequential
INVARIANT EveryTaskConsumedOnce
INVARIANT AtMostKRunning
INVARIANT EmitBuild
PROPERTY NoCarryOver
CHECK_DEADLOCK FALSE
