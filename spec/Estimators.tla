----------------------------- MODULE Estimators -----------------------------
(***************************************************************************)
(* Empirical estimators of property C19.                                   *)
(*   calculate_structure_function  slopecovariance.py:434-458              *)
(*   calc_slope_temporalps         temporal_ps.py:16-45                    *)
(*   get_tps_time_axis             temporal_ps.py:48-60                    *)
(* Exact arithmetic: means are <<sum, count>>; the DFT over 2, 4 frames is  *)
(* in Z[i], over 8 frames in Z[i][h] with h = sqrt(2)/2, numbers written    *)
(* <<a, b>> = a + b*h.                                                      *)
(***************************************************************************)
EXTENDS Integers, Sequences, FiniteSets, FiniteSetsExt, TLC, Json

CONSTANTS SFFull,      \* TRUE: all 3x3 arrays over 0..2
          SFMaxDim,    \* structured arrays up to SFMaxDim x SFMaxDim
          TPSFull8,    \* TRUE: all 8-frame single-sub-aperture inputs over -1..1
          Emit

VARIABLES mode, pc, cfg, work, i, res
vars == <<mode, pc, cfg, work, i, res>>

Min2(a, b) == IF a < b THEN a ELSE b
Rows(h, w, f) == [a \in 1..h |-> [b \in 1..w |-> f[<<a-1, b-1>>]]]

-----------------------------------------------------------------------------
(* ---------- structure function ---------- *)
\* Def: sf[0] = 0, sf[j] = mean over all rows r and columns c of (phase[r, c] - phase[r + j*step, c])^2
SqDiff(ph, R, C, lag) ==
    << MapThenSumSet(LAMBDA p : (ph[p] - ph[<<p[1] + lag, p[2]>>]) * (ph[p] - ph[<<p[1] + lag, p[2]>>]),
                     (0 .. R-1-lag) \X (0 .. C-1)),
       (IF R - lag > 0 THEN R - lag ELSE 0) * C >>
SFDef(ph, R, C, xm, step) == [j \in 1..xm |-> IF j = 1 THEN <<0, 1>> ELSE SqDiff(ph, R, C, (j-1)*step)]

\* Impl: xm = int(min(nbOfPoint, shape[1]/step - 1)); nbOfPoint defaults to shape[1]/4 (a float); nb4 = 4*nbOfPoint
\* int() truncates; all quantities here are >= 0 so it is a floor:  min(nb4/4, C/step - 1)
Xm(nb4, C, step) == Min2(nb4 \div 4, (C - step) \div step)

SFAlloc ==   \* sf_x = numpy.zeros(xm)
    /\ mode = "sf" /\ pc = "alloc"
    /\ work' = [j \in 1..cfg.xm |-> <<0, 1>>]
    /\ i' = cfg.step
    /\ pc' = IF cfg.step < cfg.xm * cfg.step THEN "loop" ELSE "done"
    /\ res' = IF cfg.step < cfg.xm * cfg.step THEN res ELSE [j \in 1..cfg.xm |-> <<0, 1>>]
    /\ UNCHANGED <<mode, cfg>>

SFLoop ==    \* for i in range(step, xm*step, step): sf_x[i/step] = mean((phase[0:-i] - phase[i:])**2)
    /\ mode = "sf" /\ pc = "loop"
    /\ LET w2 == [work EXCEPT ![(i \div cfg.step) + 1] = SqDiff(cfg.ph, cfg.R, cfg.C, i)]
       IN  /\ work' = w2
           /\ IF i + cfg.step < cfg.xm * cfg.step THEN i' = i + cfg.step /\ pc' = pc /\ res' = res
              ELSE i' = i /\ pc' = "done" /\ res' = w2
    /\ UNCHANGED <<mode, cfg>>

SFDone == mode = "sf" /\ pc = "done"
SFIsDef == SFDone => res = SFDef(cfg.ph, cfg.R, cfg.C, cfg.xm, cfg.step)
LagZeroIsZero == SFDone => res[1][1] = 0
\* a ramp of slope a along the first axis (plus anything constant along it) gives exactly a^2 (j*step)^2
RampLaw == (SFDone /\ cfg.kind = "ramp" /\ cfg.e = 0) =>
    \A j \in 1..cfg.xm : res[j][2] > 0 => res[j][1] = cfg.a * cfg.a * ((j-1)*cfg.step) * ((j-1)*cfg.step) * res[j][2]
Quadratic == SFDone =>
    LET ph3 == [p \in DOMAIN cfg.ph |-> 3 * cfg.ph[p]]
        d3 == SFDef(ph3, cfg.R, cfg.C, cfg.xm, cfg.step)
    IN  \A j \in 1..cfg.xm : d3[j][1] * res[j][2] = 9 * res[j][1] * d3[j][2]

-----------------------------------------------------------------------------
(* ---------- temporal power spectrum ---------- *)
\* numbers a + b*h, h = sqrt(2)/2, h*h = 1/2 ; complex numbers <<re, im>> with re, im such numbers
Z0 == <<0, 0>>
Add(x, y) == <<x[1] + y[1], x[2] + y[2]>>
Neg(x) == <<-x[1], -x[2]>>
MulH(x) == \* x * h  -> needs halves: we keep everything doubled where MulH is used (see Twiddle)
           <<x[2], 2*x[1]>>          \* (a + b h) * 2h = 2a h + b  ->  <<b, 2a>>   (result is 2h*x)
\* multiplication of the integer sample s by twice the twiddle factor exp(-2 pi i k t / n), n in {2,4,8}:
\* returns <<re, im>> of 2 * s * w   (the factor 2 keeps h-multiples integral)
Twiddle2(s, e8) ==   \* e8 = exponent in eighths of a turn, w = exp(-2 pi i e8 / 8)
    LET e == e8 % 8 IN
    CASE e = 0 -> << <<2*s, 0>>, Z0 >>
      [] e = 1 -> << <<0, 2*s>>, <<0, -2*s>> >>          \* (h - i h) * 2s
      [] e = 2 -> << Z0, <<-2*s, 0>> >>
      [] e = 3 -> << <<0, -2*s>>, <<0, -2*s>> >>
      [] e = 4 -> << <<-2*s, 0>>, Z0 >>
      [] e = 5 -> << <<0, -2*s>>, <<0, 2*s>> >>
      [] e = 6 -> << Z0, <<2*s, 0>> >>
      [] e = 7 -> << <<0, 2*s>>, <<0, 2*s>> >>
CAdd(x, y) == << Add(x[1], y[1]), Add(x[2], y[2]) >>
RECURSIVE DftSum(_, _, _, _, _)
DftSum(x, n, k, s, t) ==    \* sum over frames t..n-1 of 2*x[t, s]*w^(k t)
    IF t = n THEN <<Z0, Z0>> ELSE CAdd(Twiddle2(x[<<t, s>>], k * t * (8 \div n)), DftSum(x, n, k, s, t + 1))
\* |2X|^2 = 4|X|^2 as c + d*h :  (a + b h)^2 = a^2 + b^2/2 + 2ab h ; doubled once more to stay integral -> 8|X|^2
Sq8(u) == << 2*u[1]*u[1] + u[2]*u[2], 4*u[1]*u[2] >>
Pow8(X) == Add(Sq8(X[1]), Sq8(X[2]))                  \* 8 |X|^2  as <<c, d>> = c + d h
\* Def: mean over sub-apertures of |X_k|^2, k = 0 .. n/2-1  (stored as the SUM over sub-apertures of 8|X|^2)
PowerTable(x, n, S) == [k \in 0..(n-1) |-> [s \in 0..(S-1) |-> Pow8(DftSum(x, n, k, s, 0))]]
RECURSIVE SumSeqH(_, _)
SumSeqH(f, S) == IF S = 0 THEN Z0 ELSE Add(f[S-1], SumSeqH(f, S-1))
TPSDef(x, n, S) == [k \in 1..(n \div 2) |-> SumSeqH(PowerTable(x, n, S)[k-1], S)]

TPSFft ==      \* numpy.fft.fft(slope_data, axis=-2)
    /\ mode = "tps" /\ pc = "fft"
    /\ work' = [k \in 0..(cfg.n-1) |-> [s \in 0..(cfg.S-1) |-> DftSum(cfg.x, cfg.n, k, s, 0)]]
    /\ pc' = "half" /\ UNCHANGED <<mode, cfg, i, res>>
TPSHalf ==     \* [..., :int(n_frames/2), :]
    /\ mode = "tps" /\ pc = "half"
    /\ work' = [k \in 0..((cfg.n \div 2)-1) |-> work[k]]
    /\ pc' = "abs2" /\ UNCHANGED <<mode, cfg, i, res>>
TPSAbs2 ==     \* abs(..)**2   (once)
    /\ mode = "tps" /\ pc = "abs2"
    /\ work' = [k \in DOMAIN work |-> [s \in 0..(cfg.S-1) |-> Pow8(work[k][s])]]
    /\ pc' = "mean" /\ UNCHANGED <<mode, cfg, i, res>>
TPSMean ==     \* tps.mean(-1)
    /\ mode = "tps" /\ pc = "mean"
    /\ res' = [k \in 1..(cfg.n \div 2) |-> SumSeqH(work[k-1], cfg.S)]
    /\ pc' = "done" /\ UNCHANGED <<mode, cfg, i, work>>

TPSDone == mode = "tps" /\ pc = "done"
TPSIsDef == TPSDone => res = TPSDef(cfg.x, cfg.n, cfg.S)
\* real-signal Parseval on the whole spectrum: n * sum_t x^2 = sum_k |X_k|^2, per sub-aperture (times 8)
Energy(x, n, s) == MapThenSumSet(LAMBDA t : x[<<t, s>>] * x[<<t, s>>], 0..(n-1))
Parseval == TPSDone =>
    \A s \in 0..(cfg.S-1) :
        LET pt == PowerTable(cfg.x, cfg.n, cfg.S)
            tot == MapThenSumSet(LAMBDA k : pt[k][s][1], 0..(cfg.n-1))
            toth == MapThenSumSet(LAMBDA k : pt[k][s][2], 0..(cfg.n-1))
        IN  tot = 8 * cfg.n * Energy(cfg.x, cfg.n, s) /\ toth = 0
\* the returned half spectrum carries, for signals without DC and Nyquist components, exactly half the energy
ParsevalHalf == (TPSDone /\ cfg.S = 1) =>
    LET pt == PowerTable(cfg.x, cfg.n, 1)
    IN  (pt[0][0] = Z0 /\ pt[cfg.n \div 2][0] = Z0) =>
          2 * MapThenSumSet(LAMBDA k : res[k][1], 1..(cfg.n \div 2)) = 8 * cfg.n * Energy(cfg.x, cfg.n, 0)
TPSQuadratic == TPSDone =>
    LET x3 == [p \in DOMAIN cfg.x |-> 3 * cfg.x[p]]
    IN  TPSDef(x3, cfg.n, cfg.S) = [k \in 1..(cfg.n \div 2) |-> <<9 * res[k][1], 9 * res[k][2]>>]
\* a pure sinusoid at bin k0 puts all the returned power into bin k0
PeakAtBin == (TPSDone /\ cfg.kind = "sin") =>
    \A k \in 1..(cfg.n \div 2) : (k - 1 # cfg.k0) => res[k] = Z0
PeakNonZero == (TPSDone /\ cfg.kind = "sin") => res[cfg.k0 + 1] # Z0

-----------------------------------------------------------------------------
Grid(R, C) == (0 .. R-1) \X (0 .. C-1)
Cos4 == <<1, 0, -1, 0>>
Init ==
    /\ i = 0 /\ res = <<>> /\ work = <<>>
    /\ \/ /\ SFFull /\ mode = "sf" /\ pc = "choose" /\ cfg = [kind |-> "full", R |-> 3, C |-> 3]
       \/ \E R \in 3..SFMaxDim, C \in 3..SFMaxDim, a \in -2..2, b \in 0..1 :
             mode = "sf" /\ pc = "choose" /\ cfg = [kind |-> "ramp", R |-> R, C |-> C, a |-> a, b |-> b]
       \/ \E n \in {2, 4}, S \in 1..2 : mode = "tps" /\ pc = "choose" /\ cfg = [kind |-> "full", n |-> n, S |-> S]
       \/ /\ TPSFull8 /\ mode = "tps" /\ pc = "choose" /\ cfg = [kind |-> "full", n |-> 8, S |-> 1]
       \/ mode = "tps" /\ pc = "choose" /\ cfg = [kind |-> "sparse8", n |-> 8, S |-> 2]
       \/ \E n \in {4, 8}, ph \in 0..1 : mode = "tps" /\ pc = "choose" /\ cfg = [kind |-> "sin", n |-> n, S |-> 2, ph |-> ph]

Choose ==
    /\ pc = "choose"
    /\ \/ /\ mode = "sf" /\ cfg.kind = "full"
          /\ \E ph \in [Grid(3, 3) -> 0..2], nb4 \in {3, 4, 8, 12}, step \in {1} :
                /\ Xm(nb4, 3, step) >= 1
                /\ cfg' = cfg @@ [ph |-> ph, nb4 |-> nb4, step |-> step, xm |-> Xm(nb4, 3, step), e |-> 0]
          /\ pc' = "alloc"
       \/ /\ mode = "sf" /\ cfg.kind = "ramp"
          /\ \E e \in 0..1, r0 \in {0, cfg.R - 1, 1}, c0 \in {0, cfg.C - 1}, step \in 1..3, nb4 \in {cfg.C, 8, 4*cfg.C} :
                /\ Xm(nb4, cfg.C, step) >= 1
                /\ (e = 0 => (r0 = 0 /\ c0 = 0))
                /\ cfg' = cfg @@ [ph |-> [p \in Grid(cfg.R, cfg.C) |-> cfg.a * p[1] + cfg.b * p[2] * p[2]
                                                                       + (IF p = <<r0, c0>> THEN e ELSE 0)],
                                  nb4 |-> nb4, step |-> step, xm |-> Xm(nb4, cfg.C, step), e |-> e]
          /\ pc' = "alloc"
       \/ /\ mode = "tps" /\ cfg.kind = "full"
          /\ \E x \in [Grid(cfg.n, cfg.S) -> -1..1] : cfg' = cfg @@ [x |-> x]
          /\ pc' = "fft"
       \/ /\ mode = "tps" /\ cfg.kind = "sparse8"
          /\ \E p1 \in Grid(8, 2), p2 \in Grid(8, 2), v1 \in {1, 2}, v2 \in {-1, 0, 3} :
                cfg' = cfg @@ [x |-> [p \in Grid(8, 2) |-> (IF p = p1 THEN v1 ELSE 0) + (IF p = p2 THEN v2 ELSE 0)]]
          /\ pc' = "fft"
       \/ /\ mode = "tps" /\ cfg.kind = "sin"
          /\ \E amp \in 1..2 :
                LET k0 == cfg.n \div 4                          \* the bin whose sinusoid has integer samples
                IN  cfg' = cfg @@ [k0 |-> k0,
                                   x |-> [p \in Grid(cfg.n, 2) |-> (p[2] + 1) * amp * Cos4[((p[1] + cfg.ph) % 4) + 1]]]
          /\ pc' = "fft"
    /\ UNCHANGED <<mode, i, work, res>>

Next == Choose \/ SFAlloc \/ SFLoop \/ TPSFft \/ TPSHalf \/ TPSAbs2 \/ TPSMean
Spec == Init /\ [][Next]_vars

EmitCase == (Emit /\ pc = "done") =>
    IF mode = "sf"
    THEN PrintT(ToJson([kind |-> "sf", R |-> cfg.R, C |-> cfg.C, ph |-> Rows(cfg.R, cfg.C, cfg.ph), nb4 |-> cfg.nb4,
                        step |-> cfg.step, xm |-> cfg.xm, sf |-> res, a |-> IF cfg.kind = "ramp" /\ cfg.e = 0 /\ cfg.b = 0 THEN cfg.a ELSE 99]))
    ELSE PrintT(ToJson([kind |-> "tps", n |-> cfg.n, S |-> cfg.S, x |-> Rows(cfg.n, cfg.S, cfg.x), tps8 |-> res,
                        pow8 |-> [k \in 1..(cfg.n \div 2) |-> [s \in 1..cfg.S |-> PowerTable(cfg.x, cfg.n, cfg.S)[k-1][s-1]]],
                        k0 |-> IF cfg.kind = "sin" THEN cfg.k0 ELSE -1]))
=============================================================================
