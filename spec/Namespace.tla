------------------------------ MODULE Namespace ------------------------------
(***************************************************************************)
(* How the top-level package binds names (property C09, "as exported by    *)
(* the package"): aotools/__init__.py is a sequence of import statements;  *)
(* `from X import *` binds every public name of X (its __all__ if it has   *)
(* one, otherwise every global not starting with an underscore - including *)
(* helpers and imported modules), and a later statement overwrites an      *)
(* earlier binding of the same name.                                       *)
(*                                                                         *)
(* The statement list is recorded from the real package (static parse of   *)
(* the __init__ files, names and origins from the imported sub-modules)    *)
(* and replayed here; the final environment must equal the observed        *)
(* vars(aotools), and the Fourier API must still be bound to the Fourier   *)
(* module.                                                                 *)
(***************************************************************************)
EXTENDS Integers, Sequences, FiniteSets, TLC, Json, IOUtils

Program == JsonDeserialize(IOEnv.NS_FILE)
\* Program.statements : sequence of [module, names, dels] ; names : sequence of <<name, origin>> ; dels : names deleted
\* Program.observed   : sequence of <<name, origin>>   (final vars(aotools), restricted to names bound by the statements)
\* Program.fourier    : sequence of names that make up the Fourier API
\* Program.api        : sequence of <<name, owner>>: every public function / class DEFINED in a star-imported sub-module, with that
\*                      sub-module as its owner (any package of the library can be replayed, not only the top-level one)

VARIABLES env, pc
vars == <<env, pc>>

Stmts == Program.statements
Init == env = {} /\ pc = 1

\* executing statement k: every name it exports is (re)bound - the last writer wins
Bind(e, names) == { b \in e : \A i \in 1..Len(names) : names[i][1] # b[1] } \cup { <<names[i][1], names[i][2]>> : i \in 1..Len(names) }
Unbind(e, dels) == { b \in e : \A i \in 1..Len(dels) : dels[i] # b[1] }          \* `del name`
Import == /\ pc <= Len(Stmts)
          /\ env' = Unbind(Bind(env, Stmts[pc].names), Stmts[pc].dels)
          /\ pc' = pc + 1
Next == Import
Spec == Init /\ [][Next]_vars

Finished == pc = Len(Stmts) + 1
Lookup(name) == { b[2] : b \in { c \in env : c[1] = name } }
\* a name has exactly one binding
SingleBinding == \A b1, b2 \in env : b1[1] = b2[1] => b1 = b2
\* the model of the import semantics reproduces what Python actually bound
EnvMatchesObserved == Finished => env = { <<Program.observed[i][1], Program.observed[i][2]>> : i \in 1..Len(Program.observed) }
\* every Fourier entry point exported by the package is the Fourier module's own
FourierAPIUnshadowed == Finished => \A i \in 1..Len(Program.fourier) : Lookup(Program.fourier[i]) = {"aotools.fouriertransform"}
\* no public function or class of a sub-module is shadowed by a later import of the same name from somewhere else
APIUnshadowed == Finished => \A i \in 1..Len(Program.api) : Lookup(Program.api[i][1]) = {Program.api[i][2]}
\* reported, not a listed property: names that are bound more than once on the way (shadowing events)
ShadowingEvents == [k \in 1..Len(Stmts) |-> Stmts[k].module]

Report == Finished => PrintT(ToJson([kind |-> "namespace", bound |-> Cardinality(env),
                                     fourier |-> [i \in 1..Len(Program.fourier) |-> <<Program.fourier[i], Lookup(Program.fourier[i])>>]]))
=============================================================================
