------------------------------ MODULE ObjProtocol ------------------------------
(***************************************************************************)
(* The set-up protocol of an infinite phase screen object                   *)
(* (aotools/turbulence/infinitephasescreen.py) as a dataflow state machine: *)
(* which PARAMETER VERSION each derived attribute was computed from.        *)
(*                                                                         *)
(*   cov_mat  = f(separations, r0, L0)          make_covmats()              *)
(*   A_mat    = g(cov_mat)                      makeAMatrix()               *)
(*   B_mat    = h(cov_mat, A_mat)               makeBMatrix()               *)
(*   add_row  uses A_mat, B_mat                                            *)
(*                                                                         *)
(* The user may assign r0 / L0 at any time (SetParams) and call the public *)
(* set-up methods in any order.  The model predicts, for every history,     *)
(* which version every matrix reflects; the driver replays the history on   *)
(* a real object and compares each matrix with the one a FRESH object of    *)
(* that version holds (bit for bit: the attributes are functions of the     *)
(* parameters, not of the history).  Run by `./check growth`.               *)
(***************************************************************************)
EXTENDS Integers, Sequences, FiniteSets, TLC, Json

CONSTANTS Versions,     \* parameter versions 1..n (version 1 is what the constructor got)
          Depth, Emit

VARIABLES par, covv, Av, Bv, rows, hist
vars == <<par, covv, Av, Bv, rows, hist>>

Init == par = 1 /\ covv = 1 /\ Av = 1 /\ Bv = <<1, 1>> /\ rows = <<>> /\ hist = <<>>

Log(op, arg) == hist' = Append(hist, [op |-> op, arg |-> arg])

SetParams(v) == /\ v # par /\ par' = v /\ Log("set", v) /\ UNCHANGED <<covv, Av, Bv, rows>>
MakeCov      == /\ covv' = par /\ Log("make_covmats", 0) /\ UNCHANGED <<par, Av, Bv, rows>>
MakeA        == /\ Av' = covv /\ Log("makeAMatrix", 0) /\ UNCHANGED <<par, covv, Bv, rows>>
MakeB        == /\ Bv' = <<covv, Av>> /\ Log("makeBMatrix", 0) /\ UNCHANGED <<par, covv, Av, rows>>
\* a row is generated with whatever A and B the object holds at that moment
AddRow       == /\ rows' = Append(rows, <<Av, Bv>>) /\ Log("add_row", 0) /\ UNCHANGED <<par, covv, Av, Bv>>

Next == /\ Len(hist) < Depth
        /\ \/ \E v \in Versions : SetParams(v)
           \/ MakeCov \/ MakeA \/ MakeB \/ AddRow
Spec == Init /\ [][Next]_vars

-----------------------------------------------------------------------------
Consistent == covv = par /\ Av = par /\ Bv = <<par, par>>
\* the documented way to re-parameterise: assign, then the three set-up methods in their order - afterwards the object is consistent
EndsWith(s, t) == Len(s) >= Len(t) /\ SubSeq(s, Len(s) - Len(t) + 1, Len(s)) = t
Ops == [i \in 1..Len(hist) |-> hist[i].op]
RebuildRestoresConsistency == EndsWith(Ops, <<"make_covmats", "makeAMatrix", "makeBMatrix">>) => Consistent
\* without a rebuild a parameter change reaches nothing (rows keep following the old law): the object never guesses
StaleUntilRebuilt == [][ hist'[Len(hist')].op = "set" => (covv' = covv /\ Av' = Av /\ Bv' = Bv) ]_vars
\* B never reflects a newer covariance than the one it was computed from, A never a newer one than the covariance
NoTimeTravel == Av <= Cardinality(Versions) /\ Bv[1] \in Versions /\ Bv[2] \in Versions
\* every generated row used matrices that existed at that time
RowsUseHeldMatrices == \A i \in 1..Len(rows) : rows[i][1] \in Versions /\ rows[i][2][1] \in Versions

EmitCase == (Emit /\ Len(hist) = Depth) =>
    PrintT(ToJson([kind |-> "protocol", hist |-> hist, par |-> par, covv |-> covv, Av |-> Av, Bv |-> Bv, consistent |-> Consistent, rows |-> rows]))
=============================================================================
