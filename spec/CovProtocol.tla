------------------------------ MODULE CovProtocol ------------------------------
(***************************************************************************)
(* The life cycle of a slopecovariance.CovarianceMatrix object as a         *)
(* dataflow state machine: the user may assign configuration attributes     *)
(* (guide-star directions, layer profile) and the worker count at any time, *)
(* build the matrix, and derive a tomographic reconstructor from it, in any *)
(* order and any number of times.                                           *)
(*                                                                         *)
(*   covariance_matrix    = F(configuration)      make_covariance_matrix()  *)
(*   reconstructor        = G(covariance_matrix)  make_tomographic_...()    *)
(*                                                                         *)
(* The model predicts which configuration version the held matrix and the   *)
(* last reconstructor reflect.  The driver replays every history on a real  *)
(* object (worker counts > 1 through the controlled pool of C03) and        *)
(* requires: the held matrix is bit-identical to the matrix a FRESH object  *)
(* of that version builds single-process; the reconstructor equals the one  *)
(* computed from that fresh matrix; deriving a reconstructor changes        *)
(* nothing.  (Ties together C01's reconfigure case, C02's rebuild case and  *)
(* C03's rebuild histories; run by `./check growth` and by C02.)            *)
(***************************************************************************)
EXTENDS Integers, Sequences, FiniteSets, TLC, Json

CONSTANTS Versions, Workers, Depth, Emit

VARIABLES cfgv, thr, matv, recv, hist
vars == <<cfgv, thr, matv, recv, hist>>

None == 0
Init == cfgv = 1 /\ thr = 1 /\ matv = None /\ recv = None /\ hist = <<>>
Log(op, arg) == hist' = Append(hist, [op |-> op, arg |-> arg])

SetConfig(v)  == /\ v # cfgv /\ cfgv' = v /\ Log("set", v) /\ UNCHANGED <<thr, matv, recv>>
SetWorkers(k) == /\ k # thr /\ thr' = k /\ Log("threads", k) /\ UNCHANGED <<cfgv, matv, recv>>
Build         == /\ matv' = cfgv /\ Log("build", thr) /\ UNCHANGED <<cfgv, thr, recv>>
Tomo          == /\ matv # None /\ recv' = matv /\ Log("tomo", 0) /\ UNCHANGED <<cfgv, thr, matv>>

Next == /\ Len(hist) < Depth
        /\ \/ \E v \in Versions : SetConfig(v)
           \/ \E k \in Workers : SetWorkers(k)
           \/ Build \/ Tomo
Spec == Init /\ [][Next]_vars

-----------------------------------------------------------------------------
\* a build is a function of the configuration it finds: neither the worker count nor anything built before enters
BuildReflectsCurrentConfig == [][ hist'[Len(hist')].op = "build" => matv' = cfgv ]_vars
\* nothing but a build changes the matrix (in particular: deriving a reconstructor, or assigning attributes, does not)
OnlyBuildChangesMatrix == [][ hist'[Len(hist')].op # "build" => matv' = matv ]_vars
\* the reconstructor is the one of the matrix held when it was derived
TomoReflectsHeldMatrix == [][ hist'[Len(hist')].op = "tomo" => recv' = matv ]_vars

EmitCase == (Emit /\ Len(hist) = Depth) => PrintT(ToJson([kind |-> "covprotocol", hist |-> hist, cfgv |-> cfgv, thr |-> thr, matv |-> matv, recv |-> recv]))
=============================================================================
