-------------------------------- MODULE Units --------------------------------
(***************************************************************************)
(* Atmospheric / photometric conversions (property C17):                   *)
(* turbulence/atmos_conversions.py :12-202, astronomy/_astronomy.py :5-109 *)
(*                                                                         *)
(* Every converter is a MONOMIAL  c * prod_s s^(e_s)  in its arguments     *)
(* (magnitude <-> flux: an affine map in log10).  The recorder measures    *)
(* the monomial of each real function (exponents as exact rationals        *)
(* recovered from scaling experiments, coefficient as round(1e6 log10 c))  *)
(* and this module decides the DIAGRAM the statement requires - inverse    *)
(* pairs, composites, scaling laws, single-layer reductions - which, being *)
(* identities between monomials, hold for ALL positive arguments.          *)
(* Second part: the axis argument of the profile integrals, as index-level *)
(* dataflow over token arrays (which input cells are summed into which     *)
(* output cell).                                                           *)
(***************************************************************************)
EXTENDS Integers, Sequences, FiniteSets, TLC, Json, IOUtils

CONSTANTS Mode,      \* "diagram" | "axis"
          MaxExtent, \* axis mode: extents 1..MaxExtent, ranks 1..3
          Emit

VARIABLES pc, k, cfg
vars == <<pc, k, cfg>>

Mono == IF Mode = "diagram" THEN JsonDeserialize(IOEnv.MONO_FILE) ELSE [fns |-> <<>>, bands |-> <<>>]
\* Mono.fns   : record  name -> [logc, exps]  with exps a record  symbol -> <<num, den>>  (missing symbol = exponent 0)
\* Mono.bands : sequence of [band, m2f = [slope, off], f2m = [slope, off], area, time]  (slopes <<num, den>>, offsets scaled by 1e6)

\* ---- rationals
RECURSIVE Gcd(_, _)
Gcd(a, b) == IF b = 0 THEN (IF a < 0 THEN -a ELSE a) ELSE Gcd(b, a % b)
R(n, d) == LET g == Gcd(IF n < 0 THEN -n ELSE n, IF d < 0 THEN -d ELSE d)
               s == IF d < 0 THEN -1 ELSE 1
           IN  IF n = 0 THEN <<0, 1>> ELSE <<(s * n) \div g, (s * d) \div g>>
RMul(a, b) == R(a[1] * b[1], a[2] * b[2])
RAdd(a, b) == R(a[1] * b[2] + b[1] * a[2], a[2] * b[2])
Q(n, d) == R(n, d)

F(name) == Mono.fns[name]
Ex(name, sym) == IF sym \in DOMAIN F(name).exps THEN R(F(name).exps[sym][1], F(name).exps[sym][2]) ELSE <<0, 1>>
\* |x| <= tol for scaled log-coefficients
Near(x, tol) == x <= tol /\ -x <= tol

\* g after f through variable `via` (f's output feeds g's argument `via`); other symbols are shared parameters
CompExp(g, f, via, sym) == RAdd(RMul(Ex(g, via), Ex(f, sym)), IF sym = via THEN <<0, 1>> ELSE Ex(g, sym))
\* log10 coefficient of the composite, times the denominator of g's exponent in `via` (to stay in the integers)
CompLogTimesDen(g, f, via) == F(g).logc * Ex(g, via)[2] + Ex(g, via)[1] * F(f).logc

\* g(f(x)) = x : exponent 1 in x, 0 in every shared parameter, coefficient 1
IsInversePair(g, f, via, x, params) ==
    /\ CompExp(g, f, via, x) = <<1, 1>>
    /\ \A s \in params : CompExp(g, f, via, s) = <<0, 1>>
    /\ Near(CompLogTimesDen(g, f, via), 3 * Ex(g, via)[2])
\* h = g after f
IsComposite(h, g, f, via, syms) ==
    /\ \A s \in syms : Ex(h, s) = CompExp(g, f, via, s)
    /\ Near(F(h).logc * Ex(g, via)[2] - CompLogTimesDen(g, f, via), 3 * Ex(g, via)[2])

Clauses == <<
  [id |-> "cn2_to_r0(r0_to_cn2) = id",   ok |-> IsInversePair("cn2_to_r0", "r0_to_cn2", "cn2", "r0", {"lamda"})],
  [id |-> "r0_to_cn2(cn2_to_r0) = id",   ok |-> IsInversePair("r0_to_cn2", "cn2_to_r0", "r0", "cn2", {"lamda"})],
  [id |-> "r0_to_seeing(seeing_to_r0) = id", ok |-> IsInversePair("r0_to_seeing", "seeing_to_r0", "r0", "seeing", {"lamda"})],
  [id |-> "seeing_to_r0(r0_to_seeing) = id", ok |-> IsInversePair("seeing_to_r0", "r0_to_seeing", "seeing", "r0", {"lamda"})],
  [id |-> "cn2_to_seeing(seeing_to_cn2) = id", ok |-> IsInversePair("cn2_to_seeing", "seeing_to_cn2", "cn2", "seeing", {"lamda"})],
  [id |-> "seeing_to_cn2(cn2_to_seeing) = id", ok |-> IsInversePair("seeing_to_cn2", "cn2_to_seeing", "seeing", "cn2", {"lamda"})],
  [id |-> "cn2_to_seeing = r0_to_seeing o cn2_to_r0", ok |-> IsComposite("cn2_to_seeing", "r0_to_seeing", "cn2_to_r0", "r0", {"cn2", "lamda"})],
  [id |-> "seeing_to_cn2 = r0_to_cn2 o seeing_to_r0", ok |-> IsComposite("seeing_to_cn2", "r0_to_cn2", "seeing_to_r0", "r0", {"seeing", "lamda"})],
  [id |-> "r0 ~ lamda^(6/5) cn2^(-3/5)", ok |-> Ex("cn2_to_r0", "lamda") = Q(6, 5) /\ Ex("cn2_to_r0", "cn2") = Q(-3, 5)],
  [id |-> "seeing ~ lamda^(-1/5) at fixed cn2", ok |-> Ex("cn2_to_seeing", "lamda") = Q(-1, 5)],
  [id |-> "seeing ~ lamda / r0", ok |-> Ex("r0_to_seeing", "lamda") = Q(1, 1) /\ Ex("r0_to_seeing", "r0") = Q(-1, 1)],
  [id |-> "slope variance ~ lamda^2 r0^(-5/3) d^(-1/3)",
      ok |-> Ex("slope_variance_from_r0", "wavelength") = Q(2, 1) /\ Ex("slope_variance_from_r0", "r0") = Q(-5, 3) /\ Ex("slope_variance_from_r0", "subapDiam") = Q(-1, 3)],
  [id |-> "r0_from_slopes(slope_variance_from_r0) = id",
      ok |-> IsInversePair("r0_from_slopes", "slope_variance_from_r0", "slopevar", "r0", {"wavelength", "subapDiam"})],
  [id |-> "isoplanatic angle, one layer = 0.314 r0/h",
      ok |-> /\ Ex("isoplanaticAngle", "cn2") = Ex("iso_reference", "cn2") /\ Ex("isoplanaticAngle", "h") = Q(-1, 1)
             /\ Ex("isoplanaticAngle", "lamda") = Ex("iso_reference", "lamda")
             /\ Near(F("isoplanaticAngle").logc - F("iso_reference").logc, 4400)],          \* 1 % = 4321 units of 1e-6 log10
  [id |-> "coherence time, one layer = 0.314 r0/v",
      ok |-> /\ Ex("coherenceTime", "cn2") = Ex("tau_reference", "cn2") /\ Ex("coherenceTime", "v") = Q(-1, 1)
             /\ Ex("coherenceTime", "lamda") = Ex("tau_reference", "lamda")
             /\ Near(F("coherenceTime").logc - F("tau_reference").logc, 4400)]
>>

\* magnitude <-> flux per band: flux = 10^(off + slope * m), m = off' + slope' * log10 flux
BandOK(b) ==
    /\ R(b.m2f.slope[1], b.m2f.slope[2]) = Q(-2, 5)                            \* five magnitudes = a factor 100
    /\ RMul(R(b.m2f.slope[1], b.m2f.slope[2]), R(b.f2m.slope[1], b.f2m.slope[2])) = <<1, 1>>
    /\ Near(b.f2m.off * 2 - 5 * b.m2f.off, 12)                                 \* off' = -slope' * off = 2.5 off  (scaled, times 2)
    /\ R(b.area[1], b.area[2]) = <<1, 1>> /\ R(b.time[1], b.time[2]) = <<1, 1>>  \* photons ~ collecting area, exposure time
    /\ R(b.pxl[1], b.pxl[2]) = <<2, 1>>                                        \* area = number of open pixels * pixel scale^2

NC == Len(Clauses)
NB == Len(Mono.bands)

-----------------------------------------------------------------------------
(* ---------- axis dataflow ---------- *)
Shape == cfg.shape
Rank == Len(Shape)
Indices(sh) == IF Len(sh) = 1 THEN { <<a>> : a \in 0..(sh[1]-1) }
               ELSE IF Len(sh) = 2 THEN { <<a, b>> : a \in 0..(sh[1]-1), b \in 0..(sh[2]-1) }
               ELSE { <<a, b, c>> : a \in 0..(sh[1]-1), b \in 0..(sh[2]-1), c \in 0..(sh[3]-1) }
Drop(ix, ax) == [j \in 1..(Len(ix) - 1) |-> IF j < ax THEN ix[j] ELSE ix[j + 1]]
\* numpy: a negative axis counts from the end
NormAxis(ax, rank) == IF ax < 0 THEN rank + ax + 1 ELSE ax + 1            \* 1-based position
\* Def: output cell o collects exactly the input cells that agree with o on every axis but the summed one
SumAxisDef(sh, ax) == [o \in { Drop(ix, NormAxis(ax, Len(sh))) : ix \in Indices(sh) } |->
                          { ix \in Indices(sh) : Drop(ix, NormAxis(ax, Len(sh))) = o }]
SetToSeq(S) == LET RECURSIVE f(_) f(W) == IF W = {} THEN <<>> ELSE LET e == CHOOSE e \in W : TRUE IN <<e>> \o f(W \ {e}) IN f(S)

-----------------------------------------------------------------------------
Init == \/ /\ Mode = "diagram" /\ pc = "clause" /\ k = 1 /\ cfg = <<>>
        \/ /\ Mode = "axis" /\ pc = "axis" /\ k = 0
           /\ \E r \in 1..3 : \E sh \in [1..r -> 1..MaxExtent], ax \in (-r)..(r-1) : cfg = [shape |-> sh, axis |-> ax]
NextClause == /\ pc = "clause" /\ k < NC + NB /\ k' = k + 1 /\ UNCHANGED <<pc, cfg>>
AxisDone == /\ pc = "axis" /\ pc' = "done" /\ UNCHANGED <<k, cfg>>
Next == NextClause \/ AxisDone
Spec == Init /\ [][Next]_vars

Verdict == (Mode = "diagram" /\ pc = "clause") =>
    IF k <= NC THEN PrintT(ToJson([kind |-> "clause", id |-> Clauses[k].id, ok |-> Clauses[k].ok]))
    ELSE PrintT(ToJson([kind |-> "band", id |-> Mono.bands[k - NC].band, ok |-> BandOK(Mono.bands[k - NC])]))
\* axis: each output cell gets every input cell exactly once; sizes multiply up
AxisPartition == (pc = "done") =>
    LET d == SumAxisDef(Shape, cfg.axis) IN
    /\ UNION { d[o] : o \in DOMAIN d } = Indices(Shape)
    /\ \A o1, o2 \in DOMAIN d : o1 # o2 => d[o1] \cap d[o2] = {}
    /\ \A o \in DOMAIN d : Cardinality(d[o]) = Shape[NormAxis(cfg.axis, Rank)]
EmitAxis == (Emit /\ pc = "done") =>
    LET d == SumAxisDef(Shape, cfg.axis) IN
    PrintT(ToJson([kind |-> "axis", shape |-> Shape, axis |-> cfg.axis,
                   groups |-> [i \in 1..Cardinality(DOMAIN d) |-> LET o == SetToSeq(DOMAIN d)[i] IN [out |-> o, cells |-> SetToSeq(d[o])]]]))
=============================================================================
