----------------------------- MODULE FourierOps -----------------------------
(***************************************************************************)
(* Variable-free operators shared by Fourier.tla, FFTScreen.tla and        *)
(* Propagation.tla: roll conventions of numpy.fft.fftshift / ifftshift,    *)
(* exponent tables of roll o DFT o roll pipelines, and the exact vanishing *)
(* rule for sums of roots of unity along an arithmetic progression.        *)
(***************************************************************************)
EXTENDS Integers, Sequences, FiniteSets

Half(N) == N \div 2

\* ---- the pipelines, as written in the code (1-D factor along one transformed axis) -----------------
\* [inroll, fwd, outroll]: fwd = forward DFT (zeta^(+jk) with zeta = exp(-2 pi i/N)), otherwise the inverse DFT.
\* The real-input variants are described below by their length and scale arithmetic only.
Pipe(fn, N) ==
    CASE fn = "ft"      -> [inroll |-> -Half(N), fwd |-> TRUE,  outroll |-> Half(N),  real |-> FALSE]   \* fftshift(fft(ifftshift(x)))
      [] fn = "ift"     -> [inroll |-> -Half(N), fwd |-> FALSE, outroll |-> Half(N),  real |-> FALSE]   \* fftshift(ifft(ifftshift(X)))
      [] fn = "ps_ift2" -> [inroll |-> Half(N),  fwd |-> FALSE, outroll |-> -Half(N), real |-> FALSE]   \* ifftshift(ifft2(fftshift(G)))
\* scalars as <<numerator, denominator>> in the symbols: delta = dn/dd, delta_f = 1/(N delta)
\*   ft: delta        ift: N * delta_f  = 1/delta        (per transformed axis)

\* exponent (of zeta_N = exp(-2 pi i/N)) of the matrix entry Op[j, i] for a complex pipeline of length N
Exp(p, N, j, i) == LET k == (j - p.outroll) % N          \* frequency bin that lands on output index j
                       m == (i + p.inroll) % N           \* position of input sample i after the input roll
                   IN  IF p.fwd THEN (k * m) % N ELSE (N - ((k * m) % N)) % N

Table(fn, N) == [j \in 0..(N-1) |-> [i \in 0..(N-1) |-> Exp(Pipe(fn, N), N, j, i)]]

\* ---- exact tests on exponent tables -------------------------------------------------------------------
\* sum_k zeta^(A[j][k] + B[k][i]) : all exponents equal e  -> N zeta^e ;  uniform over a coset of a non-trivial subgroup -> 0
Exps(A, B, N, j, i) == [k \in 0..(N-1) |-> (A[j][k] + B[k][i]) % N]
AllEqual(s, N, e) == \A k \in 0..(N-1) : s[k] = e
\* the sequence is an arithmetic progression a*k + b with a # 0 mod N  => the sum of the roots vanishes
Vanishes(s, N) == N > 1 /\ \E a \in 1..(N-1) : \A k \in 0..(N-1) : s[k] = (a * k + s[0]) % N
IsIdentity(A, B, N) == \A j, i \in 0..(N-1) :
                          IF j = i THEN AllEqual(Exps(A, B, N, j, i), N, 0) ELSE Vanishes(Exps(A, B, N, j, i), N)
\* rows of one table are orthogonal: sum_i zeta^(A[j][i] - A[j2][i]) = N delta_jj2   (scaled unitary => Parseval)
RowsOrthogonal(A, N) == \A j, j2 \in 0..(N-1) :
                          LET s == [i \in 0..(N-1) |-> (A[j][i] - A[j2][i]) % N]
                          IN  IF j = j2 THEN AllEqual(s, N, 0) ELSE Vanishes(s, N)

=============================================================================
