SPECIFICATION Spec
CONSTANTS
  Funcs = {1, 2, 3}
  Exempt = {3}
  Arrays = {1, 2}
  Depth = 4
  BugInPlace = FALSE
  BugSharedResult = FALSE
  Emit = TRUE
INVARIANT Functional
INVARIANT EmitProgram
PROPERTY ArgsUnchanged
PROPERTY NoHiddenState
CHECK_DEADLOCK FALSE
