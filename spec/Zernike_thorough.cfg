SPECIFICATION Spec
CONSTANTS
  MaxJ = 20000
  MaxRad = 7
  Emit = TRUE
INVARIANT NollAgrees
INVARIANT NollInSet
INVARIANT NollOrdered
INVARIANT RadialNormalised
INVARIANT RadialOrthogonal
INVARIANT GammaXIsGradient
INVARIANT GammaYIsGradient
INVARIANT EmitCase
CHECK_DEADLOCK FALSE
