SPECIFICATION Spec
CONSTANTS
  Versions = {1, 2, 3}
  Workers = {1, 2, 3}
  Depth = 6
  Emit = TRUE
INVARIANT EmitCase
PROPERTY BuildReflectsCurrentConfig
PROPERTY OnlyBuildChangesMatrix
PROPERTY TomoReflectsHeldMatrix
CHECK_DEADLOCK FALSE
