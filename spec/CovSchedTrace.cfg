SPECIFICATION TraceSpec
CONSTANTS
  NPairs = 3
  NLayers = 2
  MaxK = 4
  MaxBuilds = 1
  BugUnordered = FALSE
  BugNoReset = FALSE
  Emit = FALSE
INVARIANT SameAsSequential
INVARIANT EveryTaskConsumedOnce
INVARIANT AtMostKRunning
INVARIANT Accepted
INVARIANT Progress
CHECK_DEADLOCK FALSE
