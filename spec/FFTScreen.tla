------------------------------ MODULE FFTScreen ------------------------------
(***************************************************************************)
(* FFT phase screens (property C07): phasescreen.py ft_phase_screen        *)
(* :92-141 (frequency grid, DC removal, complex draws scaled by del_f,     *)
(* inverse transform ift2 :144-161) and ft_sh_phase_screen :12-90 (three   *)
(* 3x3 sub-harmonic grids, mean removal).                                  *)
(*                                                                         *)
(* For even N the screen is a LINEAR function of the draws:                *)
(*   pixel(x) = sum_k  s_k * ( a_k Re zeta^E(x,k)  -  b_k Im zeta^E(x,k) ) *)
(* with zeta = exp(-2 pi i / N).  The exponent table E is derived here     *)
(* from the shift / inverse-DFT / shift pipeline of the screen module's    *)
(* ift2 (FourierOps), the amplitude s_k = sqrt(PSD(f_k)) del_f is an ATOM  *)
(* keyed by the integer squared index radius q_k (the numeric value of the *)
(* von Karman spectrum is evaluated by the harness, not here).             *)
(***************************************************************************)
EXTENDS FourierOps, TLC, Json

CONSTANTS Sizes,     \* even grid sizes
          Emit

VARIABLES pc, cfg, freq, q, dc, E, sh
vars == <<pc, cfg, freq, q, dc, E, sh>>

N == cfg.N
Idx == 0..(N-1)

Init == /\ pc = "grid" /\ freq = <<>> /\ q = <<>> /\ dc = <<>> /\ E = <<>> /\ sh = <<>>
        /\ \E n \in Sizes : cfg = [N |-> n]

\* fx = arange(-N/2, N/2) * del_f ; f = sqrt(fx^2 + fy^2)      (frequencies in units of del_f)
FreqGrid ==
    /\ pc = "grid"
    /\ freq' = [k \in Idx |-> k - Half(N)]
    /\ q' = [k1 \in Idx |-> [k2 \in Idx |-> (k1 - Half(N)) * (k1 - Half(N)) + (k2 - Half(N)) * (k2 - Half(N))]]
    /\ pc' = "dc" /\ UNCHANGED <<cfg, dc, E, sh>>
\* PSD_phi[int(N/2), int(N/2)] = 0
RemoveDC ==
    /\ pc = "dc"
    /\ dc' = <<Half(N), Half(N)>>
    /\ pc' = "transform" /\ UNCHANGED <<cfg, freq, q, E, sh>>
\* phs = ift2(cn, 1).real : ifftshift(ifft2(fftshift(cn))) * (N*1)^2 ; 1-D factor of the exponent table from FourierOps
Transform ==
    /\ pc = "transform"
    /\ E' = Table("ps_ift2", N)            \* E[x][k] along one axis; the 2-D exponent is E[x1][k1] + E[x2][k2]
    /\ pc' = "subharm" /\ UNCHANGED <<cfg, freq, q, dc, sh>>
\* sub-harmonics: for p = 1..3 a 3x3 grid of frequencies (i-1, j-1) * del_f / 3^p, centre removed;
\* spatial grid coords = arange(-N/2, N/2) * delta; phase exp(+2 pi i (f_x x + f_y y)) = root of unity of order 3^p N
RECURSIVE Pow3(_)
Pow3(p) == IF p = 0 THEN 1 ELSE 3 * Pow3(p - 1)
SubHarm ==
    /\ pc = "subharm"
    /\ sh' = [p \in 1..3 |->
                [order |-> Pow3(p) * N,
                 \* exponent (in units of 1/(3^p N) turns, positive sign) for pixel <<row, col>> and grid element <<i, j>> (0-based)
                 \* meshgrid conventions: fx[i, j] = f[j] multiplies x[row, col] = coords[col]; fy[i, j] = f[i] multiplies coords[row]
                 ex |-> [r \in Idx |-> [c \in Idx |-> [i \in 0..2 |-> [j \in 0..2 |->
                            ((j - 1) * (c - Half(N)) + (i - 1) * (r - Half(N))) % (Pow3(p) * N)]]]],
                 q9 |-> [i \in 0..2 |-> [j \in 0..2 |-> (i - 1) * (i - 1) + (j - 1) * (j - 1)]],     \* squared radius in units of (del_f/3^p)^2
                 zero |-> <<1, 1>>]]
    /\ pc' = "done" /\ UNCHANGED <<cfg, freq, q, dc, E>>

Next == FreqGrid \/ RemoveDC \/ Transform \/ SubHarm
Spec == Init /\ [][Next]_vars

-----------------------------------------------------------------------------
Done == pc = "done"
\* the zeroed coefficient is exactly the zero-frequency one, and it is the only draw that would add a constant (piston)
DCRemoved == Done => /\ q[dc[1]][dc[2]] = 0
                     /\ \A k1, k2 \in Idx : q[k1][k2] = 0 => <<k1, k2>> = dc
                     /\ \A x \in Idx : E[x][dc[1]] = 0
\* stationarity: the phase difference between two pixels for draw k depends only on the pixel difference:
\* E[x][k] - E[x'][k] = (k - N/2) (x - x')  (mod N)    [zeta^E with zeta = exp(-2 pi i/N): the inverse transform has -E]
Stationary == Done => \A x, x2, k \in Idx : (E[x][k] - E[x2][k]) % N = ((N - ((k - Half(N)) % N)) * (x - x2)) % N
\* the frequency of index k is (k - N/2) del_f: the exponent of pixel x for draw k is -(k - N/2)(x - N/2)
ExponentIsFrequencyTimesPosition == Done => \A x, k \in Idx : E[x][k] = (N - (((k - Half(N)) * (x - Half(N))) % N)) % N
\* +f and -f carry the same spectrum value (so the real part of the complex sum carries half of each pair's power)
HermitianPairing == Done => \A k1, k2 \in 1..(N-1) : q[k1][k2] = q[N - k1][N - k2]
\* sub-harmonic grids: centre element is the zero frequency and is the removed one; the other eight are non-zero
SubHarmCentreRemoved == Done => \A p \in 1..3 : /\ sh[p].q9[sh[p].zero[1]][sh[p].zero[2]] = 0
                                               /\ \A i, j \in 0..2 : (sh[p].q9[i][j] = 0) => <<i, j>> = sh[p].zero
\* the sub-harmonic frequencies are strictly below the lowest non-zero frequency of the FFT grid (they only add LOW-frequency power)
SubHarmBelowGrid == Done => \A p \in 1..3, i, j \in 0..2 : sh[p].q9[i][j] * 1 < 2 * Pow3(p) * Pow3(p) + 1 /\ Pow3(p) > 1
\* the sub-harmonic phase is zero at the pixel with index N/2 (the origin of the spatial grid)
SubHarmOrigin == Done => \A p \in 1..3, i, j \in 0..2 : sh[p].ex[Half(N)][Half(N)][i][j] = 0

EmitCase == (Emit /\ Done) => PrintT(ToJson([kind |-> "screen", N |-> N,
                  freq |-> [k \in 1..N |-> freq[k-1]],
                  q |-> [a \in 1..N |-> [b \in 1..N |-> q[a-1][b-1]]],
                  dc |-> dc,
                  E |-> [a \in 1..N |-> [b \in 1..N |-> E[a-1][b-1]]],
                  sh |-> [p \in 1..3 |-> [order |-> sh[p].order,
                                          ex |-> [r \in 1..N |-> [c \in 1..N |-> [i \in 1..3 |-> [j \in 1..3 |-> sh[p].ex[r-1][c-1][i-1][j-1]]]]],
                                          q9 |-> [i \in 1..3 |-> [j \in 1..3 |-> sh[p].q9[i-1][j-1]]]]]]))
=============================================================================
