SPECIFICATION Spec
CONSTANTS
  Versions = {1, 2, 3}
  Depth = 6
  Emit = TRUE
INVARIANT RebuildRestoresConsistency
INVARIANT NoTimeTravel
INVARIANT RowsUseHeldMatrices
INVARIANT EmitCase
PROPERTY StaleUntilRebuilt
CHECK_DEADLOCK FALSE
