SPECIFICATION Spec
CONSTANTS
  MaxN = 9
  MaxM = 10
  MaxAllMask = 3
  Emit = TRUE
INVARIANT CircleIsIndicator
INVARIANT Nested
INVARIANT BoundaryInclusive
INVARIANT D4Symmetric
INVARIANT Translates
INVARIANT DocExamples
INVARIANT ExactlyThresholdCells
INVARIANT MonotoneInThreshold
INVARIANT FillsAgree
INVARIANT GatherAfterScatter
INVARIANT EmitCase
CHECK_DEADLOCK FALSE
