SPECIFICATION TraceSpec
CONSTANTS
  Reqs = {2}
  Factors = {1}
  Depth = 100000
  Emit = FALSE
INVARIANT ExposedShape
INVARIANT WorkingShape
INVARIANT NoDuplicates
INVARIANT Progress
PROPERTY ShiftByOne
PROPERTY NothingElseChanges
PROPERTY ReadsArePure
PROPERTY StreamAdvance
CHECK_DEADLOCK FALSE
