SPECIFICATION Spec
CONSTANTS
  Depth = 4
  BugGlobalFallback = FALSE
  BugSharedInstance = FALSE
  BugCloneShares = FALSE
  BugShCoupled = FALSE
  BugRowsFromSeed = FALSE
  ChildInit = TRUE
  Focus = "all"
  Emit = FALSE
VIEW AbstractView
INVARIANT Reproducible
INVARIANT SeedsDiffer
INVARIANT NoDeviateUsedTwice
INVARIANT ObjectNeverReusesADeviate
INVARIANT GlobalUntouched
PROPERTY Isolated
PROPERTY GlobalOnlyByGlobalActions
CHECK_DEADLOCK FALSE
