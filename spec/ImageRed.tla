------------------------------ MODULE ImageRed ------------------------------
(***************************************************************************)
(* Image reductions of property C16:                                       *)
(*   binImgs            (interpolation.py:103-134)  - strided accumulation  *)
(*   azimuthal_average  (psf.py:13-28)              - rings of nested circles*)
(*   encircled_energy   (psf.py:32-82)              - nested corner circles  *)
(*   zoom / zoom_rbs    (interpolation.py:7-100)    - target grid geometry   *)
(* Pixels carry TOKENS (their own index) so that a result is the exact bag  *)
(* of input pixels that were summed into it.                                *)
(***************************************************************************)
EXTENDS Integers, Sequences, FiniteSets, FiniteSetsExt, TLC, Json, IOUtils

CONSTANTS MaxBin,       \* binning: image shapes up to MaxBin x MaxBin
          MaxAzi,       \* azimuthal average: sizes 1..MaxAzi
          MaxZoom,      \* zoom: source sizes 2..MaxZoom, targets up to 2*MaxZoom+1
          Emit

VARIABLES mode, pc, cfg, work, i, res
vars == <<mode, pc, cfg, work, i, res>>

Pix(h, w) == (0 .. h-1) \X (0 .. w-1)
Rows(h, w, f) == [a \in 1..h |-> [b \in 1..w |-> f[<<a-1, b-1>>]]]
SetToSeq(S) == LET RECURSIVE f(_) f(T) == IF T = {} THEN <<>> ELSE LET e == CHOOSE e \in T : TRUE IN <<e>> \o f(T \ {e}) IN f(S)

-----------------------------------------------------------------------------
(* ---------- binning ---------- *)
\* Def: out[a, b] is the sum of the n x n block -> the set of input pixels of that block
BinDef(h, w, n) == [p \in Pix(h \div n, w \div n) |->
                       { <<p[1]*n + u, p[2]*n + v>> : u \in 0..n-1, v \in 0..n-1 }]

\* Impl, pass 1: tmp[r, c] accumulates data[r, k + c*n] for k = 0..n-1   (binnedImgTmp += data[..., k::n])
BinPass1Step ==
    /\ mode = "bin" /\ pc = "pass1"
    /\ work' = [p \in Pix(cfg.h, cfg.w \div cfg.n) |-> work[p] \cup { <<p[1], i + p[2]*cfg.n>> }]
    /\ IF i + 1 < cfg.n THEN i' = i + 1 /\ pc' = pc /\ res' = res
       ELSE i' = 0 /\ pc' = "pass2" /\ res' = [p \in Pix(cfg.h \div cfg.n, cfg.w \div cfg.n) |-> {}]
    /\ UNCHANGED <<mode, cfg>>
\* pass 2: out[a, c] accumulates tmp[k + a*n, c]                         (binnedImg += binnedImgTmp[..., k::n, :])
BinPass2Step ==
    /\ mode = "bin" /\ pc = "pass2"
    /\ res' = [p \in Pix(cfg.h \div cfg.n, cfg.w \div cfg.n) |-> res[p] \cup work[<<i + p[1]*cfg.n, p[2]>>]]
    /\ IF i + 1 < cfg.n THEN i' = i + 1 /\ pc' = pc ELSE i' = i /\ pc' = "done"
    /\ UNCHANGED <<mode, cfg, work>>

BinIsBlockSum == (mode = "bin" /\ pc = "done") => res = BinDef(cfg.h, cfg.w, cfg.n)
\* every input pixel lands in exactly one output pixel
FluxPreserved == (mode = "bin" /\ pc = "done") =>
    /\ UNION { res[p] : p \in DOMAIN res } = Pix(cfg.h, cfg.w)
    /\ \A p, q \in DOMAIN res : p # q => res[p] \cap res[q] = {}

-----------------------------------------------------------------------------
(* ---------- azimuthal average ---------- *)
\* quarter-pixel units as in Pupil.tla: centre of pixel <<r, c>> relative to the array middle
D2(n, p) == ((4*p[2] + 2) - 2*n) * ((4*p[2] + 2) - 2*n) + ((4*p[1] + 2) - 2*n) * ((4*p[1] + 2) - 2*n)
Disc(n, r) == { p \in Pix(n, n) : D2(n, p) <= (4*r)*(4*r) }
\* ring k as the code builds it: circle(k+1) - circle(k)
RingImpl(n, k) == Disc(n, k+1) \ Disc(n, k)
\* Def: pixels with k < distance <= k+1
RingDef(n, k) == { p \in Pix(n, n) : (4*k)*(4*k) < D2(n, p) /\ D2(n, p) <= (4*(k+1))*(4*(k+1)) }

AziStep ==   \* one loop iteration: avg[i] = (ring*data).sum() / ring.sum()
    /\ mode = "azi" /\ pc = "loop"
    /\ IF cfg.n \div 2 = 0 THEN res' = res /\ pc' = "done" /\ i' = i
       ELSE /\ res' = Append(res, RingImpl(cfg.n, i))
            /\ IF i + 1 < cfg.n \div 2 THEN i' = i + 1 /\ pc' = pc ELSE i' = i /\ pc' = "done"
    /\ UNCHANGED <<mode, cfg, work>>

AziDone == mode = "azi" /\ pc = "done"
RingsAreRings == AziDone => \A k \in 1..Len(res) : res[k] = RingDef(cfg.n, k-1)
RingsDisjoint == AziDone => \A k, l \in 1..Len(res) : k # l => res[k] \cap res[l] = {}
RingNonEmpty  == AziDone => \A k \in 1..Len(res) : res[k] # {}
RingCount     == AziDone => Len(res) = cfg.n \div 2
\* a mean over a non-empty set of pixels: constant image -> constant, and min <= value <= max, for ALL images

-----------------------------------------------------------------------------
(* ---------- encircled energy: node table for logged radii ---------- *)
\* The node radii are linspace(..)**1.9, irrational: they are read from the file the recorder wrote
\* (r^2 scaled by 2^20 and rounded), never recomputed here.
EECases == IF "EE_CASES" \in DOMAIN IOEnv THEN ndJsonDeserialize(IOEnv.EE_CASES) ELSE <<>>
\* twice the squared distance (pixel units) of pixel centre <<r, c>> from the centre (xc, yc) given from the corner
\* four times the squared distance of pixel centre <<r, c>> from the centre (xc2/2, yc2/2) given from the corner
D2q(p, xc2, yc2) == LET dx2 == 2*p[2] + 1 - xc2   dy2 == 2*p[1] + 1 - yc2 IN dx2*dx2 + dy2*dy2
EEDisc(n, xc2, yc2, r2s) == { p \in Pix(n, n) : D2q(p, xc2, yc2) * 262144 <= r2s }

EEStep ==
    /\ mode = "ee" /\ pc = "loop"
    /\ LET d == EEDisc(cfg.n, cfg.xc2, cfg.yc2, cfg.r2s[i+1])
       IN  res' = Append(res, << Cardinality(d), MapThenSumSet(LAMBDA p : cfg.img[p[1]+1][p[2]+1], d) >>)
    /\ IF i + 1 < Len(cfg.r2s) THEN i' = i + 1 /\ pc' = pc ELSE i' = i /\ pc' = "done"
    /\ UNCHANGED <<mode, cfg, work>>

EEDone == mode = "ee" /\ pc = "done"
Total(c) == MapThenSumSet(LAMBDA p : c.img[p[1]+1][p[2]+1], Pix(c.n, c.n))
\* the first node (radius 0) holds at most the one pixel whose centre IS the chosen centre; the curve itself starts at the
\* prepended origin (0, 0), which the harness checks on the returned arrays
EEStartsAtZero == EEDone => (cfg.r2s[1] = 0 => res[1][1] = Cardinality({ p \in Pix(cfg.n, cfg.n) : D2q(p, cfg.xc2, cfg.yc2) = 0 }))
EEMonotone == EEDone => \A k \in 1..Len(res)-1 : (cfg.r2s[k] <= cfg.r2s[k+1]) => (res[k][1] <= res[k+1][1] /\ res[k][2] <= res[k+1][2])
EEAtMostOne == EEDone => \A k \in 1..Len(res) : res[k][2] <= Total(cfg)

-----------------------------------------------------------------------------
(* ---------- zoom: which target nodes coincide with source nodes ---------- *)
\* target node j (0-based) of linspace(0, n-1, m) sits at j*(n-1)/(m-1)
ZoomHits(n, m) == IF m = 1 THEN { <<0, 0>> }
                  ELSE { <<j, (j*(n-1)) \div (m-1)>> : j \in { k \in 0..m-1 : (k*(n-1)) % (m-1) = 0 } }
ZoomContainsAll(n, m) == { h[2] : h \in ZoomHits(n, m) } = 0..n-1
ZoomStep ==
    /\ mode = "zoom" /\ pc = "grid"
    /\ res' = [hits |-> ZoomHits(cfg.n, cfg.m), all |-> ZoomContainsAll(cfg.n, cfg.m)]
    /\ pc' = "done" /\ UNCHANGED <<mode, cfg, work, i>>
\* the new grid contains the old nodes iff (n-1) divides (m-1)
ZoomDivisibility == (mode = "zoom" /\ pc = "done" /\ cfg.n > 1 /\ cfg.m > 1) => (res.all <=> ((cfg.m - 1) % (cfg.n - 1) = 0))
ZoomIdentity == (mode = "zoom" /\ pc = "done" /\ cfg.n = cfg.m) => res.hits = { <<k, k>> : k \in 0..cfg.n-1 }

-----------------------------------------------------------------------------
Init ==
    /\ i = 0 /\ res = <<>>
    /\ \/ \E h \in 1..MaxBin, w \in 1..MaxBin, n \in 1..MaxBin :
            /\ h % n = 0 /\ w % n = 0
            /\ mode = "bin" /\ pc = "pass1" /\ cfg = [h |-> h, w |-> w, n |-> n]
            /\ work = [p \in Pix(h, w \div n) |-> {}]
       \/ \E n \in 1..MaxAzi : mode = "azi" /\ pc = "loop" /\ cfg = [n |-> n] /\ work = <<>>
       \/ \E k \in 1..Len(EECases) : mode = "ee" /\ pc = "loop" /\ cfg = EECases[k] /\ work = <<>>
       \/ \E n \in 2..MaxZoom, m \in 1..(2*MaxZoom+1) : mode = "zoom" /\ pc = "grid" /\ cfg = [n |-> n, m |-> m] /\ work = <<>>

Next == BinPass1Step \/ BinPass2Step \/ AziStep \/ EEStep \/ ZoomStep
Spec == Init /\ [][Next]_vars

EmitCase == (Emit /\ pc = "done") =>
    CASE mode = "bin" -> PrintT(ToJson([kind |-> "bin", h |-> cfg.h, w |-> cfg.w, n |-> cfg.n,
                                        out |-> Rows(cfg.h \div cfg.n, cfg.w \div cfg.n, [p \in DOMAIN res |-> SetToSeq(res[p])])]))
      [] mode = "azi" -> PrintT(ToJson([kind |-> "azi", n |-> cfg.n, rings |-> [k \in 1..Len(res) |-> SetToSeq(res[k])],
                                        centre |-> SetToSeq({ p \in Pix(cfg.n, cfg.n) : D2(cfg.n, p) = 0 })]))
      [] mode = "ee"  -> PrintT(ToJson([kind |-> "ee", id |-> cfg.id, nodes |-> res, total |-> Total(cfg)]))
      [] mode = "zoom" -> PrintT(ToJson([kind |-> "zoom", n |-> cfg.n, m |-> cfg.m, hits |-> SetToSeq(res.hits), all |-> res.all]))
=============================================================================
