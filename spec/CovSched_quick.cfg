SPECIFICATION Spec
CONSTANTS
  NPairs = 3
  NLayers = 2
  MaxK = 3
  MaxBuilds = 3
  BugUnordered = FALSE
  BugNoReset = FALSE
  Emit = TRUE
INVARIANT SameAsSequential
INVARIANT EveryTaskConsumedOnce
INVARIANT AtMostKRunning
INVARIANT EmitBuild
PROPERTY NoCarryOver
CHECK_DEADLOCK FALSE
