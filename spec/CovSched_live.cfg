SPECIFICATION FairSpec
CONSTANTS
  NPairs = 3
  NLayers = 2
  MaxK = 2
  MaxBuilds = 1
  BugUnordered = FALSE
  BugNoReset = FALSE
  Emit = FALSE
PROPERTY Returns
CHECK_DEADLOCK FALSE
