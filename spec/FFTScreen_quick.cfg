SPECIFICATION Spec
CONSTANTS
  Sizes = {2, 4, 6, 8, 10, 12, 26}
  Emit = TRUE
INVARIANT DCRemoved
INVARIANT Stationary
INVARIANT ExponentIsFrequencyTimesPosition
INVARIANT HermitianPairing
INVARIANT SubHarmCentreRemoved
INVARIANT SubHarmBelowGrid
INVARIANT SubHarmOrigin
INVARIANT EmitCase
CHECK_DEADLOCK FALSE
