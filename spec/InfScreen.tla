------------------------------ MODULE InfScreen ------------------------------
(***************************************************************************)
(* The infinite phase screen as a state machine (property C05) and the     *)
(* geometry of its stencils (property C04).                                *)
(*   infinitephasescreen.py: add_row :197-206, scrn :208-213,              *)
(*   find_allowed_size :308-323, set_X_coords / set_stencil_coords :70-107,*)
(*   PhaseScreenVonKarman.set_stencil_coords :298-305                      *)
(*                                                                         *)
(* The working array is a matrix of CELL IDENTITIES: the cell (r, c) of    *)
(* the initial working array is r*nx + c + 1, cell c of the k-th generated *)
(* row is slen*nx + (k-1)*nx + c + 1.  (These are exactly the first-seen   *)
(* numbers the recorder gives to the float bit patterns.)                  *)
(***************************************************************************)
EXTENDS Integers, Sequences, FiniteSets, TLC, Json

CONSTANTS Reqs,        \* requested sizes
          Factors,     \* stencil_length_factor values (Fried variant)
          Depth,       \* length of operation histories
          Emit

VARIABLES cfg,         \* [variant, req, nx, slen]
          scrn,        \* working array: sequence (rows, newest first) of sequences of cell ids
          pos,         \* number of normal deviates drawn from the instance generator so far
          k,           \* rows added
          hist         \* operation history (observation only)
vars == <<cfg, scrn, pos, k, hist>>

\* find_allowed_size: the smallest 2^n + 1 >= requested
RECURSIVE Allowed(_, _)
Allowed(req, p) == IF p + 1 >= req THEN p + 1 ELSE Allowed(req, 2 * p)
AllowedSize(req) == Allowed(req, 1)

InitId(r, c, nx) == r * nx + c + 1
NewId(kk, c, nx, slen) == slen * nx + (kk - 1) * nx + c + 1

MkCfg(variant, req, f) ==
    LET nx == IF variant = "vk" THEN req ELSE AllowedSize(req)
    IN  [variant |-> variant, req |-> req, nx |-> nx, slen |-> IF variant = "vk" THEN nx ELSE f * nx]

InitFor(c) ==
    /\ cfg = c
    /\ scrn = [r \in 1..c.slen |-> [cc \in 1..c.nx |-> InitId(r-1, cc-1, c.nx)]]
    /\ pos = 2 * c.slen * c.slen          \* the FFT screen behind the initial array draws two slen x slen normal arrays
    /\ k = 0 /\ hist = <<>>

Init == \/ \E req \in Reqs : InitFor(MkCfg("vk", req, 1))
        \/ \E req \in Reqs, f \in Factors : InitFor(MkCfg("fried", req, f))

\* what the user sees
Exposed(s) == [r \in 1..cfg.req |-> [c \in 1..cfg.req |-> s[r][c]]]

\* add_row: draw nx deviates, prepend the new row, crop to slen x nx
AddRow ==
    /\ Len(hist) < Depth
    /\ LET new == [c \in 1..cfg.nx |-> NewId(k + 1, c - 1, cfg.nx, cfg.slen)]
           grown == <<new>> \o scrn
       IN  scrn' = [r \in 1..cfg.slen |-> grown[r]]
    /\ pos' = pos + cfg.nx
    /\ k' = k + 1
    /\ hist' = Append(hist, "add_row")
    /\ UNCHANGED cfg
\* reading / printing: no effect on the screen or the stream
Read == /\ Len(hist) < Depth /\ hist' = Append(hist, "read") /\ UNCHANGED <<cfg, scrn, pos, k>>
Repr == /\ Len(hist) < Depth /\ hist' = Append(hist, "repr") /\ UNCHANGED <<cfg, scrn, pos, k>>

Next == AddRow \/ Read \/ Repr
Spec == Init /\ [][Next]_vars

-----------------------------------------------------------------------------
ExposedShape == Len(Exposed(scrn)) = cfg.req /\ \A r \in 1..cfg.req : Len(Exposed(scrn)[r]) = cfg.req
WorkingShape == Len(scrn) = cfg.slen /\ \A r \in 1..cfg.slen : Len(scrn[r]) = cfg.nx
\* the exposed screen is the previous one shifted down by exactly one row, with a brand-new row at index 0
ShiftByOne == [][ k' = k + 1 =>
                    /\ \A r \in 1..(cfg.req - 1) : Exposed(scrn')[r + 1] = Exposed(scrn)[r]
                    /\ \A c \in 1..cfg.req : Exposed(scrn')[1][c] > cfg.slen * cfg.nx + (k' - 1) * cfg.nx     \* fresh cells
                    /\ \A c \in 1..cfg.req : Exposed(scrn')[1][c] = NewId(k', c - 1, cfg.nx, cfg.slen)
                ]_vars
NothingElseChanges == [][ k' = k + 1 => \A r \in 1..(cfg.slen - 1) : scrn'[r + 1] = scrn[r] ]_vars
ReadsArePure == [][ k' = k => (scrn' = scrn /\ pos' = pos) ]_vars
StreamAdvance == [][ k' = k + 1 => pos' = pos + cfg.nx ]_vars
\* a cell identity never appears twice in the working array
NoDuplicates == \A r1, r2 \in 1..cfg.slen : \A c1, c2 \in 1..cfg.nx : (scrn[r1][c1] = scrn[r2][c2]) => (r1 = r2 /\ c1 = c2)

EmitCase == Emit => PrintT(ToJson([kind |-> "hist", variant |-> cfg.variant, req |-> cfg.req, nx |-> cfg.nx, slen |-> cfg.slen,
                                   f |-> cfg.slen \div cfg.nx, hist |-> hist, exposed |-> Exposed(scrn), pos |-> pos, k |-> k]))
=============================================================================
