SPECIFICATION Spec
CONSTANTS
  Reqs = {1, 2, 3, 4, 5, 6, 7, 8, 9}
  Factors = {1, 2, 3}
  Depth = 8
  Emit = TRUE
INVARIANT ExposedShape
INVARIANT WorkingShape
INVARIANT NoDuplicates
INVARIANT EmitCase
PROPERTY ShiftByOne
PROPERTY NothingElseChanges
PROPERTY ReadsArePure
PROPERTY StreamAdvance
CHECK_DEADLOCK FALSE
