--------------------------------- MODULE Tomo ---------------------------------
(***************************************************************************)
(* Tomographic reconstructor (property C02): slopecovariance.py            *)
(*   create_tomographic_covariance_reconstructor :472-504 (partition at    *)
(*   2*n_onaxis, pseudo-inverse, product), make_tomographic_reconstructor  *)
(*   :251-267 (first sensor is the on-axis one).                           *)
(*                                                                         *)
(* No real arithmetic here: covariance matrices are C = G G^T for small    *)
(* INTEGER generator matrices G = [B ; A] with A unit lower-triangular     *)
(* (so C_off,off = A A^T is unimodular and the true reconstructor is an    *)
(* integer matrix).  Mode "gen" enumerates the family; mode "val" reads    *)
(* what the real code returned for each member (rounded to integers by the *)
(* recorder, which rejects a rounding residual above 1e-6) and checks the  *)
(* characterisation of the minimum-variance estimator exactly.             *)
(***************************************************************************)
EXTENDS Integers, Sequences, FiniteSets, FiniteSetsExt, TLC, Json, IOUtils

CONSTANTS Mode,       \* "gen" | "val"
          MaxOff,     \* gen: off-axis slope count m in 2..MaxOff (even)
          Emit

VARIABLES pc, cfg, C
vars == <<pc, cfg, C>>

Cases == IF Mode = "val" THEN JsonDeserialize(IOEnv.TRACE_FILE) ELSE <<>>

\* ---- integer matrices as sequences of rows
Rows(M) == Len(M)
Cols(M) == Len(M[1])
Dot(u, v) == LET RECURSIVE s(_) s(k) == IF k = 0 THEN 0 ELSE u[k] * v[k] + s(k - 1) IN s(Len(u))
Transpose(M) == [j \in 1..Cols(M) |-> [i \in 1..Rows(M) |-> M[i][j]]]
Mul(X, Y) == LET Yt == Transpose(Y) IN [i \in 1..Rows(X) |-> [j \in 1..Rows(Yt) |-> Dot(X[i], Yt[j])]]
Sub(X, Y) == [i \in 1..Rows(X) |-> [j \in 1..Cols(X) |-> X[i][j] - Y[i][j]]]
Trace(M) == LET RECURSIVE s(_) s(k) == IF k = 0 THEN 0 ELSE M[k][k] + s(k - 1) IN s(Rows(M))
Block(M, r1, r2, c1, c2) == [i \in 1..(r2 - r1 + 1) |-> [j \in 1..(c2 - c1 + 1) |-> M[r1 + i - 1][c1 + j - 1]]]

\* ---- the partition the code makes: first 2*n_on rows/columns are the on-axis sensor
OnOff(M, non)  == Block(M, 1, 2 * non, 2 * non + 1, Rows(M))
OffOff(M, non) == Block(M, 2 * non + 1, Rows(M), 2 * non + 1, Rows(M))
OnOn(M, non)   == Block(M, 1, 2 * non, 1, 2 * non)
OffOn(M, non)  == Block(M, 2 * non + 1, Rows(M), 1, 2 * non)

\* ---- what "minimum-variance linear estimator" means
NormalEq(R, M, non) == Mul(R, OffOff(M, non)) = OnOff(M, non)
\* expected squared residual E|s_on - R s_off|^2 = tr(C_on,on - R C_off,on - C_on,off R^T + R C_off,off R^T)
Residual(R, M, non) == Trace(Sub(Sub(OnOn(M, non), Mul(R, OffOn(M, non))), Sub(Mul(OnOff(M, non), Transpose(R)), Mul(Mul(R, OffOff(M, non)), Transpose(R)))))
UnitPerturbations(R) == { [i \in 1..Rows(R) |-> [j \in 1..Cols(R) |-> IF <<i, j>> = p THEN R[i][j] + s ELSE R[i][j]]] :
                          p \in (1..Rows(R)) \X (1..Cols(R)), s \in {-1, 1} }
Optimal(R, M, non) == \A R2 \in UnitPerturbations(R) : Residual(R, M, non) <= Residual(R2, M, non)
Selector(R, non) == \A i \in 1..Rows(R), j \in 1..Cols(R) : R[i][j] = (IF i = j THEN 1 ELSE 0)
Symmetric(M) == \A i, j \in 1..Rows(M) : M[i][j] = M[j][i]

-----------------------------------------------------------------------------
\* unit lower-triangular with one free sub-diagonal (3^(m-1) members), built from the sub-diagonal vector
BandLower(m, sub) == [i \in 1..m |-> [j \in 1..m |-> IF i = j THEN 1 ELSE IF i = j + 1 THEN sub[j] ELSE 0]]
UnitLower(m) == { BandLower(m, sub) : sub \in [1..(m-1) -> -1..1] }
Init ==
    /\ C = <<>>
    /\ \/ /\ Mode = "gen" /\ pc = "build"
          /\ \E m \in {2, 4} : m <= MaxOff /\
               \E A \in UnitLower(m), dup \in BOOLEAN :
                 \E B \in (IF dup THEN { [i \in 1..2 |-> A[i]] } ELSE [1..2 -> [1..m -> -1..1]]) :
                    /\ (m = 4 /\ ~dup) => (\A i \in 1..2 : B[i][3] = B[i][1] /\ B[i][4] = -B[i][2])        \* keep the family small
                    /\ cfg = [non |-> 1, m |-> m, A |-> A, B |-> B, dup |-> dup]
       \/ /\ Mode = "val" /\ pc = "check"
          /\ \E t \in 1..Len(Cases) : cfg = Cases[t]

BuildC ==
    /\ pc = "build"
    /\ LET G == cfg.B \o cfg.A IN C' = Mul(G, Transpose(G))
    /\ pc' = "done" /\ UNCHANGED cfg
Next == BuildC
Spec == Init /\ [][Next]_vars

\* gen: the family really has the advertised structure
GenSymmetric == (pc = "done") => Symmetric(C)
GenDuplicate == (pc = "done" /\ cfg.dup) => OnOff(C, 1) = Block(OffOff(C, 1), 1, 2, 1, cfg.m)
EmitCase == (Emit /\ pc = "done") => PrintT(ToJson([kind |-> "cov", non |-> cfg.non, dup |-> cfg.dup, C |-> C]))

\* val: what the real code returned.  One total verdict per case (the harness turns a FALSE clause into a violation and
\* names the clause), so a failing case never hides the cases after it.
ShapeOK == Rows(cfg.R) = 2 * cfg.non /\ Cols(cfg.R) = Rows(cfg.C) - 2 * cfg.non
ValVerdict == (pc = "check") =>
    PrintT(ToJson([kind |-> "verdict", id |-> cfg.id,
                   shape |-> ShapeOK,
                   normal |-> ShapeOK /\ NormalEq(cfg.R, cfg.C, cfg.non),
                   optimal |-> ShapeOK /\ Optimal(cfg.R, cfg.C, cfg.non),
                   selector |-> (~cfg.dup) \/ (ShapeOK /\ Selector(cfg.R, cfg.non)),
                   symmetric |-> Symmetric(cfg.C)]))
=============================================================================
