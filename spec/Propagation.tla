----------------------------- MODULE Propagation -----------------------------
(***************************************************************************)
(* Optical propagators (properties C10, C11): opticalpropagation.py        *)
(*   angularSpectrum :11-61, oneStepFresnel :64-95, twoStepFresnel :97-149,*)
(*   lensAgainst :151-181.                                                 *)
(*                                                                         *)
(* A propagator is a PIPELINE of typed stages applied to a field on an     *)
(* N x N grid (N even):                                                    *)
(*   scal  : multiplication by  coef * lam^a z0^b d1^c N^e * i^k           *)
(*   diag  : multiplication by a unit-modulus quadratic phase              *)
(*             dom "x": exp(2 pi i * c * alpha0 * |n|^2)                   *)
(*             dom "f": exp(2 pi i * c * |n|^2 / (alpha0 N^2))             *)
(*           with n the centred index (-N/2 .. N/2-1)^2, c an exact        *)
(*           rational and alpha0 = d1^2 / (lam z0) a free positive real    *)
(*   const : a constant unit-modulus phase (the code's r1sq + 1e-10)       *)
(*   dft   : centred DFT / inverse DFT along both axes (tables: FourierOps)*)
(* plus the grid spacing the field is declared to live on, and the SIGNED  *)
(* spacing it really lives on.  Distances are z = zm * z0, magnifications  *)
(* m = mn/md, the input spacing is g * d1.                                 *)
(***************************************************************************)
EXTENDS FourierOps, TLC, Json

CONSTANTS Sizes,        \* even N
          Mags,         \* magnifications as <<mn, md>> (cfg: model values below)
          ZMults,       \* distances in units of z0 (non-zero, both signs)
          ProgLen,      \* C11: programs of at most this many unit-magnification steps
          Emit

VARIABLES pc, cfg, stages, sp, truesp, prog, acc
vars == <<pc, cfg, stages, sp, truesp, prog, acc>>

-----------------------------------------------------------------------------
\* constants that a cfg file cannot write (tuples, negative numbers)
MagsAll == { <<1, 2>>, <<1, 1>>, <<2, 1>>, <<3, 2>> }
ZAll == { -2, -1, 1, 2, 3 }

(* ---------- exact rationals <<num, den>>, den > 0 ---------- *)
RECURSIVE Gcd(_, _)
Gcd(a, b) == IF b = 0 THEN (IF a < 0 THEN -a ELSE a) ELSE Gcd(b, a % b)
Abs(v) == IF v < 0 THEN -v ELSE v
Norm(r) == LET g == Gcd(Abs(r[1]), r[2]) IN IF r[1] = 0 THEN <<0, 1>> ELSE <<r[1] \div g, r[2] \div g>>
R(n, d) == IF d < 0 THEN Norm(<<-n, -d>>) ELSE Norm(<<n, d>>)
RAdd(a, b) == R(a[1]*b[2] + b[1]*a[2], a[2]*b[2])
RMul(a, b) == R(a[1]*b[1], a[2]*b[2])
RDiv(a, b) == R(a[1]*b[2], a[2]*b[1])
RNeg(a) == <<-a[1], a[2]>>
RSub(a, b) == RAdd(a, RNeg(b))
RAbs(a) == <<Abs(a[1]), a[2]>>
One == <<1, 1>>
Zero == <<0, 1>>
Half2 == <<1, 2>>

\* monomials in lam, z0, d1, N: exponent records
Mono(l, z, d, n) == [lam |-> l, z0 |-> z, d1 |-> d, N |-> n]
M1 == Mono(0, 0, 0, 0)
MAdd(a, b) == Mono(a.lam + b.lam, a.z0 + b.z0, a.d1 + b.d1, a.N + b.N)
MScale(k, a) == Mono(k * a.lam, k * a.z0, k * a.d1, k * a.N)

Scal(c, m, k) == [t |-> "scal", coef |-> c, mono |-> m, i4 |-> k % 4]
Diag(dom, c) == [t |-> "diag", dom |-> dom, c |-> c]
Const(c) == [t |-> "const", c |-> c]                 \* phase 2 pi * c * alpha0 * (1e-10 / d1^2)
Dft(fwd) == [t |-> "dft", fwd |-> fwd]
\* spacing: [g, unit] ; unit "d1" -> g * d1 ; unit "fz" -> g * lam z0 / (N d1)
Spc(g, u) == [g |-> g, unit |-> u]
SpMono(s) == IF s.unit = "d1" THEN Mono(0, 0, 1, 0) ELSE Mono(1, 1, -1, -1)

-----------------------------------------------------------------------------
(* ---------- the four propagators, stage by stage as the code multiplies them ---------- *)
\* angularSpectrum(U, wvl, g d1, m g d1, zm z0)
AS(g, m, zm) ==
    << Scal(RDiv(One, m), M1, 0),                                             \* inputComplexAmp / mag
       Diag("x", RMul(RMul(g, g), RDiv(RSub(One, m), RMul(<<2, 1>>, zm)))),    \* Q1 = exp(i k/2 (1-mag)/z r1sq)
       Const(RDiv(RSub(One, m), RMul(<<2, 1>>, zm))),                          \*   ... the + 1e-10 inside r1sq
       Dft(TRUE), Scal(RMul(g, g), Mono(0, 0, 2, 0), 0),                       \* ft2(., inputSpacing): delta^2
       Diag("f", RNeg(RDiv(zm, RMul(<<2, 1>>, RMul(m, RMul(g, g)))))),         \* Q2 = exp(-i pi^2 2 z/mag/k fsq)
       Dft(FALSE), Scal(RDiv(One, RMul(g, g)), Mono(0, 0, -2, 0), 0),          \* ift2(., df1): (N df1)^2 = 1/(g d1)^2
       Diag("x", RMul(RMul(g, g), RDiv(RMul(m, RSub(m, One)), RMul(<<2, 1>>, zm)))) >>   \* Q3 on the output grid m g d1
\* oneStepFresnel(U, wvl, g d1, zm z0): A * B * ft2(U * exp(i k/(2z) r1^2), d1)
OneStep(g, zm) ==
    << Diag("x", RDiv(RMul(g, g), RMul(<<2, 1>>, zm))),
       Dft(TRUE), Scal(RMul(g, g), Mono(0, 0, 2, 0), 0),
       Diag("f", RDiv(zm, RMul(<<2, 1>>, RMul(g, g)))),                        \* B on the grid d2 = wvl z/(N d1)
       Scal(RDiv(One, zm), Mono(-1, -1, 0, 0), 3) >>                           \* A = 1/(i wvl z)
\* lensAgainst(U, wvl, g d1, f = zm z0): no chirp on the input
Lens(g, zm) ==
    << Dft(TRUE), Scal(RMul(g, g), Mono(0, 0, 2, 0), 0),
       Diag("f", RDiv(zm, RMul(<<2, 1>>, RMul(g, g)))),
       Scal(RDiv(One, zm), Mono(-1, -1, 0, 0), 3) >>
\* twoStepFresnel(U, wvl, g d1, m g d1, zm z0): Dz1 = z/(1-m) (z/2 when m = 1), Dz2 = z - Dz1, intermediate spacing with |Dz1|
Dz1(m, zm) == IF m = One THEN RDiv(zm, <<2, 1>>) ELSE RDiv(zm, RSub(One, m))
Dz2(m, zm) == RSub(zm, Dz1(m, zm))
TwoStep(g, m, zm) ==
    LET a == Dz1(m, zm)   b == Dz2(m, zm)
        ga == RDiv(RAbs(a), g)                                                 \* d1a = wvl |Dz1| / (N g d1) = ga * fz
    IN  << Diag("x", RDiv(RMul(g, g), RMul(<<2, 1>>, a))),
           Dft(TRUE), Scal(RMul(g, g), Mono(0, 0, 2, 0), 0),
           Diag("f", RDiv(RMul(ga, ga), RMul(<<2, 1>>, a))),                   \* B on the intermediate grid
           Scal(RDiv(One, a), Mono(-1, -1, 0, 0), 3),
           Diag("f", RDiv(RMul(ga, ga), RMul(<<2, 1>>, b))),                   \* second step, chirp on the intermediate grid
           Dft(TRUE), Scal(RMul(ga, ga), Mono(2, 2, -2, -2), 0),               \* ft2(., d1a): d1a^2
           Diag("x", RDiv(RMul(RMul(m, g), RMul(m, g)), RMul(<<2, 1>>, b))),   \* B on the output grid m g d1
           Scal(RDiv(One, b), Mono(-1, -1, 0, 0), 3) >>

\* declared output spacing and the signed spacing the samples really have (x = wvl Dz f: negative when Dz < 0)
ASOut(g, m) == Spc(RMul(m, g), "d1")
OneOut(g, zm) == Spc(RDiv(zm, g), "fz")
TwoOutDeclared(g, m) == Spc(RMul(m, g), "d1")
TwoOutTrue(g, m, zm) == Spc(RMul(g, RDiv(Dz2(m, zm), Dz1(m, zm))), "d1")     \* wvl Dz2 / (N * (wvl Dz1/(N g d1)))

-----------------------------------------------------------------------------
(* ---------- power ledger ---------- *)
\* |coefficient|^2 and monomial^2 of all scalar stages, DFT power gains (a centred unscaled DFT multiplies the power by N^2
\* per 2-D forward transform and by 1/N^2 per inverse one), and the squared ratio of output to input spacing
RECURSIVE LedgerCoef(_, _), LedgerMono(_, _)
LedgerCoef(st, k) == IF k > Len(st) THEN One
                     ELSE RMul(IF st[k].t = "scal" THEN RMul(st[k].coef, st[k].coef) ELSE One, LedgerCoef(st, k + 1))
LedgerMono(st, k) == IF k > Len(st) THEN M1
                     ELSE MAdd(CASE st[k].t = "scal" -> MScale(2, st[k].mono)
                                 [] st[k].t = "dft" -> IF st[k].fwd THEN Mono(0, 0, 0, 2) ELSE Mono(0, 0, 0, -2)
                                 [] OTHER -> M1,
                               LedgerMono(st, k + 1))
PowerConserved(st, gin, sout) ==
    /\ RMul(LedgerCoef(st, 1), RDiv(RMul(sout.g, sout.g), RMul(gin, gin))) = One
    /\ MAdd(LedgerMono(st, 1), MAdd(MScale(2, SpMono(sout)), MScale(-2, Mono(0, 0, 1, 0)))) = M1
\* every DFT stage is a scaled unitary (exact, on the exponent tables of the centred transforms)
DftsUnitary(n) == RowsOrthogonal(Table("ft", n), n) /\ RowsOrthogonal(Table("ift", n), n)

-----------------------------------------------------------------------------
(* ---------- state machine: build one pipeline (C10) or run one program of unit-magnification steps (C11) ---------- *)
Props == {"angularSpectrum", "oneStepFresnel", "twoStepFresnel", "lensAgainst"}
RMag(mm) == R(mm[1], mm[2])
Init ==
    /\ stages = <<>> /\ sp = <<>> /\ truesp = <<>> /\ acc = Zero
    /\ \/ \E n \in Sizes, p \in Props, mm \in Mags, zm \in ZMults :
             /\ (p \in {"oneStepFresnel", "lensAgainst"} => mm = <<1, 1>>)
             /\ pc = "build" /\ prog = <<>> /\ cfg = [kind |-> "pipeline", N |-> n, prop |-> p, m |-> RMag(mm), zm |-> <<zm, 1>>]
       \/ \E n \in Sizes : pc = "step" /\ prog = <<>> /\ cfg = [kind |-> "program", N |-> n]
       \/ \E n \in Sizes, mm \in Mags, zm \in ZMults :
             mm # <<1, 1>> /\ pc = "roundtrip" /\ prog = <<>> /\ cfg = [kind |-> "magnify-back", N |-> n, m |-> RMag(mm), zm |-> <<zm, 1>>]

Build ==
    /\ pc = "build"
    /\ stages' = CASE cfg.prop = "angularSpectrum" -> AS(One, cfg.m, cfg.zm)
                   [] cfg.prop = "oneStepFresnel" -> OneStep(One, cfg.zm)
                   [] cfg.prop = "twoStepFresnel" -> TwoStep(One, cfg.m, cfg.zm)
                   [] cfg.prop = "lensAgainst" -> Lens(One, cfg.zm)
    /\ sp' = CASE cfg.prop = "angularSpectrum" -> ASOut(One, cfg.m)
               [] cfg.prop = "twoStepFresnel" -> TwoOutDeclared(One, cfg.m)
               [] OTHER -> OneOut(One, cfg.zm)
    /\ truesp' = CASE cfg.prop = "twoStepFresnel" -> TwoOutTrue(One, cfg.m, cfg.zm)
                   [] cfg.prop = "angularSpectrum" -> ASOut(One, cfg.m)
                   [] OTHER -> OneOut(One, cfg.zm)
    /\ pc' = "done" /\ UNCHANGED <<cfg, prog, acc>>

\* C11: one more unit-magnification angular-spectrum step of zm * z0; the pipeline grows, and `acc` is the transfer-function
\* coefficient of the COLLAPSED pipeline (collapse = the inverse DFT of one step cancels the forward DFT of the next, and two
\* adjacent diagonal stages add their coefficients) - the facts the collapse relies on are checked in CollapseSound
Step ==
    /\ pc = "step" /\ Len(prog) < ProgLen
    /\ \E zm \in ZMults :
          /\ prog' = Append(prog, zm)
          /\ stages' = stages \o AS(One, One, <<zm, 1>>)
          /\ acc' = RAdd(acc, AS(One, One, <<zm, 1>>)[6].c)
    /\ UNCHANGED <<pc, cfg, sp, truesp>>

\* C11: m then 1/m with -z
RoundTrip ==
    /\ pc = "roundtrip"
    /\ stages' = AS(One, cfg.m, cfg.zm) \o AS(cfg.m, RDiv(One, cfg.m), RNeg(cfg.zm))
    /\ sp' = Spc(One, "d1") /\ truesp' = Spc(One, "d1")
    /\ pc' = "done" /\ UNCHANGED <<cfg, prog, acc>>

Next == Build \/ Step \/ RoundTrip
Spec == Init /\ [][Next]_vars

-----------------------------------------------------------------------------
Done == pc = "done"
\* C10
PowerLedger == (Done /\ cfg.kind = "pipeline") => PowerConserved(stages, One, sp) /\ DftsUnitary(cfg.N)
StagesTyped == \A k \in 1..Len(stages) : stages[k].t \in {"scal", "diag", "const", "dft"}
\* C11 orientation: the samples really sit where the declared (positive) output grid says
OrientationPreserved == (Done /\ cfg.kind = "pipeline" /\ cfg.prop # "twoStepFresnel") => truesp = sp
TwoStepOrientation == (Done /\ cfg.kind = "pipeline" /\ cfg.prop = "twoStepFresnel") =>
                          (truesp = sp <=> cfg.m = One)             \* recorded finding: flipped whenever d2 # d1
\* C11 group law: a program of unit-magnification steps collapses to one transfer function linear in the total distance
Total == LET RECURSIVE S(_) S(k) == IF k = 0 THEN 0 ELSE prog[k] + S(k - 1) IN S(Len(prog))
Additive == (cfg.kind = "program" /\ Len(prog) > 0) =>
                /\ acc = (IF Total = 0 THEN Zero ELSE AS(One, One, <<Total, 1>>)[6].c)      \* distance 0 = identity
                /\ \A k \in 1..Len(stages) : (stages[k].t = "diag" /\ stages[k].dom = "x") => stages[k].c = Zero   \* Q1 = Q3 = 1
                /\ \A k \in 1..Len(stages) : stages[k].t = "const" => stages[k].c = Zero
\* (a fact about the size only: evaluated once per size, in the program's initial state)
CollapseSound == (cfg.kind = "program" /\ Len(prog) = 0) =>
                /\ IsIdentity(Table("ft", cfg.N), Table("ift", cfg.N), cfg.N)       \* forward after inverse = identity
                /\ IsIdentity(Table("ift", cfg.N), Table("ft", cfg.N), cfg.N)
\* C11: back-propagation with 1/m: chirps cancel pairwise, scalars multiply to 1, only a constant phase remains
MagnifyBack == (Done /\ cfg.kind = "magnify-back") =>
    LET st == stages IN
    /\ RAdd(st[9].c, st[11].c) = Zero          \* Q3 of the first call and Q1 of the second, same grid
    /\ RAdd(st[6].c, st[15].c) = Zero          \* the two transfer functions
    /\ RAdd(st[2].c, st[18].c) = Zero          \* Q1 of the first call and Q3 of the second, same grid
    /\ RMul(st[1].coef, st[10].coef) = One
    /\ PowerConserved(st, One, sp)

EmitCase ==
    /\ (Emit /\ Done) => PrintT(ToJson([kind |-> cfg.kind, N |-> cfg.N, prop |-> IF cfg.kind = "pipeline" THEN cfg.prop ELSE "angularSpectrum",
                                        m |-> cfg.m, zm |-> cfg.zm, stages |-> stages, sp |-> sp, truesp |-> truesp]))
    /\ (Emit /\ cfg.kind = "program" /\ Len(prog) > 0) => PrintT(ToJson([kind |-> "program", N |-> cfg.N, prog |-> prog, total |-> Total, acc |-> acc]))
=============================================================================
