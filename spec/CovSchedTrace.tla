---------------------------- MODULE CovSchedTrace ----------------------------
(***************************************************************************)
(* Validates worker traces recorded from REAL multiprocessing pools        *)
(* against CovSched: the logged events are the Start / Finish of each      *)
(* per-pair task inside the worker processes (ordered by a shared sequence *)
(* number taken inside the worker, never by wall-clock time); the parent's *)
(* steps (StartBuild, Gather, Consume, NextLayer, Return) are not logged   *)
(* and are composed in as silent steps - they are deterministic, so the    *)
(* search stays linear in the trace length.                                *)
(* A trace is [k, events]; an event is [op, layer, task, w].               *)
(***************************************************************************)
EXTENDS CovSched, IOUtils

Traces == JsonDeserialize(IOEnv.TRACE_FILE)
VARIABLES tid, l
tvars == <<k, phase, layer, queue, running, complOrder, results, cursor, accum, builds, sched, prevK, tid, l>>

Ev == Traces[tid].events[l]
Has(op) == l <= Len(Traces[tid].events) /\ Ev.op = op

TraceInit == /\ \E t \in 1..Len(Traces) : tid = t /\ k = Traces[t].k
             /\ phase = "idle" /\ layer = 0 /\ queue = <<>> /\ running = [w \in Workers |-> None]
             /\ complOrder = <<>> /\ results = <<>> /\ cursor = 0 /\ accum = Fresh /\ builds = 0 /\ sched = <<>> /\ prevK = <<>>
             /\ l = 1

\* Grain mismatch, resolved explicitly: the hook logs when a worker BEGINS a task, a little after the pool handed it out, so two
\* workers' begin events can appear in the opposite order of the hand-outs.  The trace step therefore lets the logged task be
\* any task still in the queue (CovSched.Start takes the head), everything else as in Start.
TraceStart  == /\ Has("start") /\ Ev.layer = layer /\ phase = "map" /\ Ev.w <= k /\ running[Ev.w] = None
               /\ \E p \in 1..Len(queue) : queue[p] = Ev.task
               /\ running' = [running EXCEPT ![Ev.w] = Ev.task]
               /\ queue' = SelectSeq(queue, LAMBDA t : t # Ev.task)
               /\ UNCHANGED <<k, phase, layer, complOrder, results, cursor, accum, builds, sched, prevK, tid>>
               /\ l' = l + 1
TraceFinish == /\ Has("finish") /\ Ev.layer = layer /\ running[Ev.w] = Ev.task /\ Finish(Ev.w) /\ l' = l + 1 /\ UNCHANGED tid
Silent == /\ (StartBuild \/ Gather \/ Consume \/ NextLayer \/ Return) /\ UNCHANGED <<tid, l>>

TraceNext == TraceStart \/ TraceFinish \/ Silent
TraceSpec == TraceInit /\ [][TraceNext]_tvars

Accepted == (l = Len(Traces[tid].events) + 1 /\ phase = "returned") => PrintT(ToJson([kind |-> "accepted", tid |-> tid]))
Progress == PrintT(ToJson([kind |-> "progress", tid |-> tid, l |-> l]))
=============================================================================
