SPECIFICATION Spec
INVARIANT SingleBinding
INVARIANT EnvMatchesObserved
INVARIANT FourierAPIUnshadowed
INVARIANT Report
CHECK_DEADLOCK FALSE
