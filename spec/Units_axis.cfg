SPECIFICATION Spec
CONSTANTS
  Mode = "axis"
  MaxExtent = 3
  Emit = TRUE
INVARIANT AxisPartition
INVARIANT EmitAxis
CHECK_DEADLOCK FALSE
