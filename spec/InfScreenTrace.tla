--------------------------- MODULE InfScreenTrace ---------------------------
(***************************************************************************)
(* Trace validation for InfScreen: every recorded execution of a real      *)
(* PhaseScreenVonKarman / PhaseScreenKolmogorov object must be a behaviour *)
(* of InfScreen.  One TLC run validates a whole batch of traces.           *)
(* A trace is [variant, req, f, nx, slen, events]; an event is             *)
(* [op, work, exposed, draws, finite, rng_same] logged at the return of    *)
(* the public call (work/exposed are matrices of first-seen cell numbers). *)
(***************************************************************************)
EXTENDS InfScreen, IOUtils

Traces == JsonDeserialize(IOEnv.TRACE_FILE)

VARIABLES tid, l
tvars == <<cfg, scrn, pos, k, hist, tid, l>>

Ev == Traces[tid].events[l]
Matches(e, s, p) == /\ e.work = s
                    /\ e.exposed = [r \in 1..cfg.req |-> [c \in 1..cfg.req |-> s[r][c]]]
                    /\ e.draws = p
                    /\ e.finite

TraceInit ==
    /\ \E t \in 1..Len(Traces) :
          /\ tid = t
          /\ InitFor(MkCfg(Traces[t].variant, Traces[t].req, Traces[t].f))
          /\ Traces[t].nx = cfg.nx /\ Traces[t].slen = cfg.slen
          /\ Traces[t].events[1].op = "new"
          /\ Matches(Traces[t].events[1], scrn, pos)
    /\ l = 2

HasEvent(ops) == l <= Len(Traces[tid].events) /\ Ev.op \in ops

TraceAddRow == /\ HasEvent({"add_row"}) /\ AddRow /\ Matches(Ev, scrn', pos') /\ l' = l + 1 /\ UNCHANGED tid
TraceRead   == /\ HasEvent({"read", "asarray"}) /\ Read /\ Matches(Ev, scrn, pos) /\ Ev.rng_same /\ l' = l + 1 /\ UNCHANGED tid
TraceRepr   == /\ HasEvent({"repr", "str"}) /\ Repr /\ Matches(Ev, scrn, pos) /\ Ev.rng_same /\ l' = l + 1 /\ UNCHANGED tid

TraceNext == TraceAddRow \/ TraceRead \/ TraceRepr
TraceSpec == TraceInit /\ [][TraceNext]_tvars

\* one line per reached position; the harness accepts a trace iff position Len(events)+1 was reached
Progress == PrintT(ToJson([kind |-> "progress", tid |-> tid, l |-> l]))
=============================================================================
