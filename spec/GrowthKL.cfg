SPECIFICATION Spec
CONSTANTS
  MaxNr = 8
  MaxOrd = 7
  MaxNpp = 9
  MaxDim = 5
  Emit = TRUE
INVARIANT HelmertIsDef
INVARIANT HelmertOrthonormal
INVARIANT HelmertFiltersPiston
INVARIANT AziRowsAreDef
INVARIANT LastRowEmpty
INVARIANT AziPairs
INVARIANT RebinInRange
INVARIANT RebinMonotone
INVARIANT RebinIdentity
INVARIANT RebinReplicates
INVARIANT RebinStrides
INVARIANT RadiiIncreasing
INVARIANT RadiiInside
INVARIANT RadiiEqualArea
INVARIANT EmitCase
CHECK_DEADLOCK FALSE
