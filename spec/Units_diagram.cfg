SPECIFICATION Spec
CONSTANTS
  Mode = "diagram"
  MaxExtent = 3
  Emit = FALSE
INVARIANT Verdict
CHECK_DEADLOCK FALSE
